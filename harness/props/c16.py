"""C16 — generated OpenAPI document is closed and matches the requested CRUD (DESIGN.md §4 C16)."""
from __future__ import annotations

import contextlib
import io
import itertools
import json
import os
import re
import shutil
import tempfile
from pathlib import Path

from harness import core

MODULE = "CddVerif.Properties.C16"
THEOREMS = [
    "C16.refs_closed",
    "C16.request_bodies_defined",
    "C16.ops_exact",
    "C16.params_declared",
    "C16.schemas_describe_models",
    "C16.body_key_is_name",
    "C16.bulk_closed",
    "C16.bulk_key_not_closed",
    "C16.bulk_full_false",
    "C16.bulk_key_collision",
    "C16.bulk_key_collision_lost",
    "C16.models_with_base_are_discovered",
    "C16.bulk_src_closed",
    "C16.bulk_ops_exact",
    "C16.bulk_params_declared",
    "C16.bulk_roundtrip",
    "C16.bulk_ops_exact_any_layout",
    "C16.pinned_appended_batch_lost",
    "C16.gen_routes_pk_total",
    "C16.pinned_undocumented_column_raises",
    "C16.payload_via_parse_samples",
]

HTTP = ("get", "put", "post", "delete", "options", "head", "patch", "trace")
CRUDS = ["C", "R", "D", "CR", "CD", "RD", "CRD"]
PREFIXES = ["", "/api", "/api/v1", "/v2/admin-x", "/a_b/c"]
APPS = ["rest_api", "app", "api_v2"]
SINGLE = ["Foo", "Config", "User", "Item", "Order", "X", "Tag"]
MULTI = ["FooBar", "UserAccount", "HttpRequestLog", "OrderLineItem", "DataSet", "ABTest"]
BODYISH = ["Body", "BodyPart", "AntiBody", "RequestBody", "BodyBodyX", "Bod", "FooB", "FooBo", "FooBod", "MyBodyShop", "Bodybody"]
ODD = ["Foo2", "Item2Go", "Foo_Bar", "foo", "HTTPServer", "ID", "fooBar", "Config_tbl", "A1b2"]
COLTYPES = ["Integer", "String", "Boolean", "Float", "JSON"]
COLNAMES = ["id", "name", "dataset_name", "created", "value", "flag", "payload", "K", "owner_id", "slug", "datasetName", "ID"]
# attribute names a column may legally have: leading / trailing underscores, dunder-like, digits, upper case, non-ASCII letters,
# names that are also Python / SQLAlchemy names
COLNAMES_ODD = ["_id", "__secret", "_", "id_", "__tablename", "ID2", "x1", "n\u00famero", "gr\u00f6\u00dfe", "\u540d\u524d", "type", "metadata", "class_", "Column", "Base", "_Private9"]
BASES = [["Base"], ["Base"], ["Base"], ["AuditMixin", "Base"], ["Base", "AuditMixin"], ["mixins.Audit", "Base"], ["Base", "mixins.Audit"], ["TimestampMixin", "AuditMixin", "Base"],
         ["mixins.Audit", "AuditMixin", "Base"]]
COLDOCS = ["the id", "name of thing", "primary identifier", "a value", "some `code` text", "flag: yes/no", "x"]
PRELUDE = ("import mixins\nfrom sqlalchemy import JSON, Boolean, Column, Float, Integer, MetaData, String, Table\nfrom sqlalchemy.orm import declarative_base\n\n"
           "Base = declarative_base()\nmetadata = MetaData()\n\n\n")
MIXIN_SRC = 'class %s(object):\n    """Helper mixed into models (not a model itself)"""\n\n    def touch(self):\n        """:return: nothing"""\n        return None\n'
BYSTANDER_SRC = 'class Helper(object):\n    """Plain class next to the models (not a model)"""\n\n    limit = 10\n\n\nclass Settings:\n    """No bases at all"""\n\n    debug = False\n' 


# ----------------------------------------------------------------------------------------------------------------
# wire encoding of JSON values (keeps dict order; see lean/CddVerif/Driver/C16.lean)
# ----------------------------------------------------------------------------------------------------------------
def enc(x):
    if x is None or isinstance(x, (bool, str)):
        return x
    if isinstance(x, int):
        return x
    if isinstance(x, float):
        return {"f": repr(x)}
    if isinstance(x, (list, tuple)):
        return {"a": [enc(v) for v in x]}
    if isinstance(x, dict):
        return {"o": [[k, enc(v)] for k, v in x.items()]}
    raise TypeError("not encodable: %r" % (x,))


def dec(x):
    if isinstance(x, dict):
        if "f" in x:
            return float(x["f"])
        if "a" in x:
            return [dec(v) for v in x["a"]]
        return {k: dec(v) for k, v in x["o"]}
    return x


# ----------------------------------------------------------------------------------------------------------------
# the property's oracle, evaluated on a real document
# ----------------------------------------------------------------------------------------------------------------
def all_refs(x, path=()):
    if isinstance(x, dict):
        for k, v in x.items():
            if k == "$ref":
                yield path, v
            yield from all_refs(v, path + (k,))
    elif isinstance(x, list):
        for i, v in enumerate(x):
            yield from all_refs(v, path + (i,))


def resolves(doc, ref) -> bool:
    """RFC 6901 local pointer"""
    if not isinstance(ref, str):
        return False
    if ref == "#":
        return True
    if not ref.startswith("#/"):
        return False
    cur = doc
    for seg in ref[2:].split("/"):
        seg = seg.replace("~1", "/").replace("~0", "~")
        if isinstance(cur, dict) and seg in cur:
            cur = cur[seg]
        elif isinstance(cur, list) and seg.isdigit() and int(seg) < len(cur):
            cur = cur[int(seg)]
        else:
            return False
    return True


def doc_ops(doc):
    return [(p, m) for p, item in doc.get("paths", {}).items() if isinstance(item, dict) for m in item if m in HTTP]


def declared_params(item, op=None):
    out = set()
    for holder in (item, op or {}):
        for p in holder.get("parameters", []) if isinstance(holder, dict) else []:
            if isinstance(p, dict) and p.get("in") == "path":
                out.add(p.get("name"))
    return out


def requested_ops(entries, brace=True):
    out = []
    for e in entries:
        item = "%s/{%s}" % (e["route"], e["id"])
        if "C" in e["crud"]:
            out.append((e["route"], "post"))
        if "R" in e["crud"]:
            out.append((item, "get"))
        if "D" in e["crud"]:
            out.append((item, "delete"))
    return out


def oracle(doc, entries):
    """Failures of the property's clauses on one real document: list of (sig-part, text)."""
    bad = []
    try:
        s = json.dumps(doc, allow_nan=False)
        if json.loads(s) != doc:
            bad.append(({"kind": "not-json-roundtrip"}, "json.loads(json.dumps(doc)) != doc (non-string keys / tuples)"))
    except (TypeError, ValueError) as e:
        bad.append(({"kind": "not-serialisable"}, "json.dumps fails: %s" % e))
    for path, ref in all_refs(doc):
        if not isinstance(ref, str):
            bad.append(({"kind": "ref-not-string"}, "$ref at %s is %r" % ("/".join(map(str, path)), ref)))
        elif not resolves(doc, ref):
            bad.append(({"kind": "dangling-ref", "ref": ref, "at": path[0] if path else ""}, "$ref %s at %s does not resolve" % (ref, "/".join(map(str, path)))))
    for p, item in doc.get("paths", {}).items():
        if not isinstance(item, dict):
            continue
        for m, op in item.items():
            if m in HTTP and isinstance(op, dict) and "requestBody" in op:
                rb = op["requestBody"]
                if isinstance(rb, dict) and "$ref" in rb:
                    if not (isinstance(rb["$ref"], str) and rb["$ref"].startswith("#/components/requestBodies/") and resolves(doc, rb["$ref"])):
                        bad.append(({"kind": "request-body-undefined", "ref": rb["$ref"]}, "requestBody %r of %s %s is not defined" % (rb["$ref"], m, p)))
                elif not (isinstance(rb, dict) and "content" in rb):
                    bad.append(({"kind": "request-body-undefined", "ref": None}, "requestBody of %s %s is neither a $ref nor inline content" % (m, p)))
        for x in re.findall(r"\{([^{}]*)\}", p):
            ops = [op for m, op in item.items() if m in HTTP]
            if not all(x in declared_params(item, op) for op in ops) or (not ops and x not in declared_params(item)):
                bad.append(({"kind": "path-param-undeclared", "param": x}, "template parameter {%s} of %s is not declared" % (x, p)))
    present, want = set(doc_ops(doc)), set(requested_ops(entries))
    if present != want:
        bad.append(({"kind": "ops-not-exact", "missing": sorted(want - present), "extra": sorted(present - want)},
                    "operations present %s, requested %s" % (sorted(present), sorted(want))))
    return bad


# ----------------------------------------------------------------------------------------------------------------
# generators
# ----------------------------------------------------------------------------------------------------------------
def snake(name: str) -> str:
    return re.sub(r"(?<=[a-z0-9])(?=[A-Z])", "_", name).lower()


def title_key(table: str) -> str:
    return table.replace("_tbl", "", 1).title()


def gen_table(r, cls: str) -> tuple[str, str]:
    k = r.random()
    if k < 0.30:
        return snake(cls), "snake"
    if k < 0.45:
        return snake(cls) + "_tbl", "snake_tbl"
    if k < 0.60:
        return cls.lower(), "lower"
    if k < 0.70:
        return cls.lower() + "_tbl", "lower_tbl"
    if k < 0.85:
        return cls, "same"
    if k < 0.93:
        return snake(cls).title(), "Title_Snake"
    return r.choice(["t_" + cls.lower(), cls.lower() + "s", "tbl_" + snake(cls)]), "other"


def shuffled(r, crud: str) -> str:
    return "".join(r.sample(list(crud), len(crud))) if r.random() < 0.3 else crud


def gen_model(r, used: set, undocumented_ok=True, forms=("class",)) -> dict:
    pool = r.choice([SINGLE, SINGLE, MULTI, MULTI, BODYISH, ODD])
    cls = r.choice(pool)
    while cls in used:
        cls = r.choice(SINGLE + MULTI + BODYISH + ODD)
    used.add(cls)
    table, tkind = gen_table(r, cls)
    ncols = r.randint(1, 6)
    odd_cols = r.random() < 0.45
    names = r.sample(COLNAMES + COLNAMES_ODD * 2 if odd_cols else COLNAMES, ncols + 2)
    names = list(dict.fromkeys(names))[:ncols]
    ncols = len(names)
    kinds = ["explicit-first", "inferred"] if ncols == 1 else ["explicit-first", "explicit-last", "inferred", "inferred"] if ncols == 2 else [
        "explicit-first", "explicit-middle", "explicit-last", "inferred", "inferred"]
    pk_kind = r.choice(kinds)
    pk_idx = {"explicit-first": 0, "explicit-middle": r.randrange(1, max(2, ncols - 1)), "explicit-last": ncols - 1}.get(pk_kind)
    if odd_cols and pk_idx is not None and r.random() < 0.6:  # the PK itself is one of the unusual names
        odd = r.choice(COLNAMES_ODD)
        if odd not in names:
            names[pk_idx] = odd
    undocumented = undocumented_ok and r.random() < 0.25
    cols = []
    for i, c in enumerate(names):
        doc = r.choice(COLDOCS)
        if undocumented and r.random() < 0.5:
            doc = None
        cols.append([c, r.choice(COLTYPES), doc, i == pk_idx, r.choice([None, None, True, False])])
    prefix = r.choice(PREFIXES)
    form = r.choice(forms)
    return {"cls": cls, "table": table, "tkind": tkind, "doc": r.choice(["A model.", "Stores %s rows" % cls, "The `%s` entity.\n\nMore text." % cls]),
            "cols": cols, "pk_kind": pk_kind, "crud": shuffled(r, r.choice(CRUDS)), "form": form, "bases": r.choice(BASES) if form == "class" else [],
            "route": "%s/%s" % (prefix, r.choice([snake(cls), cls.lower(), snake(cls) + "s"])), "prefix": prefix}


def model_src(m: dict) -> str:
    if m.get("form", "class") == "table":
        out = ["%s = Table(" % m["table"], "    %r," % m["table"], "    metadata,"]
        for c, t, doc, pk, nullable in m["cols"]:
            args = [repr(c), t]
            if doc is not None:
                args.append("comment=%r" % doc)
            if pk:
                args.append("primary_key=True")
            if nullable is not None:
                args.append("nullable=%r" % nullable)
            out.append("    Column(%s)," % ", ".join(args))
        out += ["    comment=%r," % m["doc"], ")"]
        return "\n".join(out) + "\n"
    out = ["class %s(%s):" % (m["cls"], ", ".join(m.get("bases") or ["Base"])), '    """', *("    " + line if line else "" for line in m["doc"].split("\n")), '    """', "",
           "    __tablename__ = %r" % m["table"], ""]
    for c, t, doc, pk, nullable in m["cols"]:
        args = [t]
        if doc is not None:
            args.append("comment=%r" % doc)
        if pk:
            args.append("primary_key=True")
        if nullable is not None:
            args.append("nullable=%r" % nullable)
        out.append("    %s = Column(%s)" % (c, ", ".join(args)))
    return "\n".join(out) + "\n"


def document_src(case: dict) -> str:
    """the models file: prelude, the helper classes the models mention, bystanders, then the models in order"""
    mixins = sorted({b for m in case["models"] for b in m.get("bases", []) if b != "Base" and "." not in b})
    parts = [MIXIN_SRC % b for b in mixins]
    if case.get("bystanders"):
        parts.append(BYSTANDER_SRC)
    parts += [model_src(m) for m in case["models"]]
    return PRELUDE + "\n\n".join(parts)


def read_source(src: str) -> list:
    """INDEPENDENT reading of a models file with the stdlib `ast` only (no cdd): every ClassDef / Call node in `ast.walk` order with
    what `infer` may look at, and for the SQLAlchemy models (class with a plain `Base` base / `Table(...)` call) their columns in order."""
    import ast

    def column_call(v):
        return isinstance(v, ast.Call) and isinstance(v.func, ast.Name) and v.func.id == "Column"

    def is_pk(call):
        return any(k.arg == "primary_key" and isinstance(k.value, ast.Constant) and k.value.value is True for k in call.keywords)

    out = []
    for node in ast.walk(ast.parse(src)):
        if isinstance(node, ast.ClassDef):
            d = {"kind": "class", "name": node.name, "bases": [b.id for b in node.bases if isinstance(b, ast.Name)], "is_model": any(isinstance(b, ast.Name) and b.id == "Base" for b in node.bases)}
            cols, tablename = [], None
            for st in node.body:
                if isinstance(st, ast.Assign) and len(st.targets) == 1 and isinstance(st.targets[0], ast.Name):
                    if st.targets[0].id == "__tablename__" and isinstance(st.value, ast.Constant):
                        tablename = st.value.value
                    elif column_call(st.value):
                        cols.append([st.targets[0].id, is_pk(st.value)])
            d.update(cols=cols, table=tablename)
            out.append(d)
        elif isinstance(node, ast.Call):
            d = {"kind": "call", "nargs": len(node.args), "arg1": node.args[1].id if len(node.args) > 1 and isinstance(node.args[1], ast.Name) else None,
                 "is_model": isinstance(node.func, ast.Name) and node.func.id == "Table"}
            if d["is_model"]:
                d["table"] = node.args[0].value
                d["name"] = d["table"]
                d["cols"] = [[a.args[0].value, is_pk(a)] for a in node.args[2:] if column_call(a)]
            out.append(d)
    return out


def expected_pk(cols: list):
    """explicitly declared primary key, if any (else None: the generator may infer one)"""
    return next((c for c, pk in cols if pk), None)


def norm_case(case: dict) -> dict:
    """defaults for hand-written / older replay cases"""
    case.setdefault("bystanders", False)
    for m in case["models"]:
        m.setdefault("form", "class")
        m.setdefault("bases", ["Base"] if m["form"] == "class" else [])
    return case


def gen_case(r, k: int) -> dict:
    n = r.choice([1, 1, 2, 2, 3])
    used: set = set()
    models = []
    routes = set()
    while len(models) < n:
        # the first model is class-form (gen_routes only reads classes); later ones may be Table-form (schemas only in the bulk pipeline)
        m = gen_model(r, used, forms=("class",) if not models else ("class", "class", "class", "table"))
        if m["route"] in routes or any(m["route"].startswith(x + "/") or x.startswith(m["route"] + "/") for x in routes):
            used.discard(m["cls"])
            continue
        routes.add(m["route"])
        models.append(m)
    # make sure documents with several Create models are frequent
    if n > 1 and r.random() < 0.5:
        for m in models:
            if "C" not in m["crud"]:
                m["crud"] = "C" + m["crud"]
    app = r.choice(APPS)
    layout = r.choice(["separate", "separate", "shared"]) if n > 1 else "separate"
    other_app = r.random() < 0.2  # a routes file of another app that must be ignored
    return {"k": k, "app": app, "layout": layout, "models": models, "other_app": other_app, "bystanders": r.random() < 0.3}


# ----------------------------------------------------------------------------------------------------------------
# the real code
# ----------------------------------------------------------------------------------------------------------------
@contextlib.contextmanager
def quiet():
    with contextlib.redirect_stderr(io.StringIO()):
        yield


def impl_case(case: dict) -> dict:
    """Run the real pipeline for one generated document: sqlalchemy parse → json_schema, gen_routes, upsert_routes,
    openapi_bulk, and emit.openapi on the same (name, schema, route, pk, crud) tuples.
    `nodes`: every ClassDef / Call of the models file (independent stdlib reading) with what the real parser makes of it."""
    import ast

    import cdd.class_.parse  # noqa: F401  (import order)
    import cdd.json_schema.emit
    import cdd.sqlalchemy.parse
    from cdd.compound.openapi.emit import openapi
    from cdd.compound.openapi.gen_openapi import openapi_bulk
    from cdd.compound.openapi.gen_routes import gen_routes, upsert_routes

    out: dict = {"models": []}
    d = tempfile.mkdtemp(prefix="c16_")
    try:
        with quiet():
            src = document_src(case)
            mp = os.path.join(d, "models.py")
            with open(mp, "w") as f:
                f.write(src)
            open(os.path.join(d, "__init__.py"), "w").close()
            # ---- every ClassDef / Call node, in ast.walk order; the real parser is run on a FRESH tree per node (it mutates the tree)
            nodes = read_source(src)
            for idx, nd in enumerate(nodes):
                fresh = [x for x in ast.walk(ast.parse(src)) if isinstance(x, (ast.ClassDef, ast.Call))][idx]
                try:
                    ir = cdd.sqlalchemy.parse.sqlalchemy(fresh) if nd["kind"] == "class" else cdd.sqlalchemy.parse.sqlalchemy_table(fresh)
                    params = [[k, v.get("doc")] for k, v in ir["params"].items()]  # before json_schema(): it consumes the docs
                    nd["parsed"] = {"name": ir["name"], "params": params, "schema": enc(cdd.json_schema.emit.json_schema(ir))}
                except Exception as e:  # noqa
                    nd["parsed"] = None
                    if nd["is_model"]:
                        nd["parse_error"] = core.exc_name(e)
            out["nodes"] = nodes
            files: list[list] = []  # per routes file: the batches (model indices) written to it, in order
            paths: list[str] = []
            for i, m in enumerate(case["models"]):
                nd = next(x for x in nodes if x["is_model"] and (x["kind"], x["name"]) == (("class", m["cls"]) if m["form"] == "class" else ("call", m["table"])))
                info = {"form": m["form"], "src_cols": nd["cols"], "src_table": nd["table"]}
                if nd["parsed"] is None:
                    info["parse_error"] = nd.get("parse_error")
                    out["models"].append(info)
                    continue
                info.update(table=nd["parsed"]["name"], params=nd["parsed"]["params"], schema=nd["parsed"]["schema"])
                if m["form"] == "table":  # gen_routes reads classes only: Table-form models take part in emit.openapi and in the schemas of openapi_bulk
                    info["pk"] = expected_pk(nd["cols"]) or nd["cols"][0][0]
                    info["no_routes"] = True
                    out["models"].append(info)
                    continue
                rp = os.path.join(d, "routes.py" if case["layout"] == "shared" else "routes_%d.py" % i)
                try:
                    routes, pk = gen_routes(case["app"], mp, m["cls"], m["crud"], m["route"])
                    upsert_routes(case["app"], routes, rp, m["route"], pk)
                    info["pk"] = pk
                except Exception as e:  # noqa
                    info["pk_error"] = core.exc_name(e)
                    out["models"].append(info)
                    continue
                if rp not in paths:
                    paths.append(rp)
                    files.append([])
                files[paths.index(rp)].append({"model": i, "app": case["app"]})
                out["models"].append(info)
            if case.get("other_app"):
                m = case["models"][0]
                if "pk" in out["models"][0] and not out["models"][0].get("no_routes"):
                    rp = os.path.join(d, "routes_other.py")
                    try:
                        routes, pk = gen_routes("other_app", mp, m["cls"], "CRD", "/other" + m["route"])
                        upsert_routes("other_app", routes, rp, "/other" + m["route"], pk)
                        paths.append(rp)
                        files.append([{"model": 0, "app": "other_app", "route": "/other" + m["route"], "crud": "CRD"}])
                    except Exception:  # noqa  (the same call already succeeded for the checked app; nothing to add)
                        pass
            out["files"] = files
            ok = [(m, info) for m, info in zip(case["models"], out["models"]) if "pk" in info]
            try:
                out["bulk"] = enc(openapi_bulk(case["app"], [mp], paths))
            except Exception as e:  # noqa
                out["bulk_error"] = core.exc_name(e)
            try:
                out["emit"] = enc(openapi([(m["cls"], dec(info["schema"]), m["route"], info["pk"], m["crud"]) for m, info in ok]))
            except Exception as e:  # noqa
                out["emit_error"] = core.exc_name(e)
    finally:
        shutil.rmtree(d, ignore_errors=True)
    return out


def impl_emit(entries: list) -> dict:
    """Real `emit.openapi` on explicit tuples (malformed stream: odd cruds, clashing names/routes, `$ref`s in schemas)."""
    import cdd.class_.parse  # noqa: F401
    from cdd.compound.openapi.emit import openapi

    try:
        return {"doc": enc(openapi([(e["name"], dec(e["model"]), e["route"], e["id"], e["crud"]) for e in entries]))}
    except Exception as e:  # noqa
        return {"error": core.exc_name(e)}


def impl_entities(s: str):
    from cdd.compound.openapi.utils.parse_utils import extract_entities

    try:
        return extract_entities(s)
    except Exception as e:  # noqa
        return core.exc_name(e)


def impl_parse(case: dict) -> dict:
    """Real `parse.openapi`; the loader's argument and result are captured (the loader itself is not modelled)."""
    import cdd.class_.parse  # noqa: F401
    import cdd.compound.openapi.parse as op

    seen: dict = {}
    real_sl, real_l = op.safe_load, op.loads

    def wrap(fn):
        def inner(s):
            seen["arg"] = s
            try:
                r = fn(s)
            except Exception:
                seen["loader_raised"] = True
                raise
            seen["loaded"] = json.loads(json.dumps(enc(r), default=lambda o: {"unencodable": repr(o)}))
            return r

        return inner

    op.safe_load, op.loads = wrap(real_sl), wrap(real_l)
    try:
        with quiet():
            r = op.openapi(case["s"], {"route": "/x", "name": "app", "method": case["method"]}, case["summary"])
        seen["result"] = enc(r)
    except Exception as e:  # noqa
        seen["error"] = core.exc_name(e)
    finally:
        op.safe_load, op.loads = real_sl, real_l
    return seen


def impl_payload(case: dict) -> dict:
    """Real template → `ast` → `bottle()`; the arguments handed to `parse.openapi` are captured."""
    import ast

    import cdd.class_.parse  # noqa: F401
    import cdd.compound.openapi.parse as op
    import cdd.routes.emit.bottle as eb
    import cdd.routes.parse.bottle as pb

    cfg = {"app": case["app"], "name": case["name"], "route": case["route"], "variant": -1}
    if case["kind"] == "create":
        src = eb.create(**cfg)
    elif case["kind"] == "read":
        src = eb.read(primary_key=case["id"], **cfg)
    else:
        src = eb.destroy(primary_key=case["id"], **cfg)
    seen: dict = {}
    real = op.openapi

    def spy(openapi_str, routes_dict, summary):
        seen.update(yaml=openapi_str, summary=summary, method=routes_dict["method"], route=routes_dict["route"], app=routes_dict["name"])
        return real(openapi_str, routes_dict, summary)

    op.openapi = spy
    try:
        with quiet():
            fn = ast.parse(src).body[0]
            seen["payload"] = enc(pb.bottle(fn))
            seen["decorator"] = ast.unparse(fn.decorator_list[0])
    except Exception as e:  # noqa
        seen["error"] = core.exc_name(e)
    finally:
        op.openapi = real
    return seen


RAW_DOCS = [
    '"""Create `{n}`\n\n```yml\nresponses:\n  \'201\':\n    description: A `{n}` object.\n    content:\n      application/json:\n        schema:\n          $ref: ```{n}```\n```\n\n:return: x\n:rtype: ```dict```\n"""',
    '"""\nList things\n\n```yml\nresponses:\n  \'200\':\n    description: many\n```\n\n:return: x\n:rtype: ```dict```\n"""',
    '"""\nUpdate `{n}`\n\n```yml\nresponses:\n  \'200\':\n    content:\n      application/json:\n        schema:\n          $ref: ```{n}```\n  \'404\':\n    content:\n      application/json:\n        schema:\n          $ref: ```ServerError```\n  \'204\':\n```\n"""',
    '"""\nNo yaml responses\n\n```yml\ndescription: about `{n}` here\n```\n"""',
    '"""\nBody by hand `{n}`\n\n```yml\nrequestBody:\n  $ref: \'#/components/requestBodies/{n}Body\'\nresponses:\n  \'200\':\n    description: ok\n```\n"""',
    '"""\nOdd request bodies\n\n```yml\nrequestBody: {rb}\nresponses: {{}}\n```\n"""',
    None,
]


def impl_raw(case: dict) -> dict:
    """Hand-written route functions (not from the templates): real `bottle()` per function and real `openapi_bulk`."""
    import ast

    import cdd.class_.parse  # noqa: F401
    import cdd.json_schema.emit
    import cdd.routes.parse.bottle as pb
    import cdd.sqlalchemy.parse
    from cdd.compound.openapi.gen_openapi import openapi_bulk

    d = tempfile.mkdtemp(prefix="c16r_")
    out: dict = {}
    try:
        with quiet():
            mp, rp = os.path.join(d, "models.py"), os.path.join(d, "routes.py")
            with open(mp, "w") as f:
                f.write(PRELUDE + "\n\n".join(model_src(m) for m in case["models"]))
            tables = []
            for m in case["models"]:
                node = next(n for n in ast.parse(model_src(m)).body if isinstance(n, ast.ClassDef))
                try:
                    ir = cdd.sqlalchemy.parse.sqlalchemy(node)
                    tables.append({"name": ir["name"], "schema": enc(cdd.json_schema.emit.json_schema(ir))})
                except Exception as e:  # noqa  (reading the model is not this stream's subject: skipped here, reported by the generated-documents stream)
                    out["bottle_error"] = "model-parse:" + core.exc_name(e)
                    return out
            src = "rest_api = other = None\n\n" + "\n\n".join(
                "@%s.%s(%r)\ndef f%d(%s):\n    %s\n    return None\n" % (fn["app"], fn["method"], fn["path"], i, "", (fn["doc"] or "pass").replace("\n", "\n    "))
                for i, fn in enumerate(case["fns"]))
            with open(rp, "w") as f:
                f.write(src)
            routes = []
            for node, fn in zip([n for n in ast.parse(src).body if isinstance(n, ast.FunctionDef)], case["fns"]):
                try:
                    routes.append({"app": fn["app"], "path": fn["path"], "method": fn["method"], "payload": enc(pb.bottle(node))})
                except Exception as e:  # noqa
                    out["bottle_error"] = core.exc_name(e)
            out["tables"], out["routes"] = tables, routes
            try:
                out["bulk"] = enc(openapi_bulk("rest_api", [mp], [rp]))
            except Exception as e:  # noqa
                out["bulk_error"] = core.exc_name(e)
    finally:
        shutil.rmtree(d, ignore_errors=True)
    return out


# ----------------------------------------------------------------------------------------------------------------
def entries_of(case, res, routed_only=False):
    """(name, route, id, crud) of the models that reached the pipelines; `id` is the primary key the SOURCE declares (independent
    reading) when it declares one, `id_used` the one the real pipeline chose"""
    out = []
    for i, (m, info) in enumerate(zip(case["models"], res["models"])):
        if "pk" in info and not (routed_only and info.get("no_routes")):
            out.append({"name": m["cls"], "route": m["route"], "id": expected_pk(info["src_cols"]) or info["pk"], "id_used": info["pk"], "crud": m["crud"],
                        "model": info["schema"], "i": i})
    return out


def props_of(schema) -> list:
    return list(schema.get("properties", {})) if isinstance(schema, dict) else None


def check_case(chk, case, res, model_bulk, model_emit, stats):
    replay = {"fn": "case", "case": case}
    models = case["models"]
    for m, info in zip(models, res["models"]):
        cols = [c for c, _ in info["src_cols"]]
        if "parse_error" in info:
            chk.failure({"region": "sqlalchemy-parse", "kind": info["parse_error"], "form": m["form"]},
                        "the %s-form model %s cannot be read (%s): no document can describe it" % (m["form"], m["cls"], (info["parse_error"] or "")[7:]), replay)
            continue
        if "pk_error" in info:
            undocumented = any(c[2] is None for c in m["cols"])
            chk.failure({"region": "gen_routes", "kind": info["pk_error"], "undocumented_column": undocumented},
                        "gen_routes(%s) raises %s: no routes can be generated for the model" % (m["cls"], info["pk_error"][7:]), replay)
        elif expected_pk(info["src_cols"]) is not None and info["pk"] != expected_pk(info["src_cols"]):
            chk.failure({"region": "gen_routes", "kind": "pk-is-not-the-declared-primary-key"},
                        "gen_routes(%s) addresses items by %r, the model declares primary_key=True on %r (columns %s)" % (m["cls"], info["pk"], expected_pk(info["src_cols"]), cols), replay)
        elif info["pk"] not in cols:
            chk.failure({"region": "gen_routes", "kind": "pk-is-not-a-column"}, "gen_routes(%s) addresses items by %r, not a column of the model (%s)" % (m["cls"], info["pk"], cols), replay)
    ents = entries_of(case, res)
    # ---- emit.openapi --------------------------------------------------------------------------------------
    if "emit" in res:
        doc = dec(res["emit"])
        for sig, text in oracle(doc, ents):
            chk.failure(dict(sig, region="emit"), "emit.openapi: " + text, replay)
        for e in ents:
            want = {k: v for k, v in dec(e["model"]).items() if not k.startswith("$")}
            if doc["components"]["schemas"].get(e["name"]) != want:
                chk.failure({"region": "emit", "kind": "schema-differs"}, "components.schemas[%s] is not the model's schema" % e["name"], replay)
            # independent reading of the source: one property per declared column, in declaration order
            cols = [c for c, _ in res["models"][e["i"]]["src_cols"]]
            got = props_of(doc["components"]["schemas"].get(e["name"]))
            if got != cols:
                chk.failure({"region": "emit", "kind": "properties-differ-from-source-columns", "what": "order" if got is not None and sorted(got) == sorted(cols) else "set"},
                            "components.schemas[%s].properties %s, the source declares the columns %s" % (e["name"], got, cols), replay)
        if model_emit is not None:
            if "doc" not in model_emit or dec(model_emit["doc"]) != doc:
                stats["dis_emit"] += 1
                chk.disagreement("C16 correspondence: OpenApi.openapi vs cdd.compound.openapi.emit.openapi", case, res["emit"], model_emit.get("doc", model_emit))
            else:
                verdict = (not [1 for _, r in all_refs(doc) if isinstance(r, str) and not resolves(doc, r)], sorted(doc_ops(doc)))
                if (model_emit["closed"], sorted(map(tuple, model_emit["ops"]))) != verdict:
                    stats["dis_oracle"] += 1
                    chk.disagreement("C16 oracle agreement (closed / ops) on emit documents", case, verdict, [model_emit["closed"], model_emit["ops"]])
    elif "emit_error" in res:
        chk.failure({"region": "emit", "kind": res["emit_error"]}, "emit.openapi raises %s" % res["emit_error"][7:], replay)
    # ---- openapi_bulk --------------------------------------------------------------------------------------
    if "bulk" in res:
        doc = dec(res["bulk"])
        ents = entries_of(case, res, routed_only=True)
        # every SQLAlchemy model of the models file (independent reading) is described by a schema of the document
        src_models = [nd for nd in res["nodes"] if nd["is_model"]]
        for nd in src_models:
            cols = [c for c, _ in nd["cols"]]
            key = title_key(nd["table"]) if isinstance(nd["table"], str) else None
            shared = [x for x in src_models if x is not nd and isinstance(x["table"], str) and title_key(x["table"]) == key]
            form = "class" if nd["kind"] == "class" else "table"
            if not any(props_of(v) == cols for v in doc["components"]["schemas"].values()):
                chk.failure({"region": "bulk", "kind": "no-schema-with-the-model-columns", "form": form, "key_shared": bool(shared)},
                            "no schema of the document has the columns %s of the %s-form model %s (schemas: %s)" % (
                                cols, form, nd["name"], {k: props_of(v) for k, v in doc["components"]["schemas"].items() if k != "ServerError"}), replay)
        for sig, text in oracle(doc, ents):
            sig = dict(sig, region="bulk")
            if sig["kind"] == "dangling-ref":
                name = sig["ref"].rpartition("/")[2]
                mm = [m for m in models if m["cls"] == name]
                sig["target"] = "generated-class" if mm else "other"
                sig["key_eq_name"] = bool(mm) and title_key(mm[0]["table"]) == name
                sig.pop("ref")
            if sig["kind"] == "ops-not-exact":
                sig["layout"] = case["layout"]
                sig["what"] = "+".join(x for x in ("missing" if sig["missing"] else "", "extra" if sig["extra"] else "") if x)
                sig.pop("missing"), sig.pop("extra")
            chk.failure(sig, "openapi_bulk (%s routes file): %s" % (case["layout"], text), replay)
        # "routes generated for a model, fed back, describe that same model": compare with emit on the same tuples
        if "emit" in res:
            em = dec(res["emit"])
            present = set(doc_ops(doc))
            # entries whose requested operations all made it into the document (the others were reported above)
            seen_ents = [e for e in ents if set(requested_ops([e])) <= present]
            for e in seen_ents:
                for p in (e["route"], "%s/{%s}" % (e["route"], e["id"])):
                    item = em["paths"].get(p)
                    if item is not None and any(k in HTTP for k in item) and doc["paths"].get(p) != item:
                        chk.failure({"region": "bulk", "kind": "roundtrip-paths-differ"},
                                    "path item %s read back from the generated routes of %s differs from emit.openapi: %s vs %s" % (
                                        p, e["name"], json.dumps(doc["paths"].get(p), sort_keys=True)[:300], json.dumps(item, sort_keys=True)[:300]), replay)
                if "C" in e["crud"]:
                    k = e["name"] + "Body"
                    if doc["components"]["requestBodies"].get(k) != em["components"]["requestBodies"].get(k):
                        chk.failure({"region": "bulk", "kind": "roundtrip-request-bodies-differ"},
                                    "requestBodies[%s] read back from the generated routes differs from emit.openapi: %s vs %s" % (
                                        k, json.dumps(doc["components"]["requestBodies"].get(k))[:250], json.dumps(em["components"]["requestBodies"].get(k))[:250]), replay)
            for m, info in zip(models, res["models"]):
                if "schema" not in info:
                    continue
                # the schema the model's routes point to (when present) must be the schema of that model's table
                want = {k: v for k, v in dec(info["schema"]).items() if not k.startswith("$")}
                if m["cls"] in doc["components"]["schemas"] and doc["components"]["schemas"][m["cls"]] != want:
                    others = [m2["cls"] for m2, i2 in zip(models, res["models"]) if m2 is not m and "schema" in i2 and title_key(i2["table"]) == m["cls"]
                              and doc["components"]["schemas"][m["cls"]] == {k: v for k, v in dec(i2["schema"]).items() if not k.startswith("$")}]
                    cause = "key-of-another-table" if others else "other"
                    chk.failure({"region": "bulk", "kind": "schema-differs", "cause": cause},
                                "components.schemas[%s], which the routes of class %s reference, is not the schema of its table %s%s" % (
                                    m["cls"], m["cls"], info["table"], " but that of class %s" % others[0] if others else ""), replay)
        if model_bulk is not None:
            if "doc" not in model_bulk or dec(model_bulk["doc"]) != doc:
                stats["dis_bulk"] += 1
                chk.disagreement("C16 correspondence: OpenApi.bulk vs cdd.compound.openapi.gen_openapi.openapi_bulk", case, res["bulk"], model_bulk.get("doc", model_bulk))
            else:
                verdict = (not [1 for _, r in all_refs(doc) if isinstance(r, str) and not resolves(doc, r)], sorted(doc_ops(doc)))
                if (model_bulk["closed"], sorted(map(tuple, model_bulk["ops"]))) != verdict:
                    stats["dis_oracle"] += 1
                    chk.disagreement("C16 oracle agreement (closed / ops) on bulk documents", case, verdict, [model_bulk["closed"], model_bulk["ops"]])
    elif "bulk_error" in res:
        chk.failure({"region": "bulk", "kind": res["bulk_error"]}, "openapi_bulk raises %s" % res["bulk_error"][7:], replay)
        if model_bulk is not None and model_bulk.get("raises") != res["bulk_error"][7:]:
            stats["dis_bulk"] += 1
            chk.disagreement("C16 correspondence: OpenApi.bulk vs cdd.compound.openapi.gen_openapi.openapi_bulk", case, res["bulk_error"], model_bulk)


def bulk_request(case, res):
    nodes = []
    for nd in res["nodes"]:
        tbl = {"name": nd["parsed"]["name"], "schema": nd["parsed"]["schema"]} if nd["parsed"] else None
        nodes.append({"kind": "class", "bases": nd["bases"], "table": tbl} if nd["kind"] == "class" else {"kind": "call", "nargs": nd["nargs"], "arg1": nd["arg1"], "table": tbl})
    files = []
    for f in res["files"]:
        batches = []
        for b in f:
            m, info = case["models"][b["model"]], res["models"][b["model"]]
            batches.append({"app": b["app"], "name": m["cls"], "route": b.get("route", m["route"]), "id": info["pk"], "crud": b.get("crud", m["crud"])})
        files.append(batches)
    return {"op": "c16.bulk", "app": case["app"], "nodes": nodes, "files": files}


def emit_request(ents):
    return {"op": "c16.emit", "entries": [{"name": e["name"], "model": e["model"], "route": e["route"], "id": e["id_used"], "crud": e["crud"]} for e in ents]}


ENT_ALPHABET = ["`", "``", "```", " ", "\n", "a", "Foo", "$ref: ", "ServerError", "\t", "x`y", "\xa0", " ", "\x1c", "'", ":"]


def gen_malformed_emit(r):
    """tuples outside the statement's domain: only the model-vs-code tie is checked on them"""
    n = r.randint(1, 4)
    names = [r.choice(["Foo", "Foo", "Bar", "A/B", "", "$ref", "ServerError", "FooBody", "Body"]) for _ in range(n)]
    ents = []
    for nm in names:
        schema = {"$id": "x", "type": "object", "description": r.choice(["d", ""]),
                  "properties": {"a": r.choice([{"type": "string"}, {"$ref": "#/components/schemas/Bar"}, {"$ref": "#/nowhere"}, {"type": "number", "default": 0.5}]),
                                 "$b": {"type": "integer", "default": r.choice([0, -3, 10 ** 20])}},
                  "required": r.choice([[], ["a"]]), "$defs": {"x": {"$ref": "#/components/schemas/Foo"}}}
        if r.random() < 0.2:
            schema = {}
        ents.append({"name": nm, "model": enc(schema), "route": r.choice(["/a", "/a", "/b", "/a/{id}", "", "/x/{y}/z"]), "id": r.choice(["id", "name", "", "a}b"]),
                     "crud": r.choice(CRUDS + ["", "U", "CRUD", "CX", "RRD", "crd", "DC", "X"])})
    return ents


def gen_parse_case(r):
    n1, n2 = r.choice(["Foo", "FooBar", "ServerError", "Body", "A1"]), r.choice(["Bar", "ServerError", "Foo"])
    kind = r.random()
    if kind < 0.35:
        s = "\nresponses:\n  '%s':\n    description: A `%s` object.\n    content:\n      application/json:\n        schema:\n          $ref: ```%s```\n" % (r.choice(["200", "201"]), n1, n1)
        if r.random() < 0.7:
            s += "  '404':\n    description: A `%s` object.\n    content:\n      application/json:\n        schema:\n          $ref: ```%s```" % (n2, n2)
    elif kind < 0.5:
        s = "\nresponses:\n  '204':" + r.choice(["", "\n  '200': {}", "\n  '200': ''", "\n  '200': 0", "\n  '200': [1]", "\n  '200': x"])
    elif kind < 0.6:
        s = r.choice(["\nresponses: x", "\nresponses:\n", "\nresponses: [1, 2]", "\nfoo: 1", "", "\n- a\n- b", "\njust text", "\nresponses: {}\nsummary: s"])
    elif kind < 0.75:
        s = json.dumps({"responses": {"200": r.choice([None, {}, {"description": "```%s```" % n1}]), "x": r.choice([0, [], "v"])}, "k": "$ref: ```%s```" % n2})
    else:
        s = "".join(r.choice(ENT_ALPHABET + ["responses:", "\n  ", "k: v", "$ref: ```Foo```", "$ref: ```ServerError```"]) for _ in range(r.randint(1, 9)))
    return {"s": s, "method": r.choice(["get", "post", "patch", "delete", "put"]), "summary": r.choice(["Sum", "", "Create `X`"])}


def raw_doc(r, n):
    d = r.choice(RAW_DOCS)
    if d is None:
        return None
    return d.replace("{rb}", r.choice(["{}", "x", "[1]", "{a: 1}", "{$ref: 5}", "{$ref: '#/x/yBody'}", "{$ref: 'noslashBodyBody'}"])).replace("{{}}", "{}").replace("{n}", n)


def gen_raw_case(r):
    used: set = set()
    models = [gen_model(r, used, undocumented_ok=False) for _ in range(r.randint(1, 2))]
    for m in models:
        m["bases"] = ["Base"]  # which classes are models is the subject of the generated-documents stream
    fns = []
    base = r.choice(["/api/x", "/y", "/api/:tenant/x"])
    for _ in range(r.randint(1, 5)):
        fns.append({"app": r.choice(["rest_api", "rest_api", "rest_api", "other"]), "method": r.choice(["get", "post", "delete", "put", "patch"]),
                    "path": r.choice([base, base, base + "/:id", base + "/:id", base + "/:id/sub/:k", base + "/x:y"]),
                    "doc": raw_doc(r, r.choice([m["cls"] for m in models] + ["Other", "My/Thing"]))})
    if r.random() < 0.5:
        fns.sort(key=lambda f: f["path"])
    return {"models": models, "fns": fns}


def run(chk: core.Check) -> int:
    chk.lean(MODULE, THEOREMS)
    chk.trusted_base += [
        "hand-written model lean/CddVerif/Model/OpenApi.lean of components_paths_from_name_model_route_id_crud / emit.openapi / extract_entities / parse.openapi / gen_routes' primary-key choice / openapi_bulk, tied to the code by exact comparison of the produced dicts",
        "yaml.safe_load / json.loads are not modelled: the loader's result for the rewritten text is captured from the real run and handed to the model; `templateLoaded` states it for the three route templates and is exercised on every generated name",
        "the docstring parser and `ast` between a route template and `bottle()` are not modelled: `templatePayload kind name` is compared with bottle(ast.parse(template)) on every generated name",
        "the route functions openapi_bulk sees in a routes file are given by `visibleRoutes` (all upsert batches, in order; the text of the routes file, `to_code` and `ast.parse` are not modelled); tied by comparing the whole bulk document for separate and shared routes files",
        "sqlalchemy parse → json_schema (the model schema) is input data to the Lean model (C05/C06); the theorems assume schemas without `$ref`; the ORACLE does not trust it: an independent stdlib-`ast` reading of the models file gives every model's columns in order and its declared primary key, and every document's schemas / item paths are compared with that reading",
        "`infer` (which ClassDef / Call nodes of the models file are models) is ported as `inferNode`/`discover`; the node features (plain-name base ids, positional-argument count, id of the second argument) come from the independent stdlib reading",
        "`resolves` in the theorems is an RFC 6901 pointer walk without ~0/~1 unescaping and without list indices (names are identifiers); the oracle on real documents uses the full walk",
    ]
    chk.assumptions += [
        "theorem hypotheses = the statement's domain: entity names contain no '/' (and for the explicit bulk document no '`', non-empty), routes no '{' / ':', ids no '}' / '/', crud ⊆ 'CRD', the paths route and route/{id} of different models pairwise distinct, model schemas without $ref",
        "openapi_bulk closure additionally assumes title(tablename.replace('_tbl','',1)) == class name for every model (false in general: known finding C16-bulk-key-title)",
    ]
    rng = chk.rng
    have_driver = core.DRIVER.exists()
    stats = {"dis_emit": 0, "dis_bulk": 0, "dis_oracle": 0}
    # ---- (1) generated documents: models → routes → bulk, and emit ---------------------------------------------
    cases = [gen_case(rng, k) for k in range(800 if chk.quick else 6000)]
    # pinned witnesses of the known findings and of the mock, always included
    cols = [["id", "Integer", "the id", True, None], ["name", "String", "the name", False, None]]
    pinned = [
        {"k": -1, "app": "rest_api", "layout": "separate", "other_app": False, "models": [
            {"cls": "FooBar", "table": "foo_bar", "tkind": "snake", "doc": "A model.", "cols": cols, "pk_kind": "explicit-first", "crud": "CRD", "route": "/api/foo_bar", "prefix": "/api"}]},
        {"k": -2, "app": "rest_api", "layout": "separate", "other_app": False, "models": [
            {"cls": "Foo", "table": "foo", "tkind": "snake", "doc": "A model.", "cols": [["id", "Integer", None, False, None]], "pk_kind": "inferred", "crud": "D", "route": "/api/foo", "prefix": "/api"}]},
        {"k": -3, "app": "rest_api", "layout": "shared", "other_app": False, "models": [
            {"cls": "Foo", "table": "foo", "tkind": "snake", "doc": "A model.", "cols": cols, "pk_kind": "explicit-first", "crud": "RD", "route": "/api/foo", "prefix": "/api"},
            {"cls": "Bar", "table": "bar", "tkind": "snake", "doc": "A model.", "cols": cols, "pk_kind": "explicit-first", "crud": "CR", "route": "/api/bar", "prefix": "/api"}]},
        {"k": -4, "app": "rest_api", "layout": "separate", "other_app": True, "models": [
            {"cls": "Config", "table": "config_tbl", "tkind": "snake_tbl", "doc": "A model.", "cols": cols, "pk_kind": "explicit-first", "crud": "CRD", "route": "/api/config", "prefix": "/api"},
            {"cls": "BodyPart", "table": "bodypart", "tkind": "lower", "doc": "A model.", "cols": cols, "pk_kind": "explicit-first", "crud": "CD", "route": "/api/body_part", "prefix": "/api"}]},
    ]
    pinned.append({"k": -5, "app": "rest_api", "layout": "separate", "other_app": False, "models": [
        {"cls": "Foo", "table": "foos", "tkind": "other", "doc": "Plural table.", "cols": cols, "pk_kind": "explicit-first", "crud": "CR", "route": "/api/foos", "prefix": "/api"},
        {"cls": "foo", "table": "foo", "tkind": "same", "doc": "Lower-case class.", "cols": [["slug", "String", "the slug", True, None]], "pk_kind": "explicit-first", "crud": "CD", "route": "/foo", "prefix": ""}]})
    # fixed corners after the round-4 seeded misses: `_id` primary key that is not the first column; mixin before `Base` next to a plain model;
    # Table-form next to class-form; every unusual column name as primary key in the last position
    pinned.append({"k": -6, "app": "rest_api", "layout": "separate", "other_app": False, "models": [
        {"cls": "Document", "table": "document", "tkind": "snake", "doc": "A stored document", "pk_kind": "explicit-middle", "crud": "CRD", "route": "/api/document", "prefix": "/api",
         "cols": [["title", "String", "title of the document", False, False], ["_id", "String", "identifier of the document", True, None], ["pages", "Integer", "number of pages", False, None]]}]})
    pinned.append({"k": -7, "app": "rest_api", "layout": "separate", "other_app": False, "bystanders": True, "models": [
        {"cls": "Customer", "table": "customer", "tkind": "snake", "doc": "A customer", "cols": cols, "pk_kind": "explicit-first", "crud": "CRD", "route": "/api/customer", "prefix": "/api", "bases": ["Base"]},
        {"cls": "Invoice", "table": "invoice", "tkind": "snake", "doc": "An invoice", "cols": cols, "pk_kind": "explicit-first", "crud": "CRD", "route": "/api/invoice", "prefix": "/api",
         "bases": ["AuditMixin", "Base"]},
        {"cls": "Payment", "table": "payment", "tkind": "snake", "doc": "A payment", "cols": cols, "pk_kind": "explicit-first", "crud": "CR", "route": "/api/payment", "prefix": "/api",
         "bases": ["mixins.Audit", "TimestampMixin", "Base"]}]})
    pinned.append({"k": -8, "app": "rest_api", "layout": "shared", "other_app": False, "models": [
        {"cls": "Order", "table": "order", "tkind": "snake", "doc": "An order", "cols": cols, "pk_kind": "explicit-first", "crud": "CRD", "route": "/api/order", "prefix": "/api", "bases": ["Base", "AuditMixin"]},
        {"cls": "Audit", "table": "audit_tbl", "tkind": "snake_tbl", "doc": "Audit trail", "form": "table", "pk_kind": "explicit-last", "crud": "R", "route": "/api/audit", "prefix": "/api",
         "cols": [["what", "String", "what happened", False, None], ["_seq", "Integer", "sequence number", True, None]]},
        {"cls": "Line", "table": "line", "tkind": "snake", "doc": "An order line", "pk_kind": "explicit-last", "crud": "CD", "route": "/api/line", "prefix": "/api",
         "cols": [["qty", "Integer", "quantity", False, None], ["__secret", "String", None, False, None], ["n\u00famero", "Integer", "line number", True, None]]}]})
    # fixed corners after the round-7 seeded misses: a route that is a string prefix of an earlier model's route (both orders), in one routes file;
    # a second Bottle app whose routes live in the same file
    for k_, (first, second) in enumerate(((("UserGroup", "usergroup"), ("User", "user")), (("User", "user"), ("UserGroup", "usergroup")))):
        for layout in ("shared", "separate"):
            pinned.append({"k": -9 - k_ * 2 - (layout == "separate"), "app": "rest_api", "layout": layout, "other_app": layout == "shared", "models": [
                {"cls": c_, "table": t_, "tkind": "lower", "doc": "A %s." % c_, "cols": [["email", "String", "the email", True, None], ["n", "Integer", "a count", False, None]],
                 "pk_kind": "explicit-first", "crud": "CRD", "route": "/api/" + t_, "prefix": "/api"} for c_, t_ in (first, second)]})
    for i, odd in enumerate(COLNAMES_ODD):
        pinned.append({"k": -100 - i, "app": "app", "layout": "separate", "other_app": False, "models": [
            {"cls": "Thing", "table": "thing", "tkind": "snake", "doc": "A thing", "pk_kind": "explicit-last", "crud": "CRD", "route": "/things", "prefix": "",
             "cols": [["label", "String", "a label", False, None], [odd, "Integer", "the key", True, None]]}]})
    cases = [norm_case(c) for c in pinned] + cases
    impl = core.pmap(impl_case, cases, chunksize=8)
    reqs = []
    for case, res in zip(cases, impl):
        reqs.append(emit_request(entries_of(case, res)))
        reqs.append(bulk_request(case, res) if "files" in res else {"op": "c16.bulk_key", "table": ""})
    model = core.model_batch(reqs) if have_driver else None
    cov: dict = {"n_models": {}, "crud": {}, "name_kind": {}, "table_kind": {}, "pk_kind": {}, "layout": {}, "prefix": {}, "key_eq_name": {}, "multi_create_docs": 0, "other_app_docs": 0,
                 "form": {}, "bases": {}, "pk_column_name": {}, "column_name": {}, "bystander_docs": 0}
    for k, (case, res) in enumerate(zip(cases, impl)):
        ms = case["models"]
        cov["n_models"][len(ms)] = cov["n_models"].get(len(ms), 0) + 1
        cov["layout"][case["layout"]] = cov["layout"].get(case["layout"], 0) + 1
        cov["multi_create_docs"] += sum("C" in m["crud"] for m in ms) >= 2
        cov["other_app_docs"] += bool(case["other_app"])
        cov["bystander_docs"] += bool(case.get("bystanders"))
        for m in ms:
            for c in m["cols"]:
                ck = ("non-ascii" if not c[0].isascii() else "leading-underscore" if c[0].startswith("_") else "trailing-underscore" if c[0].endswith("_") else
                      "python/sqlalchemy name" if c[0] in ("id", "type", "metadata", "Column", "Base") else "upper/digit" if c[0] != c[0].lower() or any(ch.isdigit() for ch in c[0]) else "plain")
                cov["column_name"][ck] = cov["column_name"].get(ck, 0) + 1
                if c[3]:
                    cov["pk_column_name"][ck] = cov["pk_column_name"].get(ck, 0) + 1
            cov["form"][m["form"]] = cov["form"].get(m["form"], 0) + 1
            if m["form"] == "class":
                bk = "Base" if m["bases"] == ["Base"] else ("mixin-before-Base" if m["bases"][-1] == "Base" else "mixin-after-Base") + ("+dotted" if any("." in b for b in m["bases"]) else "")
                cov["bases"][bk] = cov["bases"].get(bk, 0) + 1
            nk = "body-ish" if m["cls"] in BODYISH else "multi-word" if m["cls"] in MULTI else "single" if m["cls"] in SINGLE else "odd"
            for key, v in (("crud", "".join(sorted(m["crud"]))), ("name_kind", nk), ("table_kind", m["tkind"]), ("pk_kind", m["pk_kind"]), ("prefix", m["prefix"] or "(none)"),
                           ("key_eq_name", str(title_key(m["table"]) == m["cls"]))):
                cov[key][v] = cov[key].get(v, 0) + 1
        chk.count(("doc", json.dumps(case, sort_keys=True)), len(ms) >= 2 or len(ms[0]["crud"]) >= 2 or ms[0]["cls"] not in SINGLE)
        if 4 <= k < 6:
            chk.sample({"models": [(m["cls"], m["table"], m["crud"], m["route"]) for m in ms], "layout": case["layout"],
                        "bulk_paths": sorted(dec(res["bulk"])["paths"]) if "bulk" in res else res.get("bulk_error")})
        check_case(chk, case, res, model[2 * k + 1] if model else None, model[2 * k] if model else None, stats)
    chk.coverage.update(cov)
    n = len(cases)
    chk.oblige("correspondence: OpenApi.openapi = emit.openapi on %d generated documents (whole dict)" % n, "correspondence", have_driver and stats["dis_emit"] == 0, "%d disagreements" % stats["dis_emit"])
    chk.oblige("correspondence: OpenApi.bulk ∘ genRoutes ∘ visibleRoutes = openapi_bulk ∘ upsert_routes ∘ gen_routes on %d generated documents (whole dict / exception class)" % n,
               "correspondence", have_driver and stats["dis_bulk"] == 0, "%d disagreements" % stats["dis_bulk"])
    # ---- (2) primary key choice ---------------------------------------------------------------------------------
    pk_cases = [(m["cls"], info) for case, res in zip(cases, impl) for m, info in zip(case["models"], res["models"]) if "params" in info and not info.get("no_routes")]
    pk_model = core.model_batch([{"op": "c16.pk", "params": info["params"]} for _, info in pk_cases]) if have_driver else []
    dis = 0
    for (cls, info), mres in zip(pk_cases, pk_model):
        want = {"pk": info["pk"]} if "pk" in info else {"raises": info["pk_error"][7:]}
        chk.count(("pk", json.dumps(info["params"])), len(info["params"]) > 1)
        if mres != want:
            dis += 1
            chk.disagreement("C16 correspondence: OpenApi.pickPk vs gen_routes primary key", info["params"], want, mres)
    chk.oblige("correspondence: OpenApi.pickPk = primary key chosen by gen_routes on %d models" % len(pk_cases), "correspondence", have_driver and dis == 0, "%d disagreements" % dis)
    # ---- (3) templates: bottle(template) = templatePayload = payloadViaParse ---------------------------------------
    names = sorted({m["cls"] for c in cases for m in c["models"]} | set(SINGLE + MULTI + BODYISH + ODD))
    pcases = [{"kind": k, "name": nm, "app": rng.choice(APPS), "route": rng.choice(PREFIXES) + "/" + snake(nm), "id": rng.choice(COLNAMES)} for nm in names for k in ("create", "read", "destroy")]
    pimpl = core.pmap(impl_payload, pcases, chunksize=16)
    pmodel = core.model_batch([{"op": "c16.payload", "kind": c["kind"], "name": c["name"]} for c in pcases]) if have_driver else []
    dis = 0
    for c, r, m in zip(pcases, pimpl, pmodel):
        chk.count(("payload", c["kind"], c["name"]), True)
        want_path = c["route"] + ("" if c["kind"] == "create" else "/:" + c["id"])
        ok = ("payload" in r and m.get("direct") == r["payload"] and m.get("via") == r["payload"] and m.get("yaml") == r["yaml"] and m.get("summary") == r["summary"]
              and r["route"] == want_path and r["app"] == c["app"] and r["method"] == {"create": "post", "read": "get", "destroy": "delete"}[c["kind"]])
        if not ok:
            dis += 1
            chk.disagreement("C16 correspondence: templatePayload / payloadViaParse / templateYaml vs bottle(template)", c, r, m)
    chk.oblige("correspondence: templatePayload = payloadViaParse = bottle(ast of template), templateYaml/Summary = arguments of parse.openapi, decorator path/method/app as in genRoutes, on %d (kind, name)" % len(pcases),
               "correspondence", have_driver and dis == 0, "%d disagreements" % dis)
    # ---- (4) extract_entities, character level ------------------------------------------------------------------
    strings = set()
    for nlen in range(0, 4 if chk.quick else 5):
        for t in itertools.product(ENT_ALPHABET, repeat=nlen):
            strings.add("".join(t))
    for _ in range(3000 if chk.quick else 60000):
        strings.add("".join(rng.choice(ENT_ALPHABET) for _ in range(rng.randint(4, 14))))
    strings |= {r["yaml"] for r in pimpl if "yaml" in r}
    strings = sorted(strings)
    eimpl = core.pmap(impl_entities, strings, chunksize=2048)
    emodel = core.model_batch([{"op": "c16.entities", "s": s} for s in strings]) if have_driver else []
    dis = 0
    for s, a, b in zip(strings, eimpl, emodel):
        chk.count(("ent", s), len(a) >= 1 if isinstance(a, list) else False)
        if b.get("entities") != a:
            dis += 1
            chk.disagreement("C16 correspondence: extractEntities vs extract_entities", s, a, b)
    chk.oblige("correspondence: OpenApi.extractEntities = extract_entities on %d strings (exhaustive token sequences + random)" % len(strings), "correspondence", have_driver and dis == 0, "%d disagreements" % dis)
    # ---- (5) parse.openapi with the loader's result supplied --------------------------------------------------------
    qcases = [gen_parse_case(rng) for _ in range(3000 if chk.quick else 30000)]
    qimpl = core.pmap(impl_parse, qcases, chunksize=256)
    idx = [i for i, r in enumerate(qimpl) if "loaded" in r and "unencodable" not in json.dumps(r["loaded"])]
    qmodel = core.model_batch([{"op": "c16.parse", "s": qcases[i]["s"], "loaded": qimpl[i]["loaded"], "method": qcases[i]["method"], "summary": qcases[i]["summary"]} for i in idx]) if have_driver else []
    dis = 0
    kinds: dict = {}
    for i, m in zip(idx, qmodel):
        c, r = qcases[i], qimpl[i]
        want = r["result"] if "result" in r else {"raises": r["error"][7:]}
        kinds["ok" if "result" in r else r["error"]] = kinds.get("ok" if "result" in r else r["error"], 0) + 1
        chk.count(("parse", json.dumps(c, sort_keys=True)), "```" in c["s"])
        if m.get("replaced") != r["arg"] or m.get("result") != want:
            dis += 1
            chk.disagreement("C16 correspondence: parseOpenapi vs parse.openapi", c, {"arg": r["arg"], "result": want}, m)
    kinds["loader-raised (not compared)"] = len(qcases) - len(idx)
    chk.coverage["parse_outcomes"] = kinds
    chk.oblige("correspondence: OpenApi.parseOpenapi = parse.openapi (rewritten text handed to the loader, result dict / exception class) on %d inputs" % len(idx), "correspondence", have_driver and dis == 0, "%d disagreements" % dis)
    # ---- (6) malformed stream for emit.openapi: tie only ------------------------------------------------------------
    mcases = [gen_malformed_emit(rng) for _ in range(3000 if chk.quick else 30000)]
    mimpl = core.pmap(impl_emit, mcases, chunksize=256)
    mmodel = core.model_batch([{"op": "c16.emit", "entries": es} for es in mcases]) if have_driver else []
    dis = 0
    for es, r, m in zip(mcases, mimpl, mmodel):
        chk.count(("memit", json.dumps(es, sort_keys=True)), len(es) > 1)
        if "doc" not in r or m.get("doc") is None or dec(m["doc"]) != dec(r["doc"]):
            dis += 1
            chk.disagreement("C16 correspondence: OpenApi.openapi vs emit.openapi (malformed stream)", es, r, m.get("doc", m))
            continue
        doc = dec(r["doc"])
        verdict = (not [1 for _, ref in all_refs(doc) if isinstance(ref, str) and not resolves(doc, ref)], sorted(doc_ops(doc)))
        plain = all("/" not in e["name"] and "~" not in e["name"] for e in es)
        if plain and (m["closed"], sorted(map(tuple, m["ops"]))) != verdict:
            stats["dis_oracle"] += 1
            chk.disagreement("C16 oracle agreement (closed / ops) on malformed emit documents", es, verdict, [m["closed"], m["ops"]])
    chk.oblige("correspondence: OpenApi.openapi = emit.openapi on %d malformed tuple lists (odd cruds, clashing names/routes, `$ref`s in schemas)" % len(mcases), "correspondence", have_driver and dis == 0, "%d disagreements" % dis)
    # ---- (7) hand-written route functions through openapi_bulk: tie only ---------------------------------------------
    rcases = [gen_raw_case(rng) for _ in range(400 if chk.quick else 4000)]
    rimpl = core.pmap(impl_raw, rcases, chunksize=8)
    ridx = [i for i, r in enumerate(rimpl) if "bottle_error" not in r]
    rmodel = core.model_batch([{"op": "c16.bulk_raw", "app": "rest_api", "tables": rimpl[i]["tables"], "routes": rimpl[i]["routes"]} for i in ridx]) if have_driver else []
    dis = 0
    rk: dict = {}
    for i, m in zip(ridx, rmodel):
        r = rimpl[i]
        key = "ok" if "bulk" in r else r["bulk_error"]
        rk[key] = rk.get(key, 0) + 1
        chk.count(("raw", json.dumps(rcases[i], sort_keys=True)), len(rcases[i]["fns"]) > 1)
        good = (dec(m["doc"]) == dec(r["bulk"])) if ("bulk" in r and "doc" in m) else ("bulk_error" in r and m.get("raises") == r["bulk_error"][7:])
        if not good:
            dis += 1
            chk.disagreement("C16 correspondence: OpenApi.bulk vs openapi_bulk (hand-written route functions)", rcases[i], r.get("bulk", r.get("bulk_error")), m.get("doc", m))
    chk.coverage["raw_bulk_outcomes"] = rk
    chk.oblige("correspondence: OpenApi.bulk = openapi_bulk on %d files of hand-written route functions (whole dict / exception class)" % len(ridx), "correspondence", have_driver and dis == 0, "%d disagreements" % dis)
    chk.oblige("oracle agreement: Lean closedB/allOps = the Python oracle's verdict on every compared document", "correspondence", have_driver and stats["dis_oracle"] == 0, "%d disagreements" % stats["dis_oracle"])
    return chk.finish("documents: 1-3 generated SQLAlchemy models (single / multi-word / 'Body'-containing / odd names, 8 table-name conventions, explicit or inferred PK, 1-6 columns) x 7 CRUD subsets x 5 route prefixes x 3 app names, "
                      "routes files separate or shared; real gen_routes → upsert_routes → openapi_bulk and emit.openapi compared with the model dict for dict; oracle: JSON round trip, every $ref resolves, request bodies defined, "
                      "template params declared, operations = requested, bulk paths/requestBodies = emit's; non-trivial = >=2 models or >=2 CRUD letters or a non-single-word name")


def replay(path: str) -> int:
    blob = json.loads(Path(path).read_text())
    if "replay" not in blob or not blob["replay"]:
        print("replay: %s holds no failing input (kind=%s): %s" % (path, blob.get("kind"), [b["name"] for b in blob.get("no_longer_checks", [])][:5]))
        return 2
    d = blob["replay"]
    core.repo_on_path()
    case = norm_case(d["case"])
    res = impl_case(case)
    chk = core.Check("C16", "quick", 0)
    check_case(chk, case, res, None, None, {"dis_emit": 0, "dis_bulk": 0, "dis_oracle": 0})
    for v in chk.violations:
        print("replay: VIOLATION", v["sig"], v["what"])
    for k, v in chk.known_seen.items():
        print("replay: known finding", k, v["count"])
    if not chk.violations:
        print("replay: property holds (apart from known findings)")
    return 1 if chk.violations else 0
