"""C01 — docstring <-> interface round-trip in ReST, Google and NumPy styles (DESIGN.md §4 C01)."""
from __future__ import annotations

import copy
from collections import OrderedDict
import json
import re
from pathlib import Path

from harness import core
from harness.gen import ir as G
from harness.impl import docir

MODULE = "CddVerif.Properties.C01All"  # aggregator: imports Properties.C01 (value level), C01Whole (ReST) and C01Google (Google)
GOOGLE = ["google_roundtrip_full", "google_roundtrip_names", "google_roundtrip_docs", "google_roundtrip_header", "google_roundtrip_types_defaults", "google_roundtrip_plain",
          "latch_gives_default", "return_entry_changes_header", "docless_needed", "or_type_needed", "brace_doc_needed", "header_args_needed", "paren_name_needed",
          "adhoc_needed", "grammar_needed"]
WHOLE = ["rest_roundtrip_full", "rest_roundtrip_names", "rest_roundtrip_docs", "rest_roundtrip_docs_same", "rest_roundtrip_defaults", "rest_roundtrip_types",
         "rest_roundtrip_types_same", "rest_roundtrip_header", "rest_roundtrip_returns", "rest_roundtrip_exact", "C01_full_false",
         "dup_names_needed", "return_type_name_needed", "optional_doc_needed", "optional_suffix_needed", "compat_needed", "announce_needed",
         "paren_announce_needed", "defaults_word_needed", "trailing_blank_needed", "header_blank_needed", "two_line_doc_needed", "token_in_doc_needed",
         "colon_in_name_needed", "kwargs_name_needed", "docless_needed", "type_shape_needed"]
NUMPY = ["numpy_roundtrip_full", "numpy_roundtrip_names", "numpy_roundtrip_docs", "numpy_roundtrip_header", "numpy_roundtrip_types_defaults", "numpy_roundtrip_plain",
         "latch_gives_default_numpy", "no_types_names_lost", "untyped_needed", "return_without_doc_raises", "returns_word_needed", "type_blank_needed"]
GRET = ["return_survives_with_params", "return_latch_default", "return_doc_gets_type_prefix", "decimals_roundtrip_observed"]
THEOREMS = ["C01Whole." + t for t in WHOLE] + ["C01Google." + t for t in GOOGLE] + ["C01Numpy." + t for t in NUMPY] + ["C01GoogleReturn." + t for t in GRET] + [
    "C01.extract_nat_roundtrip", "C01.extract_neg_roundtrip", "C01.extract_bool_roundtrip", "C01.setDefaultDoc_int",
    "C01.setDefaultDoc_extract_int", "C01.emit_no_default_when_stripped", "C01.quote_unquote", "C01.unquote_quote_idem",
    "C01.locate_emitted", "C01.hasParenAnnounce_false", "C01.extract_str_roundtrip", "C01.quote_good", "C01.parse_quoted_text", "C01.extract_float_roundtrip", "C01.parse_float_text", "C01.takeDefault_float",
]
STYLES = ("rest", "google", "numpydoc")


# --------------------------------------------------------------------------------------------------------------
# generator: the docstring-representable domain D01
# --------------------------------------------------------------------------------------------------------------
PUNCT_DOCS = ["the key: value pairs kept as they are", "first, second and third axis", "width; height comes next", "rows - columns are inferred",
              "scale (in pixels) of the image", "the 'quoted' label text", "ratio a/b of the sides", "see http://host/x for details", "weights, biases, and so on",
              "step size, i.e. the increment", "one of: fast, slow", "name -> index mapping", "x = y + z at most"]
# descriptions that use the word "default" without announcing one
DEFAULT_WORD_DOCS = ["the default font size", "used when no default is configured", "Default zoom factor", "overrides the site-wide default", "a non-default port"]
# descriptions that mention, as prose, the section keywords of the docstring styles
KEYWORD_DOCS = ["on failure it e.g. Raises: nothing", "what the function Returns: see below", "all of the Args: are checked", "the Parameters of the model", "the role :param is not used here",
                "extra Kwargs: none"]


def gen_case(r):
    ir = G.gen_ir(r, nparams=r.randint(0, 5), with_doc=True)
    # more default shapes: negative numbers, code-quoted expressions, strings that look like numbers
    for n, p in ir["params"].items():
        k = r.random()
        if "default" in p:
            if k < 0.12 and isinstance(p["default"], int) and not isinstance(p["default"], bool):
                p["default"] = -abs(p["default"]) - 1
            elif k < 0.2 and isinstance(p["default"], float):
                p["default"] = r.choice([-abs(p["default"]), 1e+20, 2.5e+16, 1e-10, 123456789.125])  # negative; repr with exponent (e+20, e-10); many digits
            elif k < 0.26:
                p["typ"] = r.choice(["Union[int, str]", "List[str]", "Optional[Union[float, str]]"])
                p["default"] = r.choice(["-7", "0.5", "10", "True", "hello", "'lead and trail\"", "\"a'", "it's"])  # incl. values that begin with one quote character and end with the other
            elif k < 0.30 and p.get("typ") in ("str", "Optional[str]"):
                # string defaults that contain, begin or end with quote characters (of the same or of different kinds)
                p["default"] = r.choice(["it's", 'say "hi"', "'a' or \"b\"", "\"x\" then 'y'", "'single'", '"double"', "'"])
            elif k < 0.36:
                p["typ"] = r.choice(["Callable", "np.ndarray", "Optional[int]"])
                p["default"] = "```%s```" % r.choice(["np.zeros(3)", "lambda x: x", "(1, 2)"])
    # a return entry may carry a default of its own (any type, strings under Union / Optional / Literal types included)
    if ir.get("returns") and r.random() < 0.35:
        rt = ir["returns"]["return_type"]
        d = G.gen_default(r, rt["typ"], True)
        if d is None and rt["typ"].startswith(("Union[", "List[")):
            d = r.choice(["ok", "done"])
        if d is not None:
            rt["default"] = d
    # descriptions with the punctuation the scanners split on (colon, comma, semicolon, dash, parentheses, quotes, slash)
    for n, p in list(ir["params"].items()) + (list(ir["returns"].items()) if ir.get("returns") else []):
        if r.random() < 0.15 and "doc" in p:
            p["doc"] = r.choice(PUNCT_DOCS)
        elif r.random() < 0.04 and "doc" in p:
            p["doc"] = r.choice(KEYWORD_DOCS)
        elif r.random() < 0.06 and "doc" in p:
            p["doc"] = r.choice(DEFAULT_WORD_DOCS)
    # parameters / return entries without a description (type only)
    for n, p in list(ir["params"].items()) + (list(ir["returns"].items()) if ir.get("returns") else []):
        if r.random() < 0.12 and p.get("typ"):
            p.pop("doc", None)
    # long descriptions (60..110 characters): with word_wrap=True the emitter wraps the line, possibly inside the default prose
    words = ["value", "used", "for", "the", "training", "loop", "when", "running", "on", "several", "devices", "at", "once", "and", "so", "on"]
    for n, p in ir["params"].items():
        if r.random() < 0.2 and "doc" in p:
            target = r.randint(60, 110)
            d = "Long"
            while len(d) < target:
                d += " " + r.choice(words)
            p["doc"] = d[:target].rstrip()
    # string defaults that are SPELLED like a type word (the default is a value, not a type hint), under str / Literal types
    for n, p in ir["params"].items():
        if "default" in p and r.random() < 0.08:  # (only where there is a default already: defaults stay a suffix of the parameter list)
            w = r.choice(["float", "list", "str", "int", "bool", "dict", "tuple"])
            p["typ"], p["default"] = r.choice([("str", w), ("Literal['%s', 'other']" % w, w), ("Optional[str]", w)])
    # identifiers need not be ASCII
    if ir["params"] and r.random() < 0.05:
        from collections import OrderedDict as _OD

        old_name = r.choice(list(ir["params"]))
        new_name = r.choice(["données", "größe_2", "α", "naïve_count", "名前"])
        if new_name not in ir["params"]:
            ir["params"] = _OD((new_name if k == old_name else k, v) for k, v in ir["params"].items())
    return ir


def norm_doc(s):
    """descriptions are compared up to whitespace and a terminal full stop, with the default prose removed"""
    if s is None:
        return ""
    s = re.sub(r"\s*\.?\s*Defaults? to .*$", "", s, flags=re.S)
    s = " ".join(s.split())
    return s[:-1] if s.endswith(".") else s


def kind_of(tag):
    return "absent" if tag is None else tag[0]


def expected_default(tag, typ):
    """what the statement promises: the same value with the same Python type"""
    return tag


def impl_roundtrip(case):
    """real emit → real parse, for one (ir, style, emit_types, word_wrap, edd_emit, edd_parse)"""
    import cdd.class_.parse  # noqa: F401
    import cdd.docstring.emit as E
    import cdd.docstring.parse as P

    ir, style, et, ww, edd_e, edd_p = case
    try:
        ds = E.docstring(copy.deepcopy(ir), docstring_format=style, emit_types=et, word_wrap=ww, emit_default_doc=edd_e)
    except Exception as e:  # noqa
        return {"emit": core.exc_name(e)}
    out = {"ds": ds}
    try:
        out["view"] = docir.ir_view(P.docstring(ds, emit_default_doc=edd_p))
    except Exception as e:  # noqa
        out["parse"] = core.exc_name(e)
    return out


def compare(chk, case, r):
    """the property's oracle on one real round trip; every difference becomes a signed failure
    (signature = style x entry kind x field x kind of difference — one root cause, one signature)"""
    ir, style, et, ww, edd_e, edd_p = case
    rp = {"fn": "roundtrip", "ir": docir.ir_to_model(ir), "style": style, "emit_types": et, "word_wrap": ww, "edd_emit": edd_e, "edd_parse": edd_p}
    src = docir.ir_view(ir)
    kinds = {kind_of(a["default"]) for _, a in src["params"]} | ({kind_of(src["returns"]["default"])} if src["returns"] else set())
    docless = any(not a["doc"] for _, a in src["params"]) or bool(src["returns"] and not src["returns"]["doc"])
    # an entry with neither a description nor an emitted type leaves no trace in a ReST / NumPy docstring: nothing can bring it back
    if style != "google":
        src = dict(src)
        src["params"] = [(n, a) for n, a in src["params"] if a["doc"] or (et and a["typ"])]
    if "emit" in r:
        chk.failure({"kind": "emit-raises", "style": style, "exc": r["emit"]}, "docstring emit raises %s" % r["emit"], rp)
        return
    # root-cause marker: a string default that contains a quote character (the emitter's `quote` wraps without escaping);
    # it is attached to every signature of the case, because the damaged line changes how the following entries are read
    #   "wrapped": some default begins and ends with the same quote character (`quote` leaves it alone, `unquote` strips it: lost in every style);
    #   "double":  some default contains a double quote (the emitted "..." is handed to literal_eval / ast.parse where the type is str: SyntaxError);
    #   "single":  single quotes only - these survive on the unchanged code, so no finding carries this value
    def _qcls(d):
        if d is None or d[0] != "str" or not ("'" in d[1] or '"' in d[1]):
            return None
        v = d[1]
        if len(v) > 1 and v[0] == v[-1] and v[0] in "'\"":
            return "wrapped"
        return "double" if '"' in v else "single"
    _qs = {_qcls(a["default"]) for _, a in src["params"]} | ({_qcls(src["returns"]["default"])} if src["returns"] else set())
    quote_default = "wrapped" if "wrapped" in _qs else ("double" if "double" in _qs else ("single" if "single" in _qs else None))
    # second case-level marker: NumPy style with word wrap and a description long enough to be wrapped — the continuation line is read as a
    # new entry (finding C01-numpydoc-wrapped-names); when the wrapped word equals a real parameter's name that parameter is overwritten instead
    np_wrap = bool(style == "numpydoc" and ww and any(a["doc"] and len(a["doc"]) >= 60 for _, a in src["params"]))
    if np_wrap:
        class _MarkedW:
            def __init__(self, inner):
                self.inner = inner

            def failure(self, sig, what, replay):
                return self.inner.failure({**sig, "numpydoc_wrapped_case": True}, what, replay)

            def __getattr__(self, k):
                return getattr(self.inner, k)
        chk = _MarkedW(chk)
    kw_doc = next((k for k in ("Raises:", "Returns:", "Args:", "Kwargs:", "Parameters", ":param") for _, a in (list(src["params"]) + ([("r", src["returns"])] if src["returns"] else []))
                   if a["doc"] and k in a["doc"]), None)
    if kw_doc:
        class _MarkedK:
            def __init__(self, inner):
                self.inner = inner

            def failure(self, sig, what, replay):
                return self.inner.failure({**sig, "keyword_in_doc": kw_doc}, what, replay)

            def __getattr__(self, k):
                return getattr(self.inner, k)
        chk = _MarkedK(chk)
    if quote_default:
        class _Marked:
            def __init__(self, inner):
                self.inner = inner

            def failure(self, sig, what, replay):
                return self.inner.failure({**sig, "quote_in_str_default": quote_default}, what, replay)

            def __getattr__(self, k):
                return getattr(self.inner, k)
        chk = _Marked(chk)
    # root-cause marker: Google reduces a Union return type to its last member (finding C01-google-return-typ); a default carried by that
    # return entry is then re-read under the member type
    g_ret_union = bool(style == "google" and src["returns"] and (src["returns"]["typ"] or "").startswith("Union[") and src["returns"]["default"] is not None)
    if "parse" in r:
        wrapped = bool(ww and any(a["doc"] and len(a["doc"]) >= 60 for _, a in src["params"]))
        chk.failure({"kind": "parse-raises", "style": style, "emit_types": et, "exc": r["parse"], "has_none": "none" in kinds, "has_code": "code" in kinds, "docless": docless, "wrapped": wrapped,
                     **({"quote_in_str_default": quote_default} if quote_default else {}), **({"google_return_union_default": True} if g_ret_union else {})},
                    "parsing the emitted docstring raises %s" % r["parse"], rp)
        return
    v = r["view"]
    names = [n for n, _ in src["params"]]
    got_names = [n for n, _ in v["params"]]
    if names != got_names:
        wrapped = bool(ww and any(a["doc"] and len(a["doc"]) >= 60 for _, a in src["params"]))
        chk.failure({"kind": "names", "style": style, "emit_types": et, "wrapped": wrapped, "docless": docless}, "parameter names/order %s -> %s" % (names, got_names), rp)
        return
    entries = [(n, a, b) for (n, a), (_, b) in zip(src["params"], v["params"])]
    empty = {"typ": None, "doc": None, "default": None}
    if src["returns"] is not None or v["returns"] is not None:
        entries.append(("return_type", src["returns"] or empty, v["returns"] or empty))
    any_default = any(a["default"] is not None for _, a in src["params"])
    for n, a, b in entries:
        ent = "return" if n == "return_type" else "param"
        if norm_doc(a["doc"]) != norm_doc(b["doc"]):
            sig = {"kind": "doc", "style": style, "entry": ent, "default": kind_of(a["default"])}
            if ww and a["doc"] and len(a["doc"]) >= 60:
                sig["wrapped"] = True
            chk.failure(sig, "%s: description %r -> %r" % (n, a["doc"], b["doc"]), rp)
        if (et or style == "google") and a["typ"] != b["typ"] and (a["typ"] or b["typ"]):
            sig = {"kind": "typ", "style": style, "entry": ent}
            if ent == "param":
                sig.update({"from": classify_typ(a["typ"]), "to": classify_typ(b["typ"]), "default": kind_of(a["default"])})
            chk.failure(sig, "%s: type %r -> %r" % (n, a["typ"], b["typ"]), rp)
        carried = bool(edd_e and a["doc"])  # the default travels in the prose of the description
        exp = a["default"] if carried else None
        if exp != b["default"]:
            sig = {"kind": "default", "style": style, "entry": ent, "from": kind_of(exp), "to": kind_of(b["default"]), "carried": carried, "has_doc": bool(a["doc"])}
            if quote_default:
                sig["quote_in_str_default"] = quote_default
            if ww and a["doc"] and len(a["doc"]) >= 60:
                sig["wrapped"] = True
            if ent == "return":
                sig["any_param_default"] = any_default
                if g_ret_union:
                    sig["google_return_union_default"] = True
            chk.failure(sig, "%s: default %r -> %r (type %r)" % (n, exp, b["default"], a["typ"]), rp)


def classify_typ(t):
    if t is None:
        return "absent"
    if t in ("int", "float", "str", "bool", "complex"):
        return "scalar"
    for p in ("Optional[", "Literal[", "List[", "Union["):
        if t.startswith(p):
            return p[:-1]
    return "dotted" if "." in t else "other"


# --------------------------------------------------------------------------------------------------------------
# the whole-docstring theorem (Properties/C01Whole.lean) against the real code
# --------------------------------------------------------------------------------------------------------------
W_WORDS = ["alpha", "size", "of", "the", "batch", "used", "here", "(see", "notes)", "step:", "two", "passes", "over", "data", "kept", "as", "is", "x", "weight", "for",
           "each", "layer", "ratio", "a/b", "first", "axis", "mode", "flag", "seed", "scale", "mean", "tolerance,", "path", "prefix."]
W_TYPES = [None, "int", "float", "bool", "str", "np.ndarray", "Optional[int]", "List[int]", "Dict[str, int]", "Callable[[int], int]", "Tuple[int, ...]", "tf.data.Dataset"]
W_NAMES = ["a", "b", "lr", "batch_size", "x1", "K", "n_items", "as_numpy", "verbose", "seed", "data_loader_fn", "_private"]


def gen_whole(r):
    """interfaces aimed at C01Whole.InDomain (the driver decides membership; this only has to hit it often)"""
    def desc():
        d = " ".join(r.choice(W_WORDS) for _ in range(r.randint(1, 7)))
        return d.strip()

    def entry(ret=False):
        p = {"doc": desc()}
        t = r.choice(W_TYPES)
        if t:
            p["typ"] = t
        k = r.random()
        if k < 0.5:
            base = (t or "").replace("Optional[", "").rstrip("]") if t in ("int", "float", "bool", "Optional[int]") else None
            if t is None or base is None and t not in ("str",):
                p["default"] = r.choice([r.randint(-50, 500), r.random() < 0.5, float(r.choice(["0.5", "2.25", "10.0", "0.001"]))])
            elif base == "int":
                p["default"] = r.randint(-50, 500)
            elif base == "float":
                p["default"] = float(r.choice(["0.5", "2.25", "10.0", "0.001"]))
            elif base == "bool":
                p["default"] = r.random() < 0.5
        return p

    names = r.sample(W_NAMES, r.randint(0, 5))
    header = r.choice(["", "Summary line.", "Summary line.\n\nSecond paragraph: with a colon (and parentheses).", "One\nTwo\nThree"])
    ir = {"name": "F", "doc": header, "type": "static", "params": OrderedDict((n, entry()) for n in names), "returns": None}
    if r.random() < 0.5:
        rt = entry(True)
        ir["returns"] = OrderedDict([("return_type", rt)])
    return ir


def impl_whole(case):
    import cdd.class_.parse  # noqa: F401
    import cdd.docstring.emit as E
    import cdd.docstring.parse as P
    from cdd.docstring.utils.parse_utils import parse_adhoc_doc_for_typ

    ir, et, ww, edd = case
    # the model does not run the prose type inference (parse_adhoc_doc_for_typ): such descriptions are outside the tie
    for n, p in list(ir["params"].items()) + (list(ir["returns"].items()) if ir.get("returns") else []):
        for none_like in (False, True):
            try:
                if parse_adhoc_doc_for_typ(p.get("doc", ""), name=n, default_is_none=none_like) is not None:
                    return {"trigger": True}
            except Exception:  # noqa
                return {"trigger": True}
    try:
        ds = E.docstring(copy.deepcopy(ir), docstring_format="rest", emit_types=et, word_wrap=ww, emit_default_doc=edd)
        return {"ds": ds, "view": docir.ir_view(P.docstring(ds, emit_default_doc=edd))}
    except Exception as e:  # noqa
        return {"raises": core.exc_name(e)}


def impl_google(case):
    import cdd.class_.parse  # noqa: F401
    import cdd.docstring.emit as E
    import cdd.docstring.parse as P

    ir, edd = case[:2]
    style = case[2] if len(case) > 2 else "google"
    try:
        ds = E.docstring(copy.deepcopy(ir), docstring_format=style, emit_default_doc=edd)
        return {"ds": ds, "view": docir.ir_view(P.docstring(ds, emit_default_doc=edd))}
    except Exception as e:  # noqa
        return {"raises": core.exc_name(e)}


def google_stream(chk, rng, have):
    """C01Google.google_roundtrip_full against the real code: on the theorem's domain (decided by the driver; it includes the model's own
    prose-type-inference test) the REAL parse(emit ir) in Google style equals the predicted interface, the require_default latch included"""
    n = 1500 if chk.quick else 20000
    cases = []
    for _ in range(n):
        ir = gen_whole(rng)
        ir["returns"] = None
        for p in ir["params"].values():
            if isinstance(p.get("default"), float):
                p["default"] = rng.choice([3, -7, True, False])
        cases.append((ir, rng.random() < 0.6))
    real = core.guarded_map(impl_google, cases, 15.0)
    if not have:
        return
    gm = core.model_batch([{"op": "c01.google", "ir": docir.ir_to_model(ir), "edd": edd} for ir, edd in cases])
    n_in = n_dis = n_latch = 0
    for (ir, edd), r, g in zip(cases, real, gm):
        if not isinstance(r, dict) or r.get("timeout") or r.get("skipped") or not g.get("indomain"):
            continue
        n_in += 1
        ps = list(ir["params"].values())
        if any("default" in a for a in ps[:-1]) and any("default" not in b for b in ps[1:]):
            n_latch += 1
        chk.count(("google", json.dumps(docir.ir_to_model(ir), sort_keys=True), edd), len(ir["params"]) >= 2)
        if r.get("view") != g["exp"]:
            n_dis += 1
            chk.disagreement("C01 Google whole-docstring theorem: real parse(emit ir) = expIRG ir on InDomainG", {"ir": docir.ir_to_model(ir), "edd": edd},
                             {"view": r.get("view"), "raises": r.get("raises"), "ds": r.get("ds")}, {"exp": g["exp"]})
    chk.coverage["google_theorem_tie"] = {"generated": n, "in_domain_and_compared": n_in, "with_a_parameter_after_a_defaulted_one": n_latch}
    # the same interfaces (every parameter typed) through the NumPy style: C01Numpy.numpy_roundtrip_full
    ncases = []
    for ir, edd in cases:
        ir2 = copy.deepcopy(ir)
        for p in ir2["params"].values():
            p.setdefault("typ", "int" if isinstance(p.get("default"), int) and not isinstance(p.get("default"), bool) else ("bool" if isinstance(p.get("default"), bool) else "Foo"))
        ncases.append((ir2, edd, "numpydoc"))
    nreal = core.guarded_map(impl_google, ncases, 15.0)
    nm = core.model_batch([{"op": "c01.numpy", "ir": docir.ir_to_model(ir), "edd": edd} for ir, edd, _ in ncases])
    nn_in = nn_dis = 0
    for (ir, edd, _), r, g in zip(ncases, nreal, nm):
        if not isinstance(r, dict) or r.get("timeout") or r.get("skipped") or not g.get("indomain"):
            continue
        nn_in += 1
        chk.count(("numpy", json.dumps(docir.ir_to_model(ir), sort_keys=True), edd), len(ir["params"]) >= 2)
        if r.get("view") != g["exp"]:
            nn_dis += 1
            chk.disagreement("C01 NumPy whole-docstring theorem: real parse(emit ir) = expIRN ir on InDomainN", {"ir": docir.ir_to_model(ir), "edd": edd},
                             {"view": r.get("view"), "raises": r.get("raises"), "ds": r.get("ds")}, {"exp": g["exp"]})
    chk.coverage["numpy_theorem_tie"] = {"generated": len(ncases), "in_domain_and_compared": nn_in}
    chk.oblige("correspondence: on C01Numpy.InDomainN (decided by the driver) the REAL NumPy-style parse(emit ir) (types emitted) equals the interface predicted by "
               "numpy_roundtrip_full on %d in-domain interfaces (of %d generated)" % (nn_in, len(ncases)), "correspondence", nn_dis == 0 and nn_in > len(ncases) // 20,
               "%d disagreements, %d in domain" % (nn_dis, nn_in))
    chk.oblige("correspondence: on C01Google.InDomainG (decided by the driver) the REAL Google-style parse(emit ir) equals the interface predicted by google_roundtrip_full "
               "(expIRG, incl. the defaults the require_default latch gives to later parameters) on %d in-domain interfaces (of %d generated)" % (n_in, n),
               "correspondence", n_dis == 0 and n_in > n // 20, "%d disagreements, %d in domain" % (n_dis, n_in))


def impl_quoting(strs):
    from cdd.shared.pure_utils import quote, unquote

    return [(quote(x), unquote(x)) for x in strs]


def quoting_stream(chk, have):
    """Doc.quote / Doc.unquote (the objects of quote_unquote, unquote_quote_idem) against pure_utils.quote / unquote on EVERY string of length <= 5 over
    the quote alphabet (both quote characters, a backtick, a letter, a blank) - deterministic, independent of the seed"""
    import itertools

    alpha = ["'", '"', "`", "a", " "]
    strs = ["".join(t) for k in range(0, 6) for t in itertools.product(alpha, repeat=k)]
    real = core.guarded_map(impl_quoting, [strs], 60.0)[0]
    if not have or not isinstance(real, list):
        return
    mq = core.model_batch([{"op": "c01.quote", "s": x} for x in strs])
    mu = core.model_batch([{"op": "c01.unquote", "s": x} for x in strs])
    n_dis = 0
    for x, (rq, ru), a, b in zip(strs, real, mq, mu):
        chk.count(("quoting", x), len(x) >= 2)
        if rq != a.get("r"):
            n_dis += 1
            chk.disagreement("C01 correspondence: Doc.quote = pure_utils.quote", {"s": x}, rq, a.get("r"))
        if ru != b.get("r"):
            n_dis += 1
            chk.disagreement("C01 correspondence: Doc.unquote = pure_utils.unquote", {"s": x}, ru, b.get("r"))
    chk.oblige("correspondence: Doc.quote / Doc.unquote = pure_utils.quote / unquote on all %d strings of length <= 5 over the quote alphabet" % len(strs), "correspondence", n_dis == 0,
               "%d disagreements" % n_dis)


def whole_stream(chk, rng, have):
    n = 1500 if chk.quick else 20000
    cases = [(gen_whole(rng), rng.random() < 0.7, rng.random() < 0.5, rng.random() < 0.6) for _ in range(n)]
    real = core.guarded_map(impl_whole, cases, 15.0)
    if not have:
        return
    wm = core.model_batch([{"op": "c01.whole", "ir": docir.ir_to_model(ir), "emit_types": et, "edd": edd} for ir, et, ww, edd in cases])
    em = core.model_batch([{"op": "c01.emit", "ir": docir.ir_to_model(ir), "style": "rest", "emit_types": et, "word_wrap": ww, "edd": edd} for ir, et, ww, edd in cases])
    n_in = n_dis = n_trig = n_emit_out = 0
    shapes = {}
    for (ir, et, ww, edd), r, w, e in zip(cases, real, wm, em):
        if not isinstance(r, dict) or r.get("timeout") or r.get("skipped"):
            continue
        if r.get("trigger"):
            n_trig += 1
            continue
        if not w.get("indomain"):
            continue
        if "outside" in e:  # hypothesis `emit … = .ok s` of the theorem is not met (textwrap would re-flow a line)
            n_emit_out += 1
            continue
        n_in += 1
        k = "params=%d ret=%s et=%s edd=%s" % (len(ir["params"]), bool(ir.get("returns")), et, edd)
        shapes[k] = shapes.get(k, 0) + 1
        chk.count(("whole", json.dumps(docir.ir_to_model(ir), sort_keys=True), et, ww, edd), len(ir["params"]) >= 2)
        if r.get("view") != w["exp"] or r.get("ds") != e.get("r"):
            n_dis += 1
            chk.disagreement("C01 whole-docstring theorem: real parse(emit ir) = expIR ir on InDomain", {"ir": docir.ir_to_model(ir), "emit_types": et, "word_wrap": ww, "edd": edd},
                             {"view": r.get("view"), "raises": r.get("raises"), "ds": r.get("ds")}, {"exp": w["exp"], "ds": e.get("r")})
    chk.coverage["whole_theorem_tie"] = {"generated": n, "in_domain_and_compared": n_in, "trigger_word_descriptions_excluded": n_trig, "model_emit_outside": n_emit_out,
                                         "shapes": dict(sorted(shapes.items(), key=lambda kv: -kv[1])[:12])}
    chk.oblige("correspondence: on C01Whole.InDomain (decided by the driver) the REAL cdd.docstring.parse.docstring(cdd.docstring.emit.docstring(ir)) equals the interface "
               "predicted by rest_roundtrip_full (expIR), and the real docstring equals Doc.emit's, on %d in-domain interfaces (of %d generated; %d excluded: prose type-inference triggers)"
               % (n_in, n, n_trig), "correspondence", n_dis == 0 and n_in > n // 10, "%d disagreements, %d in domain" % (n_dis, n_in))


def run(chk: core.Check) -> int:
    chk.lean(MODULE, THEOREMS)
    chk.trusted_base += [
        "model lean/CddVerif/Model/Doc.lean: character-level port of the docstring emitter (3 styles, indent_level 0), of extract_default/_parse_out_default_and_doc, and a line-oriented ReST reference parser with ports of interpolate_defaults/_set_name_and_type; tied by byte comparison of emitted docstrings and comparison of parsed views",
        "Properties/C01Whole.lean proves parseRest (emit ir) = expIR ir on the decidable domain InDomain for the MODEL; the model omits the prose type inference "
        "(parse_adhoc_doc_for_typ), so against the real code the theorem is claimed only for descriptions on which that function returns None (checked per case by calling it)",
        "assumed, not modelled: textwrap.fill (identity on the accepted lines, model abstains otherwise), ast.literal_eval/float()/repr beyond decimal ints, simple decimals, booleans and quoted strings; the real character-stack scanners of the three styles are tied by correspondence only; Google/NumPy parsing is exercised on the real code only",
    ]
    rng = chk.rng
    have = core.DRIVER.exists()
    n = 700 if chk.quick else 6000
    cases = []
    for _ in range(n):
        ir = gen_case(rng)
        for _p in ir["params"].values():  # dictionary-guided search: only active when a constant table of the code under test differs from the snapshot
            if "doc" in _p:
                _p["doc"] = core.spice(rng, _p["doc"])
        for style in STYLES:
            for et in (True, False):
                for edd_e in (True, False):
                    cases.append((ir, style, et, rng.random() < 0.5, edd_e, rng.random() < 0.5))
    real = core.guarded_map(impl_roundtrip, cases, 15.0)
    # ---- correspondence: emitter bytes (3 styles) and ReST parse view ------------------------------------------
    ereqs = [{"op": "c01.emit", "ir": docir.ir_to_model(ir), "style": s, "emit_types": et, "word_wrap": ww, "edd": e} for ir, s, et, ww, e, _ in cases]
    em = core.model_batch(ereqs) if have else None
    n_dis = n_out = 0
    preqs, pidx = [], []
    dist = {}
    for k, (case, r) in enumerate(zip(cases, real)):
        if r is None or r.get("timeout") or r.get("skipped"):
            if r and r.get("timeout"):
                chk.failure({"kind": "timeout"}, "docstring round trip did not return", {"fn": "roundtrip", "ir": docir.ir_to_model(case[0]), "style": case[1]})
            continue
        key = "%s/types=%s/edd=%s" % (case[1], case[2], case[4])
        dist[key] = dist.get(key, 0) + 1
        chk.count(("rt", json.dumps(docir.ir_to_model(case[0]), sort_keys=True), case[1:]), len(case[0]["params"]) >= 2 and any("default" in p for p in case[0]["params"].values()))
        compare(chk, case, r)
        if em is not None and "ds" in r:
            m = em[k]
            if "outside" in m:
                n_out += 1
            elif m.get("r") != r["ds"]:
                n_dis += 1
                chk.disagreement("C01 correspondence: docstring emitter bytes", {"ir": docir.ir_to_model(case[0]), "cfg": list(case[1:5])}, r["ds"], m.get("r"))
            elif case[1] == "rest" and "view" in r:
                preqs.append({"op": "c01.parse", "text": r["ds"], "edd": case[5]})
                pidx.append(k)
    chk.oblige("correspondence: Doc.emit = cdd.docstring.emit.docstring byte for byte on %d (interface, style, flags) cases (%d outside the model)" % (len(cases), n_out),
               "correspondence", n_dis == 0 and have, "%d disagreements" % n_dis)
    pm = core.model_batch(preqs) if have else []
    n_dis = n_pout = 0
    for k, m in zip(pidx, pm):
        if "outside" in m:
            n_pout += 1
        elif m.get("ir") != real[k]["view"]:
            n_dis += 1
            chk.disagreement("C01 correspondence: ReST parse view", {"text": real[k]["ds"], "edd": cases[k][5]}, real[k]["view"], m.get("ir"))
    chk.oblige("correspondence: Doc.parseRest = cdd.docstring.parse.docstring (view) on %d emitted ReST docstrings (%d outside the model)" % (len(preqs), n_pout),
               "correspondence", n_dis == 0 and have, "%d disagreements" % n_dis)
    # ---- the whole-docstring theorem's prediction against the real code --------------------------------------------
    quoting_stream(chk, have)
    whole_stream(chk, rng, have)
    google_stream(chk, rng, have)
    # ---- value level: extract_default on description lines ------------------------------------------------------
    lines = []
    vals = ["5", "-3", "0", "42", "3.14", "-2.5", "0.001", "True", "False", '"foo"', "'a b'", "mnist", "```(None)```", "```np.zeros(3)```", "1e5", "None", "10.", "-7"]
    docs = ["the thing", "learning rate used.", "a value,", "see section 2.3 for details", "The default", "x"]
    for d in docs:
        for v in vals:
            for ann in G.ANNOUNCE + ["Defaults to {}.", "Defaults to {}. More text here.", "defaults to {}, and then some"]:
                for typ in (None, "int", "str", "float", "bool", "Optional[int]"):
                    for edd in (True, False):
                        lines.append((d + (" " if d[-1] in ".," else ". ") + ann.format(v), typ, edd))
    if chk.quick:
        lines = rng.sample(lines, 4000)
    lreal = core.pmap(impl_extract, lines)
    lm = core.model_batch([{"op": "c01.extract", "line": l, "typ": t, "edd": e} for l, t, e in lines]) if have else None
    n_dis = n_lout = 0
    for k, ((l, t, e), r) in enumerate(zip(lines, lreal)):
        chk.count(("extract", l, t, e), True)
        if lm is not None:
            m = lm[k]
            if "outside" in m:
                n_lout += 1
            elif "error" in r:
                n_dis += 1
                chk.disagreement("C01 correspondence: extract_default", {"line": l, "typ": t, "edd": e}, r, m)
            elif [m.get("doc"), m.get("default")] != [r["doc"], r["default"]]:
                n_dis += 1
                chk.disagreement("C01 correspondence: extract_default", {"line": l, "typ": t, "edd": e}, r, m)
    chk.oblige("correspondence: Doc.extractDefault = extract_default on %d description lines (%d outside the model)" % (len(lines), n_lout),
               "correspondence", n_dis == 0 and have, "%d disagreements" % n_dis)
    chk.coverage["roundtrip_cases_by_config"] = dist
    chk.sample({"interface": docir.ir_to_model(cases[0][0]), "config": list(cases[0][1:]), "docstring": real[0].get("ds") if real[0] else None})
    return chk.finish("interfaces from the docstring-representable domain (0-5 params; scalar/Optional/Literal/List/Union/dotted types; int/float(+-)/bool/str/None/code defaults; "
                      "with and without return entry) x 3 styles x emit_types x emit_default_doc(emit) x word_wrap x emit_default_doc(parse); non-trivial = >=2 parameters and some default")


def impl_extract(t):
    from cdd.shared.defaults_utils import extract_default

    l, typ, edd = t
    try:
        d, v = extract_default(l, typ=typ, emit_default_doc=edd)
    except Exception as e:  # noqa
        return {"error": core.exc_name(e)}
    return {"doc": d, "default": None if v is None else docir.to_tag(v)}


def replay(path: str) -> int:
    d = json.loads(Path(path).read_text())["replay"]
    ir = {"name": "F", "doc": d["ir"]["doc"], "type": "static",
          "params": {n: {k: (docir.from_tag(v) if k == "default" else v) for k, v in p.items() if v is not None} for n, p in d["ir"]["params"]},
          "returns": None if d["ir"]["returns"] is None else {"return_type": {k: (docir.from_tag(v) if k == "default" else v) for k, v in d["ir"]["returns"].items() if v is not None}}}
    from collections import OrderedDict

    ir["params"] = OrderedDict(ir["params"])
    case = (ir, d["style"], d.get("emit_types", True), d.get("word_wrap", True), d.get("edd_emit", True), d.get("edd_parse", True))
    r = impl_roundtrip(case)

    class C(core.Check):
        def failure(self, sig, what, replay):
            print("replay: FAILS:", what)
            self.n = getattr(self, "n", 0) + 1
            return True

    c = C("C01", "quick", 0)
    compare(c, case, r)
    if not getattr(c, "n", 0):
        print("replay: property holds on this input")
    return 1 if getattr(c, "n", 0) else 0
