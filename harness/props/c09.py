"""C09 — concrete syntax tree is lossless for every input string (DESIGN.md §4 C09)."""
from __future__ import annotations

import itertools
import json
import os
from pathlib import Path

from harness import core
from harness.gen import pysrc

MODULE = "CddVerif.Properties.C09"
THEOREMS = [
    "C09.scanner_lossless_generic",
    "C09.scanner_is_instance",
    "C09.scanner_lossless",
    "C09.parser_values",
    "C09.cst_parse_lossless",
    "C09.parser_tiles",
    "C09.tiles_total",
]
ALPHABET = ["\n", " ", "    ", "'", '"', "'''", '"""', "#", "\\", "(", ")", "[", "]", "{", "}", ":", "=", "@", ";",
            "def ", "class ", "x", "f(a)", ",", "\t"]
WS_EXOTIC = ["\x0b", "\x0c", "\r", "\x1c", "\x1f", "\x85", "\xa0", " ", " ", " ", " ", " ", " ", "　"]


def impl_one(src: str):
    """Real code: chunks + nodes (or exception class)."""
    from cdd.shared.cst_utils import cst_parser, cst_scanner

    try:
        chunks = cst_scanner(src)
    except Exception as e:  # noqa
        return {"error": core.exc_name(e)}
    try:
        nodes = cst_parser(chunks)
    except Exception as e:  # noqa
        return {"chunks": chunks, "error": core.exc_name(e)}
    # guard: output that is much larger than the input can never concatenate to it; do not ship it to the parent (a change that makes
    # results accumulate across calls would otherwise cost tens of gigabytes)
    total = sum(len(n.value) for n in nodes)
    if total > 2 * len(src) + 100 or len(nodes) > 2 * len(chunks) + 10:
        return {"chunks": chunks, "nodes": [], "oversized": "%d nodes with %d characters for %d chunks / %d characters of input" % (len(nodes), total, len(chunks), len(src))}

    def flat(ns):
        return [{"kind": type(n).__name__, "start": n.line_no_start, "stop": n.line_no_end, "value": n.value,
                 "name": getattr(n, "name", None), "is_double_q": getattr(n, "is_double_q", None), "is_docstr": getattr(n, "is_docstr", None)} for n in ns]

    out = flat(nodes)
    # the public entry point (cdd.shared.cst.cst_parse) must be the composition of the two stages
    try:
        from cdd.shared.cst import cst_parse

        top = flat(cst_parse(src))
    except Exception as e:  # noqa
        top = {"error": core.exc_name(e)}
    res = {"chunks": chunks, "nodes": out}
    if top != out:
        res["entry_point_nodes"] = top
    return res


def oracle(src: str, r: dict):
    """The property itself, on the real output. Returns None or a description of the failure."""
    if "error" in r:
        return "raises %s" % r["error"]
    if "oversized" in r:
        return "node values do not concatenate to the input: " + r["oversized"]
    if "entry_point_nodes" in r:
        top = r["entry_point_nodes"]
        if isinstance(top, dict):
            return "entry-point cst_parse raises %s" % top["error"]
        if "".join(n["value"] for n in top) != src:
            return "entry-point cst_parse: node values do not concatenate to the input"
    if "".join(r["chunks"]) != src:
        return "scanner chunks do not concatenate to the input"
    nodes = r["nodes"]
    if "".join(n["value"] for n in nodes) != src:
        return "node values do not concatenate to the input"
    prev = 1
    for n in nodes:
        if n["start"] != prev:
            return "node starts at line %s, previous ended at %s" % (n["start"], prev)
        if n["stop"] - n["start"] != n["value"].count("\n"):
            return "node spans %d lines but contains %d newlines" % (n["stop"] - n["start"], n["value"].count("\n"))
        prev = n["stop"]
    return None


def gen_inputs(chk: core.Check):
    rng = chk.rng
    seen = set()
    out = []

    def add(s, kind):
        if s not in seen:
            seen.add(s)
            out.append((kind, s))

    maxlen = 3 if chk.quick else 4
    for n in range(0, maxlen + 1):
        for t in itertools.product(ALPHABET, repeat=n):
            add("".join(t), "exhaustive<=%d" % maxlen)
    # random longer token sequences
    for _ in range(6000 if chk.quick else 60000):
        n = rng.randint(maxlen + 1, 14)
        add("".join(rng.choice(ALPHABET) for _ in range(n)), "random-tokens")
    # Python-shaped structured text (same-line docstrings/comments after headers, decorators, continuations, …)
    for _ in range(12000 if chk.quick else 150000):
        add(pysrc.structured(rng), "structured")
    for x in pysrc.header_tail_grid():
        add(x, "header-tail-grid")
    # exotic whitespace (the 29 code points of str.isspace) in short contexts
    for w in WS_EXOTIC:
        for ctx in ["%sx=1\n", "#c%s\n", "x%s\n'''a%sb'''\n", "def f():%s\n  pass\n", "%s"]:
            add(ctx.replace("%s", w), "exotic-ws")
    # repository files + mutants
    files = sorted((core.REPO / "cdd").rglob("*.py"))
    cap = 12_000 if chk.quick else 400_000
    nfiles = 0
    for f in files:
        try:
            src = f.read_text()
        except Exception:  # noqa
            continue
        if len(src) > cap:
            # keep coverage of big files through a prefix cut at a line boundary
            src = src[: src.rfind("\n", 0, cap) + 1]
        nfiles += 1
        add(src, "repo-file")
        for _ in range(1 if chk.quick else 4):
            add(mutate(rng, src), "repo-mutant")
    chk.coverage["repo_files"] = nfiles
    return out


def mutate(rng, src: str) -> str:
    s = list(src)
    for _ in range(rng.randint(1, 6)):
        if not s:
            break
        i = rng.randrange(len(s))
        op = rng.random()
        tok = rng.choice(ALPHABET + WS_EXOTIC)
        if op < 0.4:
            s[i:i] = list(tok)
        elif op < 0.7:
            del s[i:i + rng.randint(1, 5)]
        else:
            s[i:i + 1] = list(tok)
    # cut to keep the quadratic scanner fast
    if len(s) > 6000:
        a = rng.randrange(0, len(s) - 6000)
        s = s[a:a + 6000]
    return "".join(s)


def run(chk: core.Check) -> int:
    chk.lean(MODULE, THEOREMS)
    chk.trusted_base += [
        "hand-written model lean/CddVerif/Model/Cst.lean of cst_scanner/cst_scan/cst_parser/cst_parse_one_node/infer_cst_type/get_construct_name/balanced_parentheses/is_triple_quoted, tied to the code by exact comparison of chunk lists and node lists",
        "Python str ↔ List Char (code points); lone surrogates are not generated",
    ]
    inputs = gen_inputs(chk)
    srcs = [s for _, s in inputs]
    impl = core.pmap(impl_one, srcs, chunksize=256)
    model = core.model_batch([{"op": "c09.parse", "src": s} for s in srcs]) if core.DRIVER.exists() else [None] * len(srcs)
    model_scan = None
    kinds = {}
    n_dis = 0
    for (kind, s), r, m in zip(inputs, impl, model):
        kinds[kind] = kinds.get(kind, 0) + 1
        nontrivial = len(r.get("chunks", [])) >= 2
        chk.count(s, nontrivial)
        if nontrivial and len(s) < 60:
            chk.sample({"src": s, "chunks": r.get("chunks"), "kinds": [n["kind"] for n in r.get("nodes", [])]})
        bad = oracle(s, r)
        if bad:
            chk.failure({"oracle": bad.split(" ")[0]}, "cst_parse(%r): %s" % (s[:200], bad), {"src": s, "impl": r})
        if m is not None:
            if "error" in m or m.get("nodes") != r.get("nodes") or "entry_point_nodes" in r:
                n_dis += 1
                chk.disagreement("C09 correspondence: Cst.cstParse vs cdd.shared.cst.cst_parse", {"src": s[:2000]},
                                 r.get("nodes") if len(s) < 2000 else "(long)", m.get("nodes", m) if len(s) < 2000 else "(long)")
    chk.oblige("correspondence Cst.cstParse = cst_parse on %d inputs" % len(srcs), "correspondence", n_dis == 0 and model[0] is not None,
               "%d disagreements" % n_dis)
    chk.coverage["input_kinds"] = kinds
    chk.coverage["exhaustive"] = False
    chk.coverage["exhaustive_part"] = "all token sequences of length <= %d over a %d-token lexical alphabet" % (3 if chk.quick else 4, len(ALPHABET))
    return chk.finish("inputs: exhaustive token sequences, random longer sequences, exotic whitespace, every repo .py file and mutants; "
                      "non-trivial = the scanner splits the input into >= 2 chunks; distinct by input string")


def replay(path: str) -> int:
    d = json.loads(Path(path).read_text())
    src = d["replay"]["src"]
    r = impl_one(src)
    bad = oracle(src, r)
    print("replay:", repr(src[:200]), "->", bad or "property holds")
    return 1 if bad else 0
