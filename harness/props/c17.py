"""C17 — analysing source never executes it or touches anything but the output (DESIGN.md §4 C17).

(1) site table: harness/translators/evalsites.py → Gen/EvalSites.lean; theorems of Properties/C17.lean
(2) correspondence: Adhoc.adhocStr (model) = real parse_adhoc_doc_for_typ, Adhoc.phase0 = real _parse_adhoc_doc_for_typ_phase0
(3) runtime oracle on the real code: child processes with `sys.addaudithook` run the real parsers / emitters / doctrans / sync /
    sync_properties / gen-from-file / routes + openapi parsers on adversarial inputs; every `exec` event must be an installed
    module body or the `<string>` code of the doc-derived eval whose source equals the model's prediction; no process / network
    / unpickling events; no sentinel file; no canary import; the only paths opened for writing are the named outputs.
"""
from __future__ import annotations

import concurrent.futures as cf
import itertools
import json
import os
import subprocess
import sys
import tempfile
from pathlib import Path

from harness import core
from harness.gen import c17_adv as G
from harness.translators import evalsites

MODULE = "CddVerif.Properties.C17"
THEOREMS = [
    "C17.all_sites_safe", "C17.registry_all_present", "C17.doc_eval_unique", "C17.no_unsafe_sites", "C17.findings_registered",
    "C17.eval_arg_safe", "C17.safeC_iff", "C17.safe_excludes", "C17.eval_arg_excludes", "C17.no_call_syntax", "C17.no_dunder",
    "C17.constants_lossless", "C17.tables_match", "C17.word_chars_match", "C17.word_chars_exact",
    "Adhoc.safe_of_word", "Adhoc.safe_of_sep",
]
DOC_EVAL_SITE = ("cdd/shared/docstring_parsers.py", "__set_name_and_type_handle_doc_in_param")
OPT_IN_SITES = {("cdd/compound/sync_properties.py", "sync_property"): "input_eval", ("cdd/compound/gen.py", "gen"): "prepend"}


# ======================================================================================================================
# real code, in-process (pure functions): parse_adhoc_doc_for_typ and its phase 0
# ======================================================================================================================
def impl_adhoc(case):
    import cdd.class_.parse  # noqa: F401  (import order)
    from cdd.docstring.utils.parse_utils import parse_adhoc_doc_for_typ

    doc, name, flag = case
    try:
        return {"typ": parse_adhoc_doc_for_typ(doc, name, flag)}
    except Exception as e:  # noqa
        return {"raises": type(e).__name__}


def impl_phase0(doc):
    import cdd.class_.parse  # noqa: F401
    from cdd.docstring.utils.parse_utils import _parse_adhoc_doc_for_typ_phase0

    words = [[]]
    try:
        cand, fst, sent = _parse_adhoc_doc_for_typ_phase0(doc, words)
    except Exception as e:  # noqa
        return {"raises": type(e).__name__}
    return {"words": words, "cand": cand, "fst": fst, "sentence": sent}


def real_tables():
    import cdd.class_.parse  # noqa: F401
    from cdd.docstring.utils import parse_utils as pu
    from cdd.shared.pure_utils import type_to_name

    return {"adhoc_type_to_type": dict(pu.adhoc_type_to_type), "adhoc_3_tuple_to_type": dict(pu.adhoc_3_tuple_to_type),
            "adhoc_3_tuple_to_collection": dict(pu.adhoc_3_tuple_to_collection), "type_to_name": dict(type_to_name)}


# ======================================================================================================================
# the child process: audit hook around the real code
# ======================================================================================================================
class _State:
    active = False
    events: list = []
    adhoc: list = []
    last_compile = (None, None)


def _subst(x, sentinel):
    if isinstance(x, str):
        return x.replace(G.SENT, sentinel)
    if isinstance(x, list):
        return [_subst(y, sentinel) for y in x]
    if isinstance(x, dict):
        return {_subst(k, sentinel): _subst(v, sentinel) for k, v in x.items()}
    return x


_EVENT_PREFIXES = ("subprocess.", "os.system", "os.exec", "os.fork", "os.forkpty", "os.posix_spawn", "os.spawn", "os.startfile", "os.kill", "os.putenv",
                   "socket.", "pickle.find_class", "ctypes.", "urllib.Request", "ftplib.", "smtplib.", "http.client.", "webbrowser.open", "poplib.", "imaplib.",
                   "nntplib.", "telnetlib.", "shutil.", "os.remove", "os.rename", "os.rmdir", "os.mkdir", "os.chmod", "os.chown", "os.symlink", "os.link",
                   "os.truncate", "tempfile.", "os.chdir", "os.chroot", "os.unsetenv", "code.__new__", "marshal.loads", "builtins.breakpoint", "sys.settrace",
                   "cpython.run_", "pty.spawn", "syslog.", "winreg.", "msvcrt.", "mmap.__new__", "sqlite3.connect", "builtins.input")


def _hook(ev, args):
    S = _State
    if not S.active:
        return
    S.active = False  # our own inspection must not be recorded
    try:
        if ev == "compile":
            src, fn = args[0], args[1]
            if isinstance(src, (bytes, bytearray)):
                src = bytes(src).decode("utf-8", "surrogateescape")
            S.last_compile = (src, fn)
        elif ev == "exec":
            co = args[0]
            f = sys._getframe(1)
            src = S.last_compile[0] if (S.last_compile[1] == co.co_filename and not os.path.isabs(co.co_filename)) else None
            S.events.append({"ev": "exec", "code_file": co.co_filename, "code_name": co.co_name, "caller_file": f.f_code.co_filename,
                             "caller_func": f.f_code.co_name, "caller_line": f.f_lineno, "src": src, "adhoc_idx": len(S.adhoc) - 1})
        elif ev == "import":
            S.events.append({"ev": "import", "name": args[0]})
        elif ev == "open":
            path, mode, flags = (list(args) + [None, None, None])[:3]
            w = False
            if isinstance(mode, str):
                w = any(c in mode for c in "wax+")
            elif isinstance(flags, int):
                w = bool(flags & (os.O_WRONLY | os.O_RDWR | os.O_CREAT | os.O_APPEND | os.O_TRUNC))
            if w:
                S.events.append({"ev": "open-write", "path": os.path.abspath(os.fsdecode(path)) if isinstance(path, (bytes, str)) else repr(path),
                                 "mode": mode if isinstance(mode, str) else flags})
        elif ev.startswith(_EVENT_PREFIXES) and ev != "marshal.loads":
            S.events.append({"ev": ev, "args": repr(args)[:300]})
    except Exception as e:  # noqa
        S.events.append({"ev": "hook-error", "args": "%s: %s" % (ev, e)})
    finally:
        S.active = True


def _child_setup():
    """import everything first (so that ordinary lazy imports do not show up inside cases), then install the hook"""
    sys.dont_write_bytecode = True
    core.repo_on_path()
    import cdd.class_.parse  # noqa: F401
    import cdd.sqlalchemy.emit  # noqa: F401
    import cdd.__main__  # noqa: F401
    import cdd.argparse_function.emit, cdd.argparse_function.parse, cdd.class_.emit, cdd.compound.doctrans, cdd.compound.gen  # noqa: F401,E401
    import cdd.compound.openapi.gen_openapi, cdd.compound.openapi.parse, cdd.compound.sync_properties, cdd.docstring.emit, cdd.docstring.parse  # noqa: F401,E401
    import cdd.function.emit, cdd.function.parse, cdd.json_schema.emit, cdd.json_schema.parse, cdd.pydantic.emit, cdd.pydantic.parse  # noqa: F401,E401
    import cdd.routes.parse.bottle, cdd.routes.parse.fastapi, cdd.shared.conformance, cdd.shared.emit.file, cdd.sqlalchemy.parse  # noqa: F401,E401
    import cdd.shared.docstring_parsers
    from cdd.docstring.utils import parse_utils

    adhoc_code = parse_utils.parse_adhoc_doc_for_typ.__code__
    # the name the eval site calls must be the function we watch (a re-binding would make the profile blind)
    bound = getattr(cdd.shared.docstring_parsers, "parse_adhoc_doc_for_typ", None)
    bound_ok = getattr(bound, "__code__", None) is adhoc_code

    def prof(frame, event, arg):
        if frame.f_code is adhoc_code and _State.active:
            if event == "call":
                loc = frame.f_locals
                _State.adhoc.append({"doc": loc.get("doc"), "name": loc.get("name"), "none": loc.get("default_is_none"), "ret": "<pending>"})
            elif event == "return" and _State.adhoc:
                _State.adhoc[-1]["ret"] = arg

    sys.addaudithook(_hook)
    return prof, bound_ok


def _jsonable(x):
    if isinstance(x, (str, int, float, bool, type(None))):
        return x
    return repr(x)[:200]


def _run_one(case, tmp: Path, prof):
    """run one case of the real code under the hook; returns the observation record"""
    import ast
    import io
    from argparse import Namespace  # noqa: F401

    S = _State
    sentinel = str(tmp / "PWNED")
    case = _subst(case, sentinel)
    fn = case["fn"]
    work = tmp / "w"
    if work.exists():
        for p in sorted(work.rglob("*"), reverse=True):
            p.unlink() if p.is_file() or p.is_symlink() else p.rmdir()
    else:
        work.mkdir()
    allowed = []
    own = []  # input files written by this runner itself
    truth_file = []  # sync: the file named as the source of truth (an input)
    steps = []

    def put(path, text):
        """write an input file without the hook seeing the runner's own write"""
        was = S.active
        S.active = False
        try:
            path.write_text(text)
            own.append(str(path))
        finally:
            S.active = was

    def step(label, thunk):
        try:
            r = thunk()
            steps.append([label, "ok"])
            return r
        except BaseException as e:  # noqa  (SystemExit from argparse included)
            steps.append([label, type(e).__name__])
            return None

    def emit_all(ir, label):
        import copy

        import cdd.argparse_function.emit, cdd.class_.emit, cdd.docstring.emit, cdd.function.emit, cdd.json_schema.emit, cdd.pydantic.emit, cdd.sqlalchemy.emit  # noqa: E401
        from cdd.shared.source_transformer import to_code

        outs = []
        for name, th in [
            ("argparse", lambda i: cdd.argparse_function.emit.argparse_function(i, emit_default_doc=True)),
            ("class", lambda i: cdd.class_.emit.class_(i, emit_call=True, class_name="K")),
            ("function", lambda i: cdd.function.emit.function(i, function_name="g", function_type="static")),
            ("docstring_rest", lambda i: cdd.docstring.emit.docstring(i, docstring_format="rest")),
            ("docstring_google", lambda i: cdd.docstring.emit.docstring(i, docstring_format="google")),
            ("docstring_numpydoc", lambda i: cdd.docstring.emit.docstring(i, docstring_format="numpydoc")),
            ("json_schema", lambda i: cdd.json_schema.emit.json_schema(i, "id1")),
            ("pydantic", lambda i: cdd.pydantic.emit.pydantic(i, class_name="P")),
            ("sqlalchemy", lambda i: cdd.sqlalchemy.emit.sqlalchemy(i, class_name="T", table_name="t")),
            ("sqlalchemy_table", lambda i: cdd.sqlalchemy.emit.sqlalchemy_table(i, name="t", table_name="t")),
            ("sqlalchemy_hybrid", lambda i: cdd.sqlalchemy.emit.sqlalchemy_hybrid(i, class_name="T", table_name="t")),
        ]:
            node = step("%s>emit.%s" % (label, name), lambda th=th: th(copy.deepcopy(ir)))
            if isinstance(node, ast.AST):
                step("%s>to_code.%s" % (label, name), lambda node=node: to_code(node))
                outs.append(node)
        return outs

    def body():
        import cdd.argparse_function.parse, cdd.class_.parse, cdd.compound.doctrans, cdd.compound.gen, cdd.compound.openapi.gen_openapi  # noqa: E401
        import cdd.compound.openapi.parse, cdd.compound.sync_properties, cdd.docstring.emit, cdd.docstring.parse, cdd.function.parse  # noqa: E401
        import cdd.json_schema.emit, cdd.json_schema.parse, cdd.pydantic.parse, cdd.routes.parse.bottle, cdd.routes.parse.fastapi  # noqa: E401
        import cdd.shared.emit.file, cdd.sqlalchemy.parse  # noqa: E401
        from cdd.__main__ import main

        o = case.get("opts", {})
        if fn == "docstring":
            ir = step("docstring.parse", lambda: cdd.docstring.parse.docstring(case["doc"], infer_type=o.get("infer_type", False),
                                                                                parse_original_whitespace=o.get("pow", False),
                                                                                emit_default_doc=o.get("edd", True), emit_default_prop=o.get("edp", True)))
            if ir is not None:
                for style in ("rest", "google", "numpydoc"):
                    step("docstring.emit." + style, lambda style=style: cdd.docstring.emit.docstring(ir, docstring_format=style, word_wrap=o.get("ww", True)))
                if o.get("emit_all"):
                    emit_all(ir, "docstring")
        elif fn == "module":
            mod = step("ast.parse", lambda: ast.parse(case["src"]))
            if mod is None:
                return
            nodes = {getattr(n, "name", None): n for n in mod.body}
            first = None
            for kind, name in case["names"].items():
                node = nodes.get(name)
                if node is None:
                    for n in mod.body:  # Table assignment
                        if isinstance(n, ast.Assign) and getattr(n.targets[0], "id", None) == name.lower():
                            node = n
                if node is None:
                    continue
                parser = {
                    "function": lambda n: cdd.function.parse.function(n, infer_type=o.get("infer_type", False), word_wrap=o.get("ww", True)),
                    "class": lambda n: cdd.class_.parse.class_(n, merge_inner_function=o.get("merge"), infer_type=o.get("infer_type", False), word_wrap=o.get("ww", True)),
                    "argparse": lambda n: cdd.argparse_function.parse.argparse_ast(n),
                    "sqlalchemy": lambda n: (cdd.sqlalchemy.parse.sqlalchemy(n) if isinstance(n, ast.ClassDef) else cdd.sqlalchemy.parse.sqlalchemy_table(n)),
                    "sqlalchemy_hybrid": lambda n: cdd.sqlalchemy.parse.sqlalchemy_hybrid(n),
                    "pydantic": lambda n: cdd.pydantic.parse.pydantic(n),
                }[kind]
                ir = step(kind + ".parse", lambda: parser(node))
                if ir is not None:
                    outs = emit_all(ir, kind)
                    first = first or (outs[0] if outs else None)
            if first is not None:
                out = str(work / "out.py")
                allowed.append(out)
                step("emit.file", lambda: cdd.shared.emit.file.file(first, out, mode="wt", skip_black=o.get("skip_black", False)))
        elif fn == "json_schema":
            ir = step("json_schema.parse", lambda: cdd.json_schema.parse.json_schema(case["schema"]))
            if ir is not None:
                emit_all(ir, "json_schema")
                out = str(work / "out.json")
                allowed.append(out)
                step("json_schema_file", lambda: cdd.json_schema.emit.json_schema_file({"a": cdd.json_schema.emit.json_schema(ir, "a")}, out))
        elif fn == "ir_emit":
            emit_all(case["ir"], "ir")
        elif fn == "doctrans":
            f = work / "mod.py"
            put(f, case["src"])
            allowed.append(str(f))
            step("doctrans", lambda: cdd.compound.doctrans.doctrans(str(f), docstring_format=o.get("format", "rest"), type_annotations=o.get("ta", True),
                                                                   no_word_wrap=o.get("nww")))
        elif fn in ("sync_properties", "control_input_eval"):
            fi, fo = work / "in.py", work / "out.py"
            put(fi, case["src_in"])
            put(fo, case["src_out"])
            allowed.append(str(fo))
            step("sync_properties", lambda: cdd.compound.sync_properties.sync_properties(
                input_eval=(fn == "control_input_eval"), input_filename=str(fi), input_params=case["input_params"], output_filename=str(fo),
                output_params=case["output_params"], output_param_wrap=o.get("wrap")))
        elif fn == "sync":
            files = {}
            for k in ("class", "function", "argparse_function"):
                files[k] = work / (k + ".py")
                put(files[k], case["src"][k])
                if k != case["truth"]:
                    allowed.append(str(files[k]))
                else:
                    truth_file.append(str(files[k]))
            argv = ["sync", "--truth", case["truth"], "--class", str(files["class"]), "--class-name", "C", "--function", str(files["function"]),
                    "--function-name", case.get("function_name", "f"), "--argparse-function", str(files["argparse_function"]), "--argparse-function-name", "set_cli_args"]
            step("sync", lambda: main(argv))
        elif fn == "gen":
            f = work / "inp.py"
            put(f, case["src"])
            out = str(work / "gen_out.py")
            allowed.append(out)
            step("gen", lambda: cdd.compound.gen.gen(name_tpl=o.get("name_tpl", "{name}Cfg"), input_mapping=str(f), parse_name=o.get("parse", "infer"),
                                                    emit_name=o.get("emit", "class"), output_filename=out, prepend=None, imports_from_file=None,
                                                    emit_call=o.get("emit_call", False), emit_and_infer_imports=o.get("infer_imports", False),
                                                    no_word_wrap=o.get("nww")))
        elif fn == "bottle":
            node = step("ast.parse", lambda: ast.parse(case["src"]).body[0])
            if node is not None:
                step("bottle", lambda: cdd.routes.parse.bottle.bottle(node))
        elif fn == "fastapi":
            node = step("ast.parse", lambda: ast.parse(case["src"]).body[0])
            if node is not None:
                step("fastapi", lambda: cdd.routes.parse.fastapi.fastapi(node))
        elif fn == "openapi":
            step("openapi", lambda: cdd.compound.openapi.parse.openapi(case["openapi_str"], {"route": "/api/foo", "name": "app", "method": o.get("method", "get")}, "summary"))
        elif fn == "openapi_bulk":
            fm, fr = work / "models.py", work / "routes.py"
            put(fm, case["src_models"])
            put(fr, case["src_routes"])
            step("openapi_bulk", lambda: cdd.compound.openapi.gen_openapi.openapi_bulk(app_name="app", model_paths=[str(fm)], routes_paths=[str(fr)]))
        else:
            raise ValueError("unknown fn %r" % fn)

    before = {str(p) for p in tmp.rglob("*")}
    S.events, S.adhoc, S.last_compile = [], [], (None, None)
    saved_out, saved_err = sys.stdout, sys.stderr
    sys.stdout, sys.stderr = io.StringIO(), io.StringIO()
    harness_error = None
    try:
        sys.setprofile(prof)
        S.active = True
        try:
            body()
        finally:
            S.active = False
            sys.setprofile(None)
    except BaseException as e:  # noqa
        harness_error = "%s: %s" % (type(e).__name__, e)
    finally:
        sys.stdout, sys.stderr = saved_out, saved_err
    after = {str(p) for p in tmp.rglob("*")}
    new_files = sorted(after - before)
    real_allowed = {os.path.realpath(a) for a in allowed}
    stray = [p for p in new_files if os.path.realpath(p) not in real_allowed and p not in own]
    sentinel_hit = os.path.lexists(sentinel)
    if sentinel_hit:
        p = Path(sentinel)
        if p.is_dir() and not p.is_symlink():
            p.rmdir()
        else:
            p.unlink()
    for p in stray:
        if os.path.lexists(p) and p != sentinel:
            try:
                os.rmdir(p) if os.path.isdir(p) else os.unlink(p)
            except OSError:
                pass
    canary = [m for m in G.CANARY_MODULES if m in sys.modules]
    for m in canary:
        del sys.modules[m]
    return {"events": S.events, "adhoc": [{k: _jsonable(v) for k, v in a.items()} for a in S.adhoc], "steps": steps, "sentinel": sentinel_hit,
            "stray_files": [p.replace(str(tmp), "<tmp>") for p in stray], "allowed": allowed, "canary_loaded": canary, "tmp": str(tmp), "harness_error": harness_error,
            "truth_file": truth_file[0] if truth_file else None}


def child_main(inp: str, outp: str):
    cases = json.loads(Path(inp).read_text())
    prof, bound_ok = _child_setup()
    tmp = Path(tempfile.mkdtemp(prefix="c17_"))
    (tmp / (G.EVIL_MOD + ".py")).write_text("open(%r, 'w').write('imported')\ndef go():\n    pass\n" % str(tmp / "PWNED"))
    sys.path.insert(0, str(tmp))
    pre_loaded = [m for m in G.CANARY_MODULES if m in sys.modules]
    with open(outp, "w") as out:  # one line per finished case: a hang leaves the finished ones readable
        out.write(json.dumps({"meta": {"bound_ok": bound_ok, "pre_loaded": pre_loaded, "prefixes": [sys.prefix, sys.base_prefix, str(core.REPO)]}}) + "\n")
        out.flush()
        for c in cases:
            out.write(json.dumps(_run_one(c, tmp, prof), ensure_ascii=True, default=repr) + "\n")
            out.flush()
    import shutil

    shutil.rmtree(tmp, ignore_errors=True)


def _blank(**flags):
    r = {"events": [], "adhoc": [], "steps": [], "sentinel": False, "stray_files": [], "allowed": [], "canary_loaded": [], "tmp": "", "harness_error": None, "truth_file": None}
    r.update(flags)
    return r


def run_children(cases: list[dict], nproc: int = core.NCPU, timeout: int = 600):
    """run the cases in `nproc` fresh interpreters (an audit hook cannot be removed, so never in the check's own process).
    A case that does not return (e.g. executed input waiting on stdin) yields {"timeout": True}; the cases behind it in the same
    child are re-run in a new child."""
    if not cases:
        return [], {}
    nproc = max(1, min(nproc, (len(cases) + 7) // 8))
    d = Path(tempfile.mkdtemp(prefix="c17io_"))
    env = dict(os.environ)
    env["PYTHONPATH"] = os.pathsep.join([str(core.REPO), str(core.VERIF)] + ([env["PYTHONPATH"]] if env.get("PYTHONPATH") else []))
    env["PYTHONDONTWRITEBYTECODE"] = "1"
    env["PYTHONHASHSEED"] = "0"
    n_timeouts = [0]

    def run(k):
        idxs = list(range(k, len(cases), nproc))
        out, meta, attempt = {}, None, 0
        while idxs:
            attempt += 1
            fi, fo = d / ("in%d_%d.json" % (k, attempt)), d / ("out%d_%d.json" % (k, attempt))
            fi.write_text(json.dumps([cases[i] for i in idxs], ensure_ascii=True))
            timed_out = False
            try:
                p = subprocess.run([core.PY, "-c", "from harness.props import c17; c17.child_main(%r, %r)" % (str(fi), str(fo))], stdin=subprocess.DEVNULL,
                                   stdout=subprocess.PIPE, stderr=subprocess.PIPE, text=True, env=env, cwd=str(core.VERIF), timeout=timeout)
            except subprocess.TimeoutExpired:
                timed_out, p = True, None
            lines = fo.read_text().split("\n") if fo.exists() else []
            recs = []
            for ln in lines:
                try:
                    recs.append(json.loads(ln))
                except ValueError:
                    break  # a partially written last line
            if recs and "meta" in recs[0]:
                meta = meta or recs[0]["meta"]
                recs = recs[1:]
            elif not timed_out:
                raise core.HarnessError("c17 child failed (rc=%s): %s" % (p.returncode if p else None, (p.stderr if p else "")[-2000:]))
            for i, r in zip(idxs, recs):
                out[i] = r
            done = len(recs)
            if done == len(idxs):
                break
            # the child died or hung on case idxs[done]
            if timed_out:
                out[idxs[done]] = _blank(timeout=True)
                n_timeouts[0] += 1
            else:
                out[idxs[done]] = _blank(crashed=True, stderr=(p.stderr or "")[-1500:], rc=p.returncode)
            idxs = idxs[done + 1:]
            if n_timeouts[0] > 3:
                for i in idxs:
                    out[i] = _blank(skipped=True)
                break
        return out, meta

    with cf.ThreadPoolExecutor(nproc) as ex:
        outs = list(ex.map(run, range(nproc)))
    res = [None] * len(cases)
    metas = []
    for o, m in outs:
        for i, r in o.items():
            res[i] = r
        if m:
            metas.append(m)
    if not metas:
        raise core.HarnessError("no c17 child produced any result")
    meta = {"bound_ok": all(m["bound_ok"] for m in metas), "pre_loaded": sorted({x for m in metas for x in m["pre_loaded"]}), "prefixes": metas[0]["prefixes"]}
    import shutil

    shutil.rmtree(d, ignore_errors=True)
    return res, meta


# ======================================================================================================================
# the commands the way a user runs them: `python -m cdd <command> …` with cwd = the directory holding the hostile files
# ======================================================================================================================
def cli_child_main(spec_path: str, outp: str):
    """one process per case: audit hook first, then the package's __main__ exactly as `python -m cdd` runs it (cwd first on sys.path)"""
    import io
    import runpy

    spec = json.loads(Path(spec_path).read_text())
    tmp = spec["tmp"]
    sys.dont_write_bytecode = True
    if sys.path and sys.path[0] in ("", "."):
        sys.path[0] = os.getcwd()  # what `-m` puts there
    S = _State

    def prof(frame, event, arg):
        co = frame.f_code
        if co.co_name == "parse_adhoc_doc_for_typ" and co.co_filename.endswith("parse_utils.py") and S.active:
            if event == "call":
                loc = frame.f_locals
                S.adhoc.append({"doc": loc.get("doc"), "name": loc.get("name"), "none": loc.get("default_is_none"), "ret": "<pending>"})
            elif event == "return" and S.adhoc:
                S.adhoc[-1]["ret"] = arg

    sys.addaudithook(_hook)
    S.events, S.adhoc, S.last_compile = [], [], (None, None)
    sys.argv = ["cdd"] + spec["argv"]
    saved_out, saved_err = sys.stdout, sys.stderr
    sys.stdout, sys.stderr = io.StringIO(), io.StringIO()
    try:
        sys.setprofile(prof)
        S.active = True
        try:
            runpy.run_module("cdd", run_name="__main__", alter_sys=True)
            status = "ok"
        except SystemExit as e:
            status = "ok" if e.code in (0, None) else "exit:%s" % (e.code,)
        except BaseException as e:  # noqa
            status = type(e).__name__
        finally:
            S.active = False
            sys.setprofile(None)
    finally:
        err_text = sys.stderr.getvalue()[-400:]
        sys.stdout, sys.stderr = saved_out, saved_err
    roots = [os.path.realpath(p) for p in (sys.prefix, sys.base_prefix, str(core.REPO))]
    repo = os.path.realpath(str(core.REPO))
    canaries = set(G.CANARY_MODULES) | set(spec.get("hostile", []))
    events = []
    lib_cache = os.environ.get("BLACK_CACHE_DIR")  # black (compiled) probes its own cache directory with a temporary file when it is imported
    n_lib_cache = 0
    for e in S.events:
        if lib_cache and ((e["ev"] == "open-write" and _under(e["path"], [lib_cache])) or (e["ev"].startswith("tempfile.") and lib_cache in e.get("args", ""))):
            n_lib_cache += 1
            continue
        if e["ev"] == "exec":
            cf_ = e["code_file"]
            in_cdd = _under(e["caller_file"], [repo + "/cdd"]) and "/tests/" not in e["caller_file"]
            installed = cf_.startswith("<frozen ") or (os.path.isabs(cf_) and _under(cf_, roots) and not _under(cf_, [tmp]))
            if installed and not in_cdd:
                continue  # ordinary imports of installed modules
        elif e["ev"] == "import" and e["name"].split(".")[0] not in canaries:
            continue
        events.append(e)
    loaded = sorted(n for n, m in list(sys.modules.items()) if isinstance(getattr(m, "__file__", None), str) and _under(m.__file__, [tmp]))
    Path(outp).write_text(json.dumps({"events": events, "adhoc": [{k: _jsonable(v) for k, v in a.items()} for a in S.adhoc], "steps": [["cli." + spec["command"], status]],
                                      "canary_loaded": loaded, "stderr": err_text, "lib_cache_writes": n_lib_cache, "prefixes": [sys.prefix, sys.base_prefix, str(core.REPO)]}, ensure_ascii=True, default=repr))


def run_cli_cases(cases: list[dict], nproc: int = core.NCPU, timeout: int = 90):
    """each case in its own interpreter, started in the case's own temp directory"""
    env = dict(os.environ)
    env["PYTHONPATH"] = os.pathsep.join([str(core.REPO), str(core.VERIF)] + ([env["PYTHONPATH"]] if env.get("PYTHONPATH") else []))
    env["PYTHONDONTWRITEBYTECODE"] = "1"
    env["PYTHONHASHSEED"] = "0"
    import shutil

    def run(case):
        tmp = Path(os.path.realpath(tempfile.mkdtemp(prefix="c17cli_")))
        try:
            sentinel = str(tmp / "PWNED")
            sub = lambda x: x.replace(G.SENT, sentinel).replace("@TMP@", str(tmp))  # noqa: E731
            for rel, text in case["files"].items():
                f = tmp / rel
                f.parent.mkdir(parents=True, exist_ok=True)
                f.write_text(sub(text))
            before = {str(p) for p in tmp.rglob("*")}
            spec = {"argv": [sub(a) for a in case["argv"]], "tmp": str(tmp), "command": case["command"], "hostile": case.get("hostile", [])}
            io_dir = Path(tempfile.mkdtemp(prefix="c17cliio_"))
            (io_dir / "spec.json").write_text(json.dumps(spec))
            try:
                p = subprocess.run([core.PY, "-c", "import sys; from harness.props import c17; c17.cli_child_main(sys.argv[1], sys.argv[2])",
                                    str(io_dir / "spec.json"), str(io_dir / "out.json")], stdin=subprocess.DEVNULL, stdout=subprocess.PIPE, stderr=subprocess.PIPE,
                                   text=True, env=dict(env, BLACK_CACHE_DIR=os.path.realpath(str(io_dir / "black_cache"))), cwd=str(tmp), timeout=timeout)
            except subprocess.TimeoutExpired:
                return _blank(timeout=True, tmp=str(tmp))
            if not (io_dir / "out.json").exists():
                return _blank(crashed=True, stderr=(p.stderr or "")[-1500:], rc=p.returncode, tmp=str(tmp))
            rec = json.loads((io_dir / "out.json").read_text())
            shutil.rmtree(io_dir, ignore_errors=True)
            allowed = [str(tmp / o) for o in case.get("outputs", [])]
            after = {str(p) for p in tmp.rglob("*")}
            real_allowed = {os.path.realpath(a) for a in allowed}
            stray = sorted(p for p in after - before if os.path.realpath(p) not in real_allowed)
            rec.update({"sentinel": os.path.lexists(sentinel), "stray_files": [p.replace(str(tmp), "<tmp>") for p in stray], "allowed": allowed, "tmp": str(tmp),
                        "harness_error": None, "truth_file": str(tmp / case["truth"]) if case.get("truth") else None})
            return rec
        finally:
            shutil.rmtree(tmp, ignore_errors=True)

    with cf.ThreadPoolExecutor(max(1, min(nproc, len(cases)))) as ex:
        return list(ex.map(run, cases))


_CLS = ("class C(object):\n    \"\"\"\n    Doc.\n\n    :cvar a: the thing or None. Defaults to 5\n    :cvar b: one of 'x', 'y' or 'z'\n    \"\"\"\n\n    a: int = 5\n    b: str = 'x'\n")
_FUN = "def f(a=5, b='x'):\n    \"\"\"\n    Doc.\n\n    :param a: the thing or None\n    :type a: ```int```\n\n    :param b: one of 'x', 'y' or 'z'\n    :type b: ```str```\n    \"\"\"\n"
_ARGP = ("def set_cli_args(argument_parser):\n    \"\"\"\n    Set CLI arguments\n\n    :param argument_parser: argument parser\n    :type argument_parser: ```ArgumentParser```\n\n"
         "    :return: argument_parser\n    :rtype: ```ArgumentParser```\n    \"\"\"\n    argument_parser.description = \"Doc.\"\n"
         "    argument_parser.add_argument(\"--a\", type=int, help=\"the thing or None\", required=True, default=5)\n    return argument_parser\n")
_SQL = ("from sqlalchemy import Column, Integer, String\n\nclass Tbl(Base):\n    \"\"\"\n    A table.\n\n    :cvar id: the key\n    :cvar name: the name or None\n    \"\"\"\n"
        "    __tablename__ = 'tbl'\n    id = Column(Integer, primary_key=True, doc='the key')\n    name = Column(String, doc='the name or None', nullable=True)\n")
_ROUTE = "@app.get('/api/tbl/:id')\ndef read(id):\n    \"\"\"\n    Read one\n\n    ```yml\n    responses:\n      '200':\n        description: A `Tbl` object.\n    ```\n\n    :param id: the key\n    :type id: ```int```\n    \"\"\"\n"


def _hostile(tag, body):
    """a file the command is only supposed to READ: importing / executing it leaves a marker"""
    return "open('%s', 'w').write(%r)\n\n%s" % (G.SENT, tag, body)


def cli_cases():
    """fixed matrix: every command × every option that takes a file × the ways a user may spell the file (bare name, ./name, sub/name, absolute)"""
    styles = {"bare": ("", "%s"), "dot": ("", "./%s"), "sub": ("sub/", "sub/%s"), "abs": ("", "@TMP@/%s")}
    out = []
    for st, (d, fmt) in styles.items():
        P = lambda name: fmt % name  # noqa: E731
        F = lambda name: d + name  # noqa: E731
        out.append({"fn": "cli", "command": "gen", "label": "gen:input-mapping+imports-from-file=" + st,
                    "files": {F("inp.py"): _hostile("inp", _CLS), F("models.py"): _hostile("models", "from typing import Optional\n")}, "hostile": ["inp", "models", "sub"],
                    "argv": ["gen", "--name-tpl", "{name}Cfg", "--input-mapping", P("inp.py"), "--imports-from-file", P("models.py"), "--parse", "class", "--emit", "argparse",
                             "-o", P("out.py")], "outputs": [F("out.py")]})
        out.append({"fn": "cli", "command": "gen", "label": "gen:input-mapping=" + st,
                    "files": {F("inp.py"): _hostile("inp", _CLS + "\n\n" + _FUN)}, "hostile": ["inp", "sub"],
                    "argv": ["gen", "--name-tpl", "{name}Cfg", "--input-mapping", P("inp.py"), "--emit", "json_schema" if st in ("bare", "sub") else "class", "-o", P("out.json")],
                    "outputs": [F("out.json")]})
        out.append({"fn": "cli", "command": "doctrans", "label": "doctrans:filename=" + st, "files": {F("mod.py"): _hostile("mod", _FUN + "\n\n" + _CLS)}, "hostile": ["mod", "sub"],
                    "argv": ["doctrans", "--filename", P("mod.py"), "--format", "google", "--type-annotations" if st in ("bare", "abs") else "--no-type-annotations"],
                    "outputs": [F("mod.py")]})
        out.append({"fn": "cli", "command": "sync_properties", "label": "sync_properties:input-filename+output-filename=" + st,
                    "files": {F("in.py"): _hostile("in", "X = 7\n\nclass A:\n    a: int = 9\n"), F("out.py"): _hostile("out", "class B:\n    a: int = 5\n")}, "hostile": ["in", "out", "sub"],
                    "argv": ["sync_properties", "--input-filename", P("in.py"), "--input-param", "A.a", "--output-filename", P("out.py"), "--output-param", "B.a"],
                    "outputs": [F("out.py")]})
        out.append({"fn": "cli", "command": "sync", "label": "sync:truth+targets=" + st, "truth": F("class.py"),
                    "files": {F("class.py"): _hostile("class", _CLS), F("function.py"): _hostile("function", _FUN), F("argparse_function.py"): _hostile("argparse", _ARGP)},
                    "hostile": ["class", "function", "argparse_function", "sub"],
                    "argv": ["sync", "--truth", "class", "--class", P("class.py"), "--class-name", "C", "--function", P("function.py"), "--function-name", "f",
                             "--argparse-function", P("argparse_function.py"), "--argparse-function-name", "set_cli_args"],
                    "outputs": [F("function.py"), F("argparse_function.py")]})
        out.append({"fn": "cli", "command": "gen_routes", "label": "gen_routes:model-path=" + st, "files": {F("models.py"): _hostile("models", _SQL)}, "hostile": ["models", "sub"],
                    "argv": ["gen_routes", "--crud", "CRD", "--app-name", "app", "--model-path", P("models.py"), "--model-name", "Tbl", "--routes-path", P("routes.py")],
                    "outputs": [F("routes.py")]})
    # gen --phase 1 / 2 rewrite the named file in place and resolve the symbols it imports
    fk_models = ("from sqlalchemy import Column, ForeignKey, Integer\nfrom %s import Other\n\n\nclass T(Base):\n    __tablename__ = 't'\n    id = Column(Integer, primary_key=True)\n"
                 "    other = Column(Other, ForeignKey('Other'), nullable=True)\n")
    other = "class Other(Base):\n    __tablename__ = 'other'\n    id = Column(Integer, primary_key=True)\n"
    out.append({"fn": "cli", "command": "gen", "label": "gen-phase2:from-import-of-dotted-module",
                "files": {"models.py": fk_models % "pwnpkg_c17x.other", "pwnpkg_c17x/__init__.py": _hostile("pkg", ""), "pwnpkg_c17x/other.py": other}, "hostile": ["pwnpkg_c17x"],
                "argv": ["gen", "--name-tpl", "{name}", "--input-mapping", "x", "--emit", "sqlalchemy", "-o", "models.py", "--phase", "2"], "outputs": ["models.py"]})
    out.append({"fn": "cli", "command": "gen", "label": "gen-phase2:from-import-of-top-level-module",
                "files": {"models.py": fk_models % "otherm_c17x", "otherm_c17x.py": _hostile("otherm", other)}, "hostile": ["otherm_c17x"],
                "argv": ["gen", "--name-tpl", "{name}", "--input-mapping", "x", "--emit", "sqlalchemy", "-o", "models.py", "--phase", "2"], "outputs": ["models.py"]})
    out.append({"fn": "cli", "command": "gen", "label": "gen-phase1:columns",
                "files": {"models.py": _hostile("models", fk_models % "otherm_c17x"), "otherm_c17x.py": _hostile("otherm", other)}, "hostile": ["otherm_c17x", "models"],
                "argv": ["gen", "--name-tpl", "{name}", "--input-mapping", "x", "--emit", "sqlalchemy", "-o", "models.py", "--phase", "1"], "outputs": ["models.py"]})
    return out


CLI_CONTROL = {"fn": "cli", "command": "sync_properties", "label": "control:sync_properties --input-eval", "control": True,
               "files": {"in.py": _hostile("in", "X = 7\n"), "out.py": "class B:\n    a: int = 5\n"}, "hostile": ["in"],
               "argv": ["sync_properties", "--input-filename", "in.py", "--input-param", "X", "--input-eval", "--output-filename", "out.py", "--output-param", "B.a"],
               "outputs": ["out.py"]}


# ======================================================================================================================
# the oracle over one observation record
# ======================================================================================================================
def _under(path: str, roots) -> bool:
    try:
        rp = os.path.realpath(path)
    except Exception:  # noqa
        return False
    return any(rp == r or rp.startswith(r.rstrip("/") + "/") for r in roots)


def judge(case, rec, meta, predict):
    """list of (sig, what) failures of the property on this observation; `predict(doc, name, none)` = model's adhoc output"""
    out = []
    fn = case.get("command") or case["fn"]  # CLI cases are labelled by their command (`sync`, `gen`, …)
    control = fn == "control_input_eval" or bool(case.get("control"))
    canaries = set(G.CANARY_MODULES) | set(case.get("hostile", []))
    if rec.get("skipped"):
        return out
    if rec.get("timeout"):
        return [({"kind": "hang", "fn": fn}, "the real %s call did not return (child process blocked, e.g. executed input waiting on stdin or a socket)" % fn)]
    if rec.get("crashed"):
        return [({"kind": "process-died", "fn": fn}, "the child process running the real %s call died (rc=%s): %s" % (fn, rec.get("rc"), rec.get("stderr", "")[-300:]))]
    tmp = rec["tmp"]
    roots = [os.path.realpath(p) for p in meta["prefixes"]]
    allowed = {os.path.realpath(a) for a in rec["allowed"]}
    repo = os.path.realpath(str(core.REPO))
    if rec.get("harness_error"):
        raise core.HarnessError("c17 case runner failed on %s: %s" % (fn, rec["harness_error"]))
    for e in rec["events"]:
        ev = e["ev"]
        if ev == "exec":
            cf_, caller = e["code_file"], e["caller_file"]
            caller_rel = os.path.realpath(caller)[len(repo) + 1:] if _under(caller, [repo]) else None
            in_cdd = caller_rel is not None and caller_rel.startswith("cdd/") and "/tests/" not in caller_rel
            if in_cdd:
                site = (caller_rel, e["caller_func"])
                if site == DOC_EVAL_SITE:
                    a = rec["adhoc"][e["adhoc_idx"]] if 0 <= e["adhoc_idx"] < len(rec["adhoc"]) else None
                    pred = predict(a["doc"], a["name"], a["none"]) if a is not None and isinstance(a["doc"], str) else None
                    if e["src"] is None or pred is None or pred.get("typ") != e["src"]:
                        out.append(({"kind": "exec-not-predicted", "site": "doc-eval"},
                                    "eval at the doc-derived site executed %r; the model predicts %r for parse_adhoc_doc_for_typ%r" % (
                                        e["src"], pred, (a["doc"], a["name"], a["none"]) if a else None)))
                elif site in OPT_IN_SITES and control:
                    pass  # the explicitly requested mode
                else:
                    out.append(({"kind": "exec-at-site", "site": "%s:%s" % site}, "code executed by %s:%s line %d (code object %s %s, source %r)" % (
                        caller_rel, e["caller_func"], e["caller_line"], cf_, e["code_name"], (e["src"] or "")[:200])))
            else:
                # library internals (import machinery, namedtuple, dataclasses …): the code must be installed code, never the analysed input
                installed = cf_.startswith("<frozen ") or (os.path.isabs(cf_) and _under(cf_, roots) and not _under(cf_, [tmp]))
                helper = (not os.path.isabs(cf_)) and (caller.startswith("<frozen ") or (_under(caller, roots) and not _under(caller, [tmp]))) and G.EVIL_MOD not in (e["src"] or "") and "PWNED" not in (e["src"] or "")
                if control and _under(cf_, [tmp]):
                    continue
                if not (installed or helper):
                    sig = {"kind": "exec-foreign-code", "site": "library"}
                    if _under(cf_, [tmp]):
                        sig["code"] = os.path.realpath(cf_)[len(os.path.realpath(tmp)) + 1:]
                    out.append((sig, "code object %s (%s) executed from %s:%s, source %r" % (cf_, e["code_name"], caller, e["caller_func"], (e["src"] or "")[:200])))
        elif ev == "import":
            if e["name"].split(".")[0] in canaries and not control:
                out.append(({"kind": "import-from-input", "module": e["name"]}, "module %r — a file the command was only to read, or a name found only inside it — was imported" % e["name"]))
        elif ev == "open-write":
            if os.path.realpath(e["path"]) not in allowed and not (control and _under(e["path"], [tmp])):
                which = "truth-file" if rec.get("truth_file") and os.path.realpath(e["path"]) == os.path.realpath(rec["truth_file"]) else "other"
                out.append(({"kind": "write-outside-output", "fn": fn, "which": which},
                            "opened %r for writing (mode %r)%s; named outputs: %s" % (e["path"], e["mode"], " — the file given as the source of truth" if which == "truth-file" else "",
                                                                                       sorted(rec["allowed"]))))
        elif ev == "hook-error":
            raise core.HarnessError("audit hook failed: %s" % e["args"])
        else:
            if control:
                continue
            kind = "process" if ev.startswith(("subprocess", "os.system", "os.exec", "os.fork", "os.posix_spawn", "os.spawn", "pty")) else \
                "network" if ev.startswith(("socket", "urllib", "ftplib", "smtplib", "http.client", "poplib", "imaplib", "nntplib", "telnetlib", "webbrowser")) else \
                "unpickle" if ev.startswith("pickle") else "fs-change" if ev.startswith(("os.", "shutil", "tempfile")) else "other"
            out.append(({"kind": "event-" + kind, "event": ev}, "audit event %s%s during %s" % (ev, e["args"], fn)))
    executed = any(sig["kind"] in ("exec-foreign-code", "import-from-input") for sig, _ in out)
    if case["fn"] == "cli":
        # the marker file and the write that created it are consequences of an execution already reported with its code object / module
        if executed:
            out = [(sig, w) for sig, w in out if not (sig["kind"] == "write-outside-output" and "PWNED" in w)]
    if not control and not (case["fn"] == "cli" and executed):
        if rec["sentinel"]:
            out.append(({"kind": "sentinel-created", "fn": fn}, "the sentinel file named only inside the analysed input was created during %s" % fn))
        if rec["stray_files"]:
            out.append(({"kind": "stray-file", "fn": fn}, "files other than the named output appeared: %s" % rec["stray_files"]))
        if rec["canary_loaded"]:
            out.append(({"kind": "import-from-input", "module": rec["canary_loaded"][0]}, "canary module(s) %s loaded during %s" % (rec["canary_loaded"], fn)))
    if case["fn"] == "cli":
        for sig, _ in out:
            sig["cli"] = case["label"]
    return out


# ======================================================================================================================
# case generation for the runtime oracle
# ======================================================================================================================
def gen_runtime_cases(rng, toks, n: int):
    cases = []
    kinds = ["docstring"] * 5 + ["module"] * 4 + ["module_sql", "module_pyd", "json_schema", "ir_emit", "ir_emit", "doctrans", "doctrans", "sync_properties", "sync",
                                                  "gen", "gen", "bottle", "bottle", "fastapi", "openapi", "openapi", "openapi_bulk"]
    for _ in range(n):
        k = rng.choice(kinds)
        if k == "docstring":
            cases.append({"fn": "docstring", "doc": G.adv_docstring(rng, toks), "opts": {"infer_type": rng.random() < 0.3, "pow": rng.random() < 0.2,
                                                                                       "edd": rng.random() < 0.7, "ww": rng.random() < 0.7, "emit_all": rng.random() < 0.3}})
        elif k == "module":
            src, names = G.adv_module(rng, toks, kinds=tuple(rng.sample(["function", "class", "argparse"], rng.randint(1, 3))))
            cases.append({"fn": "module", "src": src, "names": names, "opts": {"infer_type": rng.random() < 0.3, "merge": rng.choice([None, "__call__"]),
                                                                           "ww": rng.random() < 0.7, "skip_black": rng.random() < 0.3}})
        elif k == "module_sql":
            src, names = G.adv_module(rng, toks, kinds=("sqlalchemy",))
            if rng.random() < 0.3 and "class Tbl" in src:
                names = {"sqlalchemy_hybrid": "Tbl"}
            cases.append({"fn": "module", "src": src, "names": names, "opts": {}})
        elif k == "module_pyd":
            src, names = G.adv_module(rng, toks, kinds=("pydantic",))
            cases.append({"fn": "module", "src": src, "names": names, "opts": {}})
        elif k == "json_schema":
            cases.append({"fn": "json_schema", "schema": G.adv_json_schema(rng, toks)})
        elif k == "ir_emit":
            cases.append({"fn": "ir_emit", "ir": G.adv_ir(rng, toks)})
        elif k == "doctrans":
            src, _ = G.adv_module(rng, toks, kinds=tuple(rng.sample(["function", "class", "argparse"], rng.randint(1, 3))))
            cases.append({"fn": "doctrans", "src": src, "opts": {"format": rng.choice(["rest", "google", "numpydoc"]), "ta": rng.random() < 0.5,
                                                               "nww": rng.choice([None, True])}})
        elif k == "sync_properties":
            src_in = "\n".join(rng.sample(G.MODULE_PRELUDE, 2)) + "\nX = %s\n\nclass A:\n    a: %s = %s\n" % (rng.choice(G.PAYLOADS), G._expr(rng), G._expr(rng))
            src_out, _ = G.adv_module(rng, toks, kinds=("class",))
            src_out += "\nclass B:\n    a: int = 5\n\ndef h(a: int = 3):\n    pass\n"
            ip, op = rng.choice([("X", "B.a"), ("A.a", "B.a"), ("A.a", "h.a"), ("X", "h.a")])
            cases.append({"fn": "sync_properties", "src_in": src_in, "src_out": src_out, "input_params": [ip], "output_params": [op],
                          "opts": {"wrap": rng.choice([None, None, "Optional[{output_param}]"])}})
        elif k == "sync":
            srcs = {"class": G.adv_module(rng, toks, kinds=("class",))[0], "function": G.adv_module(rng, toks, kinds=("function",))[0],
                    "argparse_function": G.adv_module(rng, toks, kinds=("argparse",))[0]}
            cases.append({"fn": "sync", "src": srcs, "truth": rng.choice(["class", "function", "argparse_function"])})
        elif k == "gen":
            kinds_ = tuple(rng.sample(["function", "class", "argparse"], rng.randint(1, 2)))
            src, _ = G.adv_module(rng, toks, kinds=kinds_)
            cases.append({"fn": "gen", "src": src, "opts": {"parse": rng.choice(["infer", "class", "function", "class", "function", "argparse_function"]),
                                                          "emit": rng.choice(["class", "argparse", "function", "json_schema", "sqlalchemy", "sqlalchemy_table", "pydantic"]),
                                                          "emit_call": rng.random() < 0.3, "infer_imports": rng.random() < 0.3, "nww": rng.choice([None, True])}})
        elif k == "bottle":
            cases.append({"fn": "bottle", "src": G.adv_bottle_src(rng, toks)})
        elif k == "fastapi":
            cases.append({"fn": "fastapi", "src": G.adv_fastapi_src(rng, toks)})
        elif k == "openapi":
            cases.append({"fn": "openapi", "openapi_str": G.adv_yaml_block(rng), "opts": {"method": rng.choice(["get", "post", "patch"])}})
        else:
            mild = rng.random() < 0.7  # hostile text only inside strings, so that the walk over the model file gets as far as the routes
            src_models = G.adv_sqlalchemy_src(rng, toks, calls=not mild) if mild else G.adv_module(rng, toks, kinds=("sqlalchemy",))[0]
            cases.append({"fn": "openapi_bulk", "src_models": src_models,
                          "src_routes": "\n\n".join(G.adv_bottle_src(rng, toks, fname="r%d" % i, benign_yaml=mild and rng.random() < 0.7).replace("rest_api", "app")
                                                    for i in range(rng.randint(1, 3)))})
    return cases


CONTROL_CASE = {"fn": "control_input_eval", "src_in": "import %s\n__import__('os').system('true')\nopen(%r, 'w').write('x')\nX = 5\n" % (G.EVIL_MOD, G.SENT),
                "src_out": "class B:\n    a: int = 1\n", "input_params": ["X"], "output_params": ["B.a"], "opts": {}}
# the shortest witnesses of each channel, always run (they are also the regression corpus of the oracle)
FIXED_CASES = [
    {"fn": "docstring", "doc": "\n:param a: List of `os.system` or `open('@SENTINEL@','w')`. Defaults to __import__('os').system('touch @SENTINEL@')\n"
                                 ":type a: ```__import__('os').system('touch @SENTINEL@')```\n:param b: one of 'a', 'b' or 'c'\n:param c: int or str. Defaults to 5\n", "opts": {"emit_all": True}},
    {"fn": "docstring", "doc": "\n:param a: `%s.go` or `this` or `wave.open`\n:param b: sys.modules['os'].system or quit or exit\n:param c: `sys.exit` or None\n" % G.EVIL_MOD, "opts": {}},
    {"fn": "module", "src": "import %s\nopen('@SENTINEL@','w')\n\ndef f(a=__import__('os').system('touch @SENTINEL@'), b: open('@SENTINEL@','w') = 5):\n"
                            "    \"\"\"\n    :param a: x or y. Defaults to exec('import %s')\n    :param b: `eval` of `exec`\n    \"\"\"\n    return exec('import %s')\n" % ((G.EVIL_MOD,) * 3),
     "names": {"function": "f"}, "opts": {"infer_type": True}},
    {"fn": "openapi", "openapi_str": "responses:\n  '200':\n    description: !!python/object/apply:os.system ['touch @SENTINEL@']\n", "opts": {}},
    {"fn": "openapi", "openapi_str": "!!python/module:%s" % G.EVIL_MOD, "opts": {}},
    {"fn": "bottle", "src": "@app.get('/api')\ndef r():\n    \"\"\"\n    x\n\n    ```yml\n    responses:\n      '200': !!python/object/apply:os.system ['touch @SENTINEL@']\n    ```\n    \"\"\"\n"},
    {"fn": "sync_properties", "src_in": "import %s\nopen('@SENTINEL@','w')\nX = __import__('os').system('touch @SENTINEL@')\n" % G.EVIL_MOD,
     "src_out": "class B:\n    a: int = 5\n", "input_params": ["X"], "output_params": ["B.a"], "opts": {}},
    {"fn": "doctrans", "src": "import %s\nopen('@SENTINEL@','w')\n\ndef f(a=open('@SENTINEL@','w')):\n    \"\"\"\n    :param a: int or str\n    :type a: ```exec('import %s')```\n    \"\"\"\n"
                              % (G.EVIL_MOD, G.EVIL_MOD), "opts": {"format": "google", "ta": True}},
    {"fn": "gen", "src": "import %s\nopen('@SENTINEL@','w')\n\nclass C(object):\n    \"\"\"\n    :cvar a: x or y. Defaults to open('@SENTINEL@','w')\n    \"\"\"\n    a: int = open('@SENTINEL@','w')\n" % G.EVIL_MOD,
     "opts": {"parse": "class", "emit": "argparse"}},
    # witness of the known finding C17-sync-rewrites-truth (benign input: the truth file itself is rewritten)
    {"fn": "sync", "truth": "class", "src": {
        "class": "class C(object):\n    \"\"\"\n    Doc.\n\n    :cvar a: the thing\n    \"\"\"\n\n    a: int = 5\n",
        "function": "def f(a=5):\n    \"\"\"\n    Doc.\n\n    :param a: the thing\n    :type a: ```int```\n    \"\"\"\n",
        "argparse_function": "def set_cli_args(argument_parser):\n    \"\"\"\n    Set CLI arguments\n\n    :param argument_parser: argument parser\n"
                             "    :type argument_parser: ```ArgumentParser```\n\n    :return: argument_parser\n    :rtype: ```ArgumentParser```\n    \"\"\"\n"
                             "    argument_parser.description = \"Doc.\"\n    argument_parser.add_argument(\"--a\", type=int, help=\"the thing\", required=True, default=5)\n"
                             "    return argument_parser\n"}},
]


# ======================================================================================================================
def run(chk: core.Check) -> int:
    rng = chk.rng
    import time

    t_sections, t_last = {}, [time.time()]

    def _t(name):
        now = time.time()
        t_sections[name] = round(now - t_last[0], 1)
        t_last[0] = now

    # ---- (0) translator, table, theorems -----------------------------------------------------------------------------
    sites, tables, _ = evalsites.regen()
    ok, detail = evalsites.selftest()
    chk.oblige("translator self-test (harness/translators/evalsites.py on two small modules with 47 known sites, aliases and star imports)", "translator", ok, detail)
    chk.lean(MODULE, THEOREMS)
    by_kind = {}
    for s in sites:
        by_kind[s["kind_name"]] = by_kind.get(s["kind_name"], 0) + 1
    chk.coverage["eval_sites_by_kind"] = by_kind
    chk.coverage["eval_sites"] = [{k: s[k] for k in ("file", "line", "func", "kind_name", "api", "expr")} for s in sites]
    chk.trusted_base += [
        "translator harness/translators/evalsites.py: enumerates references (after import-alias resolution, one hop of `name = …` aliases, getattr(import_module(c), c')) to "
        "eval/exec/compile/__import__/importlib/literal_eval/pickle-likes/yaml/subprocess/os process+fs calls/network modules/shutil/tempfile/open with write or non-constant mode "
        "in non-test code, plus every call of (or reference to) a project function that hands one of its parameters to a dynamic import / find_spec / eval / exec / compile / unsafe site "
        "or to another such wrapper (fixpoint over all non-test modules; a call of another function on the way is taken as a sanitising barrier) (%d sites this run); names reached through containers, `globals()[...]`, string-built attribute access or C extensions are not followed; "
        "the reviewed classes in Properties/C17.lean (`registry`) are a human reading of each site" % len(sites),
        "model lean/CddVerif/Model/Adhoc.lean (safe-by-type port of parse_adhoc_doc_for_typ) tied to the real function by exact comparison of results / exception classes, "
        "its tables and word_chars tied to the source text by C17.tables_match / C17.word_chars_match (regenerated every run)",
        "eval_arg_safe bounds the *alphabet* of the evaluated string; that an expression over this alphabet (names, attribute access, subscription, `/`, `|`, string literals) "
        "has no harmful side effect on the objects reachable from docstring_parsers' globals is not proved — it is watched by the audit-hook oracle on every generated case",
        "CLI oracle: every file-taking option of gen / doctrans / sync / sync_properties / gen_routes / gen --phase 1,2 is run as `python -m cdd …` semantics (runpy of cdd.__main__, cwd first on "
        "sys.path, cwd = the directory of the marker-writing files) with the file spelled bare, ./name, sub/name and absolute; black's own import-time probe of its cache directory "
        "(BLACK_CACHE_DIR, private per case) is filtered; `openapi` is not run this way (its --model-paths is iterated character by character and never reaches a parser)",
        "runtime oracle: CPython audit events (PEP 578) as raised by this interpreter; effects that raise no audit event (pure C extensions) are only seen through sentinel files; "
        "non-BMP characters are not generated (JSON transport to the Lean driver)",
    ]
    have_driver = core.DRIVER.exists()
    if have_driver:
        c = core.model_batch([{"op": "c17.constants"}])[0]
        chk.oblige("driver: model constants survive the safe-by-type representation unchanged (%s constants)" % c.get("n"), "correspondence", bool(c.get("lossless")), json.dumps(c))

    _t("translator+lean")
    # ---- (1) correspondence: parse_adhoc_doc_for_typ ------------------------------------------------------------------
    rt = real_tables()
    toks = G.adhoc_tokens(rt)
    chk.coverage["adhoc_token_alphabet"] = len(toks)
    cases, seen = [], set()

    def add(doc, name=None, flag=None):
        key = (doc, name, flag)
        if key in seen:
            return
        seen.add(key)
        cases.append((doc, rng.choice(G.ADHOC_NAMES) if name is None else name, (rng.random() < 0.4) if flag is None else flag))

    corpus_rt = []
    for f in sorted((core.VERIF / "corpus" / "C17").glob("*.json")):  # minimised past failures / disagreements, run first
        c = json.loads(f.read_text())
        c = c.get("replay", c)
        if c.get("fn") == "adhoc":
            add(c["doc"], c.get("name", "a"), bool(c.get("default_is_none")))
        elif c.get("fn") == "runtime":
            corpus_rt.append(c["case"])
    for t in toks:
        add(t)
    small = [t for t in toks if len(t) <= 12]
    core_toks = [" ", ",", ".", ";", "`", "'", '"', "or", "of", "List", "Dictionary", "int", "None", "a", "1", "(", ")", "/", "os.system", "open('x')", "__import__",
                 "user's", ", default", "True", "if", "\xa0", "\u2028", "=", ":", "_"]
    for a, b in itertools.product(small, repeat=2):
        if chk.quick and rng.random() > 0.25:
            continue
        add(a + b)
    for t in itertools.product(core_toks, repeat=3):
        if chk.quick and rng.random() > 0.35:
            continue
        add("".join(t))
    if not chk.quick:
        for t in itertools.product(core_toks[:22], repeat=4):
            if rng.random() < 0.5:
                add("".join(t))
    for _ in range(40000 if chk.quick else 500000):
        add(G.adhoc_sentence(rng, toks))
    for _ in range(20000 if chk.quick else 250000):
        add(G.adhoc_random(rng, toks))
    impl = core.pmap(impl_adhoc, cases, chunksize=512)
    model = core.model_batch([{"op": "c17.adhoc", "doc": d, "name": n, "none": f} for d, n, f in cases]) if have_driver else [None] * len(cases)
    n_dis, outcomes, chars = 0, {}, {}
    typed = []
    for (d, n, f), r, m in zip(cases, impl, model):
        nontrivial = r.get("typ") is not None
        chk.count(("adhoc", d, f), nontrivial)
        key = "type" if nontrivial else ("none" if "typ" in r else "raises:" + r["raises"])
        outcomes[key] = outcomes.get(key, 0) + 1
        if nontrivial:
            typed.append(((d, n, f), r["typ"]))
            for ch in r["typ"]:
                chars[ch] = chars.get(ch, 0) + 1
        if m is not None and m != r:
            n_dis += 1
            chk.disagreement("C17 correspondence: parse_adhoc_doc_for_typ", {"doc": d, "name": n, "default_is_none": f}, r, m)
    chk.oblige("correspondence: parse_adhoc_doc_for_typ = Adhoc.adhocStr on %d adversarial descriptions (%d return a type)" % (len(cases), outcomes.get("type", 0)),
               "correspondence", n_dis == 0 and have_driver, "%d disagreements" % n_dis)
    chk.coverage["adhoc_outcomes"] = outcomes
    chk.coverage["adhoc_output_alphabet"] = "".join(sorted(chars))
    # the property's oracle on the real outputs: SafeAlphabet (the model's definition, evaluated by the driver)
    if have_driver and typed:
        safe = core.model_batch([{"op": "c17.safe", "s": t} for _, t in typed])
        for ((d, n, f), t), s in zip(typed, safe):
            if not s.get("safe"):
                chk.failure({"kind": "unsafe-eval-arg", "chars": "".join(sorted(set(s.get("bad", ""))))[:8]},
                            "parse_adhoc_doc_for_typ(%r, %r, %r) returned %r: characters %r are outside SafeAlphabet and reach eval()" % (d, n, f, t, s.get("bad")),
                            {"fn": "adhoc", "doc": d, "name": n, "default_is_none": f})
    for (d, n, f), t in typed[:3]:
        chk.sample({"doc": d, "default_is_none": f, "eval_argument": t})
    adv = [x for x in typed if "(" in x[0][0] and "__" in x[0][0]]
    for (d, n, f), t in adv[:3]:
        chk.sample({"doc": d, "default_is_none": f, "eval_argument": t})

    _t("adhoc correspondence")
    # ---- (2) correspondence: phase 0, every character class ----------------------------------------------------------
    p0 = []
    cps = list(range(0, 0x3100)) + [0xFEFF, 0xFF08, 0xFF09, 0xFF3F, 0xFF40, 0xFFFD]
    for cp in cps:
        if 0xD800 <= cp <= 0xDFFF:
            continue
        ch = chr(cp)
        p0 += ["x" + ch + "y", ch, "a." + ch + "b or c", "`" + ch + ". d of e",
               # the same character after an opened quote / backtick / bracket (a scanner with lexical state would treat it differently)
               "'" + ch + "b' or c", '"' + ch + ' or d"', "it's " + ch + "x or y", "(" + ch + ") of `" + ch + "`"]
    for d, _, _ in rng.sample(cases, min(len(cases), 3000 if chk.quick else 30000)):
        p0.append(d)
    p0 = list(dict.fromkeys(p0))
    impl0 = core.pmap(impl_phase0, p0, chunksize=1024)
    model0 = core.model_batch([{"op": "c17.phase0", "doc": d} for d in p0]) if have_driver else [None] * len(p0)
    n_dis = 0
    for d, r, m in zip(p0, impl0, model0):
        chk.count(("phase0", d), len(r.get("words", [])) > 1)
        if m is not None and m != r:
            n_dis += 1
            chk.disagreement("C17 correspondence: _parse_adhoc_doc_for_typ_phase0", {"doc": d}, r, m)
    chk.oblige("correspondence: _parse_adhoc_doc_for_typ_phase0 = Adhoc.phase0 on %d strings (every code point below U+3100 in eight contexts)" % len(p0),
               "correspondence", n_dis == 0 and have_driver, "%d disagreements" % n_dis)

    _t("phase0 correspondence")
    # ---- (3) runtime oracle on the real code ----------------------------------------------------------------------------
    rcases = [CONTROL_CASE] + FIXED_CASES + corpus_rt + gen_runtime_cases(rng, toks, 1200 if chk.quick else 20000)
    recs, meta = run_children(rcases, timeout=150 if chk.quick else 900)
    if not meta["bound_ok"]:
        chk.oblige("docstring_parsers.parse_adhoc_doc_for_typ is the function of parse_utils (profile sees every call)", "correspondence", False,
                   "the name used at the eval site is bound to a different function")
    if meta["pre_loaded"]:
        raise core.HarnessError("canary modules already loaded before any case: %s" % meta["pre_loaded"])
    # the control: the explicitly requested --input-eval mode must be *seen* by the oracle (liveness of hook, sentinel and attribution)
    ctl = recs[0]
    ctl_exec = [e for e in ctl["events"] if e["ev"] == "exec" and e["caller_func"] == "sync_property"]
    ctl_seen = {"sentinel file": ctl["sentinel"], "exec attributed to sync_property": bool(ctl_exec),
                "canary import event": any(e["ev"] == "import" and e["name"] == G.EVIL_MOD for e in ctl["events"]),
                "os.system event": any(e["ev"] == "os.system" for e in ctl["events"]),
                "write event outside the output": any(e["ev"] == "open-write" and e["path"].endswith("PWNED") for e in ctl["events"])}
    if not all(ctl_seen.values()):
        raise core.HarnessError("control case (sync_properties --input-eval on a hostile module) was not fully observed: %s steps=%s" % (ctl_seen, ctl["steps"]))
    _t("runtime oracle (in-process calls)")
    # the same commands the way a user starts them: `python -m cdd …` from the directory holding the hostile files
    ccases = [CLI_CONTROL] + cli_cases()
    crecs = run_cli_cases(ccases)
    cctl = crecs[0]
    if not (cctl.get("sentinel") and any(e["ev"] == "exec" and e["caller_func"] == "sync_property" for e in cctl["events"])):
        raise core.HarnessError("CLI control (python -m cdd sync_properties --input-eval on a marker-writing file) was not observed: %s" % json.dumps(cctl)[:600])
    chk.coverage["cli_cases"] = {c["label"]: r["steps"][0][1] if r.get("steps") else ("timeout" if r.get("timeout") else "crashed") for c, r in zip(ccases, crecs)}
    rcases = rcases + ccases
    recs = recs + crecs
    _t("runtime oracle (python -m cdd)")
    # model predictions for every captured in-situ call of parse_adhoc_doc_for_typ
    calls, idx = [], {}
    for rec in recs:
        for a in rec["adhoc"]:
            if isinstance(a["doc"], str):
                key = (a["doc"], a["name"] if isinstance(a["name"], str) else "", bool(a["none"]))
                if key not in idx:
                    idx[key] = len(calls)
                    calls.append(key)
    preds = core.model_batch([{"op": "c17.adhoc", "doc": d, "name": n, "none": f} for d, n, f in calls]) if have_driver else []

    def predict(doc, name, none):
        k = idx.get((doc, name if isinstance(name, str) else "", bool(none)))
        return preds[k] if k is not None and preds else None

    n_dis, n_exec_doc, n_insitu = 0, 0, 0
    step_stats, fn_stats = {}, {}
    for case, rec in zip(rcases, recs):
        fails = judge(case, rec, meta, predict)
        n_exec = sum(1 for e in rec["events"] if e["ev"] == "exec" and e["caller_func"] == DOC_EVAL_SITE[1])
        n_exec_doc += n_exec
        chk.count(("runtime", json.dumps(case, sort_keys=True)), n_exec > 0 or any(s[1] == "ok" for s in rec["steps"]))
        fn_stats[case["fn"] if case["fn"] != "cli" else "cli:" + case["command"]] = fn_stats.get(case["fn"] if case["fn"] != "cli" else "cli:" + case["command"], 0) + 1
        for label, st in rec["steps"]:
            k = label.split(">")[-1] + ":" + ("ok" if st == "ok" else "raises")
            step_stats[k] = step_stats.get(k, 0) + 1
        for sig, what in fails:
            chk.failure(sig, what, {"fn": "runtime", "case": case})
        # in-situ correspondence: what the real function returned inside the real parser = model
        for a in rec["adhoc"]:
            if isinstance(a["doc"], str) and a["ret"] != "<pending>":
                n_insitu += 1
                p = predict(a["doc"], a["name"], a["none"])
                if p is not None and "typ" in p and p["typ"] != a["ret"] and not (p["typ"] is None and a["ret"] is None):
                    n_dis += 1
                    chk.disagreement("C17 correspondence: parse_adhoc_doc_for_typ as called by the real parsers", {"doc": a["doc"], "name": a["name"], "default_is_none": a["none"]},
                                     {"typ": a["ret"]}, p)
    chk.oblige("correspondence: %d in-situ calls of parse_adhoc_doc_for_typ (captured inside the real parsers) = model; %d doc-derived eval executions all equal the model's prediction"
               % (n_insitu, n_exec_doc), "correspondence", n_dis == 0 and have_driver, "%d disagreements" % n_dis)
    _t("runtime oracle (judging)")
    chk.coverage["section_seconds"] = t_sections
    chk.coverage["runtime_cases_by_fn"] = fn_stats
    chk.coverage["runtime_steps"] = dict(sorted(step_stats.items()))
    chk.coverage["runtime_doc_eval_executions"] = n_exec_doc
    chk.coverage["runtime_control"] = "sync_properties(input_eval=True) on a hostile module — every channel observed (%s); allowed: it is the stated exception" % ", ".join(sorted(ctl_seen))
    ex = next((r for r in recs[1:] if any(e["ev"] == "exec" and e["caller_func"] == DOC_EVAL_SITE[1] for e in r["events"])), None)
    if ex is not None:
        e = next(e for e in ex["events"] if e["ev"] == "exec" and e["caller_func"] == DOC_EVAL_SITE[1])
        chk.sample({"runtime": "doc-derived eval observed", "source_executed": e["src"], "adhoc_call": ex["adhoc"][e["adhoc_idx"]]}, limit=8)
    return chk.finish("adhoc: every token, sampled pairs/triples and random sequences over a %d-token adversarial alphabet (trigger words from the live tables, quotes, stray apostrophes, "
                      "backticks, separators, brackets, call expressions, dunder chains, non-ASCII whitespace and look-alikes) + sentence grammar; non-trivial = a type string is returned "
                      "(it reaches eval). runtime: adversarial docstrings / modules / schemas / YAML through parsers, all emitters, doctrans, sync, sync_properties, gen-from-file, "
                      "bottle / fastapi / openapi parsers in audit-hooked child processes, and the CLI commands started from the directory of marker-writing files with every spelling of the file arguments; non-trivial = the real call got past parsing or reached the doc-derived eval" % len(toks))


def replay(path: str) -> int:
    d = json.loads(Path(path).read_text())
    rp = d.get("replay") or {}
    if rp.get("fn") == "adhoc":
        r = impl_adhoc((rp["doc"], rp["name"], rp["default_is_none"]))
        m = core.model_batch([{"op": "c17.adhoc", "doc": rp["doc"], "name": rp["name"], "none": rp["default_is_none"]}])[0]
        s = core.model_batch([{"op": "c17.safe", "s": r.get("typ") or ""}])[0]
        print("replay adhoc: real %r, model %r, outside SafeAlphabet: %r" % (r, m, s.get("bad")))
        return 0 if (r == m and s.get("safe")) else 1
    if rp.get("fn") == "runtime":
        case = rp["case"]
        recs, meta = run_children([CONTROL_CASE, case] if case["fn"] != "cli" else [CONTROL_CASE], nproc=1)
        rec = recs[1] if case["fn"] != "cli" else run_cli_cases([case])[0]
        calls = [(a["doc"], a["name"] if isinstance(a["name"], str) else "", bool(a["none"])) for a in rec["adhoc"] if isinstance(a["doc"], str)]
        preds = core.model_batch([{"op": "c17.adhoc", "doc": x, "name": n, "none": f} for x, n, f in calls]) if calls else []
        table = dict(zip(calls, preds))
        fails = judge(case, rec, meta, lambda doc, name, none: table.get((doc, name if isinstance(name, str) else "", bool(none))))
        for sig, what in fails:
            print("replay runtime:", sig, what)
        print("replay runtime: %d failure(s); steps %s" % (len(fails), rec["steps"]))
        return 1 if fails else 0
    # a broken obligation without failing input: re-run the first disagreeing case if there is one
    for b in d.get("no_longer_checks", []) + d.get("broken", []):
        if b.get("kind") == "correspondence" and "case" in (b.get("detail") or ""):
            try:
                c = json.loads(b["detail"])["case"]
            except Exception:  # noqa
                continue
            if "doc" in c and "name" in c:
                r = impl_adhoc((c["doc"], c["name"], c.get("default_is_none", False)))
                m = core.model_batch([{"op": "c17.adhoc", "doc": c["doc"], "name": c["name"], "none": c.get("default_is_none", False)}])[0]
                print("replay correspondence: real %r, model %r" % (r, m))
                return 0 if r == m else 1
    print("replay: nothing to re-run in %s" % path)
    return 0
