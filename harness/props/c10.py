"""C10 — output is a deterministic function of the input alone (DESIGN.md §4 C10)."""
from __future__ import annotations

import concurrent.futures as cf
import copy
import json
import os
import subprocess
from pathlib import Path

from harness import core
from harness.translators.setiter import scan, to_lean

MODULE = "CddVerif.Properties.C10"
THEOREMS = ["C10.merge_deterministic", "C10.merge_order_spec", "C10.pinned_order_sensitive", "C10.all_order_leaks_registered"]
BATCH = str(core.VERIF / "harness" / "impl" / "c10_batch.py")


def enc_default(v):
    if v is None:
        return None
    if isinstance(v, str):
        return "s:" + v
    return "%s:%r" % (type(v).__name__[0], v)


def enc_dict(d):
    return [[k, {"typ": v.get("typ"), "doc": v.get("doc"), "default": enc_default(v.get("default"))}] for k, v in d.items()]


def impl_merge(case):
    from cdd.shared.parse.utils.parser_utils import merge_params

    other, target = copy.deepcopy(case[0]), copy.deepcopy(case[1])
    from collections import OrderedDict

    r = merge_params(OrderedDict(other), OrderedDict(target))
    return enc_dict(r)


def gen_param(r):
    p = {}
    if r.random() < 0.7:
        p["typ"] = r.choice(["int", "str", "float", "bool", "Optional[int]", "List[str]", "np.ndarray", None])
    if r.random() < 0.7:
        p["doc"] = r.choice(["", "the thing", "other doc", None])
    if r.random() < 0.6:
        p["default"] = r.choice([None, "None", "```(None)```", 0, 5, "foo", 1.5, True])
    return p


JOIN_MODULE = "CddVerif.Properties.C10Join"
JOIN_THEOREMS = ["C10Join." + t for t in ["join_empty_primacy", "join_empty_other", "join_value_spec", "join_primacy_wins", "join_other_fills", "join_none_stays", "join_get", "join_wf",
                                          "join_map_indep", "join_keys_perm", "join_sameMap", "join_keys_spec", "join_order_differs_iff", "join_eq_of_keys_eq",
                                          "join_deterministic_of_le_one_fresh", "join_order_witness", "irMergeReturns_order_witness", "reader_indep", "irMergeReturns_sameMap",
                                          "irMergeReturns_no_oracle", "mergePresentD_toParam", "mergePresent_other_joined", "mergePresent_target_joined",
                                          "mergePresent_target_order_witness"]]
JOIN_KEYS = ["name", "typ", "doc", "default", "required", "x", "y", "z", "", "Typ"]
JOIN_VALS = [None, None, None, "int", "str", "", "the thing", 0, 5, 1.5, True, False, "None", [], [1], ("a",), {}]


def _jenc(v):
    return None if v is None else "%s:%r" % (type(v).__name__, v)


def impl_join(case):
    """the real _join_non_none with the frozenset's iteration order FORCED (the builtin name is shadowed in the module's globals for the call)"""
    import copy

    import cdd.class_.parse  # noqa: F401
    import cdd.shared.parse.utils.parser_utils as pu

    p, o, order = case
    p, o = copy.deepcopy(p), copy.deepcopy(o)

    def forced(it):
        have = list(dict.fromkeys(it))
        return [k for k in order if k in have] + [k for k in have if k not in order]

    pu.frozenset = forced
    try:
        r = pu._join_non_none(p, o)
    except Exception as e:  # noqa
        return {"raises": core.exc_name(e)}
    finally:
        del pu.frozenset
    return {"joined": [[k, _jenc(v)] for k, v in r.items()]}


def join_stream(chk, rng):
    """_join_non_none (the set iteration inside ir_merge): model = real for forced iteration orders; the result as a MAP must not depend on the order"""
    import copy

    n = 1500 if chk.quick else 20000
    cases = []
    for _ in range(n):
        p = {k: copy.deepcopy(rng.choice(JOIN_VALS)) for k in rng.sample(JOIN_KEYS, rng.randint(0, 6))}
        o = {k: copy.deepcopy(rng.choice(JOIN_VALS)) for k in rng.sample(JOIN_KEYS, rng.randint(0, 6))}
        ks = list(dict.fromkeys(list(p) + list(o)))
        o1, o2 = ks[:], ks[:]
        rng.shuffle(o1)
        rng.shuffle(o2)
        cases.append((p, o, o1))
        cases.append((p, o, o2))
    real = core.pmap(impl_join, cases)
    model = core.model_batch([{"op": "c10.join", "primacy": [[k, _jenc(v)] for k, v in p.items()], "other": [[k, _jenc(v)] for k, v in o.items()], "order": order} for p, o, order in cases]) \
        if core.DRIVER.exists() else None
    n_dis = n_order = 0
    for i, (case, r) in enumerate(zip(cases, real)):
        fresh = [k for k in case[1] if k not in case[0] and case[1][k] is not None]
        chk.count(("join", json.dumps([list(case[0].items()), list(case[1].items()), case[2]], default=repr)), len(fresh) >= 2 and bool(case[0]))
        if model is not None and model[i].get("joined") != r.get("joined"):
            n_dis += 1
            chk.disagreement("C10 correspondence: _join_non_none (forced set order)", {"primacy": [[k, _jenc(v)] for k, v in case[0].items()], "other": [[k, _jenc(v)] for k, v in case[1].items()], "order": case[2]}, r, model[i])
        if i % 2 == 1 and "joined" in r and "joined" in real[i - 1]:
            a, b = real[i - 1]["joined"], r["joined"]
            if sorted(map(json.dumps, a)) != sorted(map(json.dumps, b)):
                chk.failure({"kind": "join-map-depends-on-set-order"}, "_join_non_none returns different mappings for two iteration orders of the same key set: %s vs %s" % (a, b),
                            {"fn": "join", "primacy": list(case[0].items()), "other": list(case[1].items()), "orders": [cases[i - 1][2], case[2]]})
            n_order += a != b
    chk.coverage["join_pairs_whose_key_order_differs_between_two_set_orders"] = n_order
    chk.oblige("correspondence: _join_non_none = JoinNonNone.join under forced set iteration orders on %d calls (key order and values)" % len(cases), "correspondence",
               n_dis == 0 and model is not None, "%d disagreements" % n_dis)


def run_batch(seed, n, mode, hashseed):
    env = dict(os.environ, PYTHONHASHSEED=str(hashseed), PYTHONPATH=str(core.REPO))
    p = subprocess.run([core.PY, BATCH, str(seed), str(n), mode], stdout=subprocess.PIPE, stderr=subprocess.PIPE, text=True, env=env, timeout=1200)
    if p.returncode != 0:
        return {"error": p.stderr[-1500:]}
    return json.loads(p.stdout.strip().split("\n")[-1])


def run(chk: core.Check) -> int:
    sites = scan(core.REPO)
    core.write_if_changed(core.LEAN / "CddVerif" / "Gen" / "SetIter.lean", to_lean(sites))
    chk.lean(MODULE, THEOREMS)
    chk.lean(JOIN_MODULE, JOIN_THEOREMS)
    cls = {}
    for s in sites:
        cls[s["cls"]] = cls.get(s["cls"], 0) + 1
    chk.coverage["set_expression_sites_by_class"] = cls
    chk.trusted_base += [
        "translator harness/translators/setiter.py: syntactic set expressions (literals, set()/frozenset() calls, keys()/items() set algebra) with one hop of name tracking; sets reaching an iteration through two or more bindings, or through function parameters, are not followed (%d sites this run)" % len(sites),
        "model lean/CddVerif/Model/Merge.lean of merge_params/merge_present_params with the set iteration order as an oracle; tied by comparing the merged dict (keys, order, values)",
        "Model/JoinNonNone.lean: _join_non_none with the frozenset iteration order as an oracle; C10Join proves that the result as a mapping (and everything that reads it by key, "
        "e.g. merge_present_params with the joined dict as `other`) is independent of the order, characterises the key order exactly (primacy's keys, then the fresh keys in set order) and "
        "proves when it can differ (two or more fresh keys: the reviewed leak inside one ParamVal); tied to the real function by forcing the iteration order",
        "process-level determinism (hash seed, call history) is *observed* by differential runs in fresh interpreters; the theorem covers merge_params and the site table",
    ]
    rng = chk.rng
    # ---- (1) merge_params correspondence -----------------------------------------------------------------
    names = ["a", "b", "c", "d", "e", "f", "g"]
    cases = []
    for _ in range(1500 if chk.quick else 20000):
        on = rng.sample(names, rng.randint(0, 6))
        tn = rng.sample(names, rng.randint(1, 6))
        cases.append(([[k, gen_param(rng)] for k in on], [[k, gen_param(rng)] for k in tn]))
    impl = core.pmap(impl_merge, cases)
    reqs = []
    for o, t in cases:
        reqs.append({"op": "c10.merge", "other": enc_dict(dict(o)), "target": enc_dict(dict(t)), "reverse": False})
        reqs.append({"op": "c10.merge", "other": enc_dict(dict(o)), "target": enc_dict(dict(t)), "reverse": True})
    model = core.model_batch(reqs) if core.DRIVER.exists() else None
    n_dis = 0
    for k, ((o, t), r) in enumerate(zip(cases, impl)):
        common = set(dict(o)) & set(dict(t))
        missing = [x for x in dict(o) if x not in dict(t)]
        chk.count(("merge", json.dumps([o, t], sort_keys=True)), len(common) >= 2 and len(missing) >= 2)
        if k < 2:
            chk.sample({"other": o, "target": t, "merged_keys": [x[0] for x in r]})
        # the order specification itself, on the real code
        exp = list(dict(t)) + missing
        if [x[0] for x in r] != exp:
            chk.failure({"kind": "merge-order"}, "merge_params key order %s, expected %s" % ([x[0] for x in r], exp), {"fn": "merge", "other": o, "target": t})
        if model is not None:
            for m in (model[2 * k], model[2 * k + 1]):
                if m.get("merged") != r:
                    n_dis += 1
                    chk.disagreement("C10 correspondence: merge_params", {"other": o, "target": t}, r, m.get("merged", m))
                    break
    chk.oblige("correspondence: merge_params = Merge.mergeParams (both oracle orders) on %d dict pairs" % len(cases), "correspondence",
               n_dis == 0 and model is not None, "%d disagreements" % n_dis)
    # ---- (1b) _join_non_none: the other place where a set is iterated on the way to an interface ---------------
    join_stream(chk, rng)
    # ---- (2) hash-seed / history differential on the real code --------------------------------------------
    n = 150 if chk.quick else 600
    seeds = [0, 1, 2, 3, "random"] if chk.quick else list(range(0, 32)) + ["random", "random"]
    jobs = [("plain", hs) for hs in seeds] + [("history", seeds[0]), ("history", seeds[1]), ("preimport", seeds[0])]
    with cf.ThreadPoolExecutor(core.NCPU) as ex:
        outs = list(ex.map(lambda j: run_batch(chk.seed, n, j[0], j[1]), jobs))
    ref = outs[0]
    if "error" in ref:
        raise core.HarnessError("c10 batch failed: %s" % ref["error"])
    kinds = ref["kinds"]
    for (mode, hs), o in zip(jobs, outs):
        if "error" in o:
            raise core.HarnessError("c10 batch failed: %s" % o["error"])
        for cid, v in o["outputs"].items():
            chk.count(("diff", mode, str(hs), cid), True)
            if v.startswith(("INPUT-MUTATED:", "HISTORY-DEPENDENT:", "DIFFERS-ON-REPEAT:")):
                kind = kinds[int(cid)]
                chk.failure({"kind": "history-dependent", "case_kind": kind}, "%s: %s" % (kind, v[:200]),
                            {"fn": "batch", "seed": chk.seed, "n": n, "case": int(cid), "mode": mode, "hashseeds": [str(hs), str(hs)], "a": v[:1500]})
            elif v != ref["outputs"][cid]:
                kind = kinds[int(cid)]
                chk.failure({"kind": "nondeterministic", "case_kind": kind, "mode": "plain" if kind.endswith("_setdefault") else mode},
                            "%s: output differs between PYTHONHASHSEED=%s (plain) and PYTHONHASHSEED=%s (%s)" % (kind, seeds[0], hs, mode),
                            {"fn": "batch", "seed": chk.seed, "n": n, "case": int(cid), "mode": mode, "hashseeds": [str(seeds[0]), str(hs)],
                             "a": ref["outputs"][cid][:1500], "b": v[:1500]})
    kc = {}
    for k in kinds:
        kc[k] = kc.get(k, 0) + 1
    chk.coverage["differential_case_kinds"] = kc
    chk.coverage["hash_seeds"] = [str(s) for s in seeds]
    chk.sample({"differential": "case 0 (%s)" % kinds[0], "output": ref["outputs"]["0"][:300]})
    return chk.finish("merge: random dict pairs (non-trivial = >=2 common and >=2 missing keys); differential: %d generated inputs x %d hash seeds x {fresh process, shuffled in-process history with repeats}, "
                      "outputs compared byte for byte" % (len(kinds), len(seeds)))


def replay(path: str) -> int:
    d = json.loads(Path(path).read_text())["replay"]
    if d.get("fn") == "merge":
        r = impl_merge((d["other"], d["target"]))
        exp = list(dict(d["target"])) + [x for x in dict(d["other"]) if x not in dict(d["target"])]
        print("replay merge:", [x[0] for x in r], "expected", exp)
        return 0 if [x[0] for x in r] == exp else 1
    a = run_batch(d["seed"], d["n"], "plain", d["hashseeds"][0])["outputs"][str(d["case"])]
    b = run_batch(d["seed"], d["n"], d["mode"], d["hashseeds"][1])["outputs"][str(d["case"])]
    if a.startswith(("INPUT-MUTATED:", "HISTORY-DEPENDENT:", "DIFFERS-ON-REPEAT:")) or b.startswith(("INPUT-MUTATED:", "HISTORY-DEPENDENT:", "DIFFERS-ON-REPEAT:")):
        print("replay: history-dependent output:", (a if a[0].isupper() else b)[:300])
        return 1
    print("replay differential: equal" if a == b else "replay differential: DIFFERENT\n%s\n---\n%s" % (a[:500], b[:500]))
    return 0 if a == b else 1
