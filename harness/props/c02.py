"""C02 — class / pydantic / function / argparse emit → render → parse round trip (DESIGN.md §4 C02)."""
from __future__ import annotations

import ast
import copy
import json
import os
import re
from pathlib import Path

from harness import core
from harness.gen import c02 as G
from harness.impl import c02_real as R
from harness.impl import pyast

MODULE = "CddVerif.Properties.C02Rest"  # imports Properties.C02 (through C08Iface / C03Iface); C02 with the docstring layer instantiated by the C01 ReST model
REST_THEOREMS = ["C02Rest." + t for t in "restEnv_envOK docHyp_of_InRest C02Rest_class C02Rest_pydantic C02Rest_function C02Rest_argparse parseRest_abstains_on_class_docstring parseRest_abstains_on_indented_docstring class_purpose_differs function_edd_description_drift empty_header_blank_line restEnv_not_viewOnly".split()]

CFGS = {
    "class": [{"style": s, "edd": e} for s in R.STYLES for e in (False, True)],
    "pydantic": [{"style": s, "edd": e} for s in R.STYLES for e in (False, True)],
    "function": [{"style": s, "edd": e, "type_annotations": ta, "kw_only": kw} for s in R.STYLES for e in (False, True) for ta in (True, False) for kw in (True, False)],
    "argparse": [{"style": s, "edd": e} for s in R.STYLES for e in (False, True)],
}


# ----------------------------------------------------------------------------------------------
# view and oracle
# ----------------------------------------------------------------------------------------------
def norm_doc(s):
    if not isinstance(s, str):
        return None if s is None else "<%s>" % type(s).__name__
    s = " ".join(s.split())
    if s.endswith("."):
        s = s[:-1]
    return s or None


def tv(d):
    """typed rendering of a JSON default"""
    if d is None:
        return "absent"
    if d["t"] == "node":
        return "node:" + json.dumps(d["e"], sort_keys=True)
    return "%s:%s" % (d["t"], d["v"])


def view_param(name, p):
    return [name, p.get("typ"), tv(p.get("default")), norm_doc(p.get("doc"))]


def view(irj):
    return {"params": [view_param(k, p) for k, p in irj["params"]], "returns": None if irj.get("returns") is None else view_param("return_type", irj["returns"])}


def norm_expected(fmt, irj):
    """EXACTLY the statement's per-format normalisations (mirrors `C02.norm` of Properties/C02.lean)"""
    irj = copy.deepcopy(irj)
    if fmt == "function":
        for _, p in irj["params"]:
            if p.get("default") is None:
                p["default"] = {"t": "str", "v": R.NONE}
    if fmt == "argparse":
        if irj.get("returns") is not None and irj["returns"].get("default") is None:
            irj["returns"] = None
    return irj


def typ_kind(t):
    if t is None:
        return "none"
    if t in ("int", "float", "str", "bool", "complex"):
        return "scalar:" + t
    if " | " in t:
        return "pep604"
    if t.startswith("Dict["):
        return "dict"
    if t.startswith("Tuple["):
        return "tuple"
    if t.startswith("List[") and "[" in t[5:]:
        return "nested-list"
    if t.startswith("Optional[Union["):
        return "optunion"
    if t.startswith("Optional["):
        return "optional"
    if t.startswith("Union["):
        return "union"
    if t.startswith("List["):
        return "list"
    if t.startswith("Literal["):
        return "literal" if "," in t else "literal1"  # an enumeration of ONE member takes other paths (no Tuple slice) in every emitter
    if re.fullmatch(r"[A-Za-z_][\w.]*", t):
        return "dotted"
    return "other"


def default_kind(d):
    if d is None:
        return "absent"
    if d["t"] == "str":
        v = d["v"]
        if v == R.NONE:
            return "none"
        if len(v) > 6 and v.startswith("```") and v.endswith("```"):
            return "code"
        return "str"
    return d["t"].split(":")[0]


def default_flags(d):
    f = {"neg": False, "falsy": False, "dot": False, "binop": False}
    if d is None:
        return f
    if d["t"] in ("int", "float", "complex") and d["v"].startswith(("-", "(-")):
        f["neg"] = True
    if d["t"] == "complex" and d["v"].startswith("("):
        f["binop"] = True
    if (d["t"] == "int" and d["v"] == "0") or (d["t"] == "float" and d["v"] in ("0.0", "-0.0")) or (d["t"] == "bool" and d["v"] == "False") \
            or (d["t"] == "str" and d["v"] == "") or (d["t"] == "complex" and d["v"] == "0j"):
        f["falsy"] = True
    if d["t"] == "str" and "." in d["v"]:
        f["dot"] = True
    return f


def to_class(field, exp, got, sp):
    """coarse class of the value that came back"""
    if field == "typ":
        if got is None:
            return "None"
        if exp is not None and got == "Optional[%s]" % exp:
            return "Optional[same]"
        if exp is not None and exp.startswith("Union[") and got in [x.strip() for x in exp[6:-1].split(",")]:
            return "union-member"
        if exp is not None and exp.startswith("Optional[Union[") and got.startswith("Optional[") and got[9:-1] in [x.strip() for x in exp[15:-2].split(",")]:
            return "Optional[union-member]"
        return typ_kind(got)
    if field == "default":
        if got == "absent":
            return "absent"
        k, _, v = got.partition(":")
        if k == "node":
            return "ast-node"
        zero = {"int": "0", "float": "0.0", "complex": "0j", "bool": "False", "str": ""}
        if exp == "absent" and zero.get(k) == v:
            return "zero-of-type"
        if k == "str":
            if v == R.NONE:
                return "none"
            if v == "(None)":
                return "str:(None)"
            ek, _, ev = (exp or "").partition(":")
            if ek == "str" and v in ("'%s'" % ev, '"%s"' % ev):
                return "str:quoted"
            if ek == "str" and len(ev) >= 2 and ev[0] == ev[-1] and ev[0] in "'\"" and v == ev[1:-1]:
                return "str:unwrapped"
            if ek == "str" and len(ev) >= 2 and ev[0] in "'\"" and ev[-1] in "'\"" and ev[0] != ev[-1] and v == ev[1:-1]:
                return "str:mixed-quotes-cut"
            if ek == "str" and v == "```%s```" % ev:
                return "str:code-quoted"
            if ek == "str" and v == "```(%s)```" % ev.strip("`"):
                return "str:code-parenthesised"
            if ek == "str" and v == ev.strip("`"):
                return "str:unquoted-code"
            if len(v) > 6 and v.startswith("```"):
                return "code"
        return k
    if field == "doc":
        if got is None:
            return "lost"
        if exp is not None and got.startswith(exp):
            rest = got[len(exp):]
            if re.match(r"^[.,]? ?[Dd]efaults? to", rest) or re.match(r"^[.,]? ?Default", rest):
                return "default-announcement-kept"
            return "suffix-added"
        if exp is None:
            return "appeared"
        return "changed"
    return str(got)[:40]


def interface_keywords(irj):
    """docstring section keywords (of any style) mentioned as prose anywhere in the interface: its own description, a parameter's, the return entry's"""
    texts = [irj.get("doc")] + [p.get("doc") for _, p in irj["params"]] + [(irj.get("returns") or {}).get("doc")]
    return "+".join(sorted({k for t in texts for k in G.keywords_in(t)}))


def source_kind(d):
    """for a str default: is it the source of a number literal (the IR convention writes a return entry's default as source text)"""
    if not d or d.get("t") != "str":
        return "n/a"
    try:
        v = ast.literal_eval(d["v"].strip("`"))
    except Exception:  # noqa
        return "other"
    return "number" if isinstance(v, (int, float, complex)) and not isinstance(v, bool) else "other"


def _inf_nan(d):
    return bool(d) and d.get("t") in ("float", "complex") and any(w in d["v"] for w in ("inf", "nan"))


def emitted_docstring(real):
    """the docstring text of the re-read emitted node (None when there is none)"""
    for st in (real.get("reparsed") or {}).get("body", [])[:1]:
        if st.get("k") == "doc":
            return st["s"]
    return None


_ENTRY_END = re.compile(r"\n[ \t]*:(?:cvar|param|type|return|returns|rtype)\b")


def announcement_shape(doc_text, name, is_return=False):
    """how the default announcement of one entry sits in the emitted ReST docstring (textwrap.fill, width 100, breaks long lines):
    `absent` | `one-line` | `wrapped` (a line break inside ". Defaults to <value>") | `blank-line-inside` (a whitespace-only line inside it:
    the emitter puts one after the first line of the first entry when the interface has no description) | `n/a` (not ReST / no docstring).
    → (shape, offset of the first line break from the start of the announcement, or None)"""
    if doc_text is None:
        return "n/a", None
    m = re.search(r":return:" if is_return else r":(?:cvar|param) %s:" % re.escape(name), doc_text)
    if m is None:
        return "n/a", None
    seg = doc_text[m.end():]
    e = _ENTRY_END.search(seg)
    seg = (seg[:e.start()] if e else seg).rstrip()
    a = re.search(r"[.,]?\s*\b[Dd]efaults?\b", seg)
    if a is None:
        return "absent", None
    ann = seg[a.start():]
    if re.search(r"\n[ \t]*\n", ann):
        return "blank-line-inside", ann.index("\n")
    if "\n" in ann:
        return "wrapped", ann.index("\n")
    return "one-line", None


def oracle(fmt, cfg, irj, got_irj, issues=(), in_domain=False, doc_text=None):
    """the property on the real round trip: names, order, types, typed defaults, normalised descriptions; only the
    statement's two normalisations are applied to the expectation.  → list of (signature, text).

    `issues` = clauses of the docstring-layer hypothesis that fail on the real layer for this case, per entry
    (evaluated by the model on the real layer's answers): a difference on an entry with a failed clause is signed
    `layer=docstring` (the docstring layer is property C01's; here it is a parameter), any other `layer=format`."""
    exp, got = view(norm_expected(fmt, irj)), view(got_irj)
    iss = {}
    for e, c in issues:
        iss.setdefault(e, set()).add(c)
    base = {"format": fmt, "style": cfg["style"], "style_group": "rest" if cfg["style"] == "rest" else "google/numpydoc", "edd": cfg["edd"],
            "ta": cfg.get("type_annotations"), "kw": cfg.get("kw_only"), "in_domain": in_domain, "keywords": interface_keywords(irj)}

    def layer(entry_name, field):
        cl = set(iss.get(entry_name, set()))
        if fmt in ("class", "pydantic") and field in ("typ", "default"):
            cl.discard("missing")  # attributes take type and default from the AnnAssign, whatever the docstring lost
        cl = sorted(cl)
        return {"layer": "docstring" if cl else "format", "hyp": "+".join(cl)}

    out = []
    en, gn = [p[0] for p in exp["params"]], [p[0] for p in got["params"]]
    if en != gn:
        kind = "lost" if set(gn) < set(en) else "order" if sorted(en) == sorted(gn) else "other"
        allc = sorted(set().union(*iss.values())) if iss else []
        doc_caused = "order" in allc or "missing" in allc
        out.append((dict(base, entry="param", field="names", to=kind, layer="docstring" if doc_caused else "format", hyp="+".join(c for c in allc if c in ("order", "missing"))),
                    "parameter names %s, expected %s" % (gn, en)))
    src = dict((k, p) for k, p in irj["params"])
    gd = dict((p[0], p) for p in got["params"])
    pairs = [("param", e, gd.get(e[0]), src.get(e[0])) for e in exp["params"] if e[0] in gd]
    if (exp["returns"] is None) != (got["returns"] is None):
        rp = irj.get("returns") or {}
        out.append((dict(base, entry="return", field="presence", typ_kind=typ_kind(rp.get("typ")), has_bracket="[" in (rp.get("typ") or ""),
                         default_kind=default_kind(rp.get("default")), to="lost" if got["returns"] is None else "appeared", **layer("return_type", "presence")),
                    "return entry %s, expected %s" % (got["returns"], exp["returns"])))
    elif exp["returns"] is not None:
        pairs.append(("return", exp["returns"], got["returns"], irj["returns"]))
    for entry, e, g, sp in pairs:
        shape = announcement_shape(doc_text if cfg["style"] == "rest" else None, e[0], entry == "return")[0]
        for field, i in (("typ", 1), ("default", 2), ("doc", 3)):
            if e[i] != g[i]:
                sig = dict(base, entry=entry, field=field, announcement=shape, entry_keywords="+".join(G.keywords_in(sp.get("doc"))),
                           quote=G.quote_shape(sp["default"]["v"]) if (sp.get("default") or {}).get("t") == "str" else "none",
                           num=G.num_shape_json(sp.get("default")), source_kind=source_kind(sp.get("default")), typ_kind=typ_kind(sp.get("typ")), has_bracket="[" in (sp.get("typ") or ""),
                           default_kind=default_kind(sp.get("default")), to=to_class(field, e[i], g[i], sp), **default_flags(sp.get("default")), **layer(e[0], field))
                out.append((sig, "%s %s: %s came back as %r, expected %r (typ %r, default %s)" % (entry, e[0], field, g[i], e[i], sp.get("typ"), tv(sp.get("default")))))
    return out


# ----------------------------------------------------------------------------------------------
# one case on the real code
# ----------------------------------------------------------------------------------------------
class _quiet:
    """the analysed code prints failed type probes to stderr; keep the check's output clean while it runs"""

    def __enter__(self):
        import os
        import sys

        sys.stderr.flush()
        self.saved = os.dup(2)
        self.null = os.open(os.devnull, os.O_WRONLY)
        os.dup2(self.null, 2)

    def __exit__(self, *a):
        import os

        os.dup2(self.saved, 2)
        os.close(self.saved)
        os.close(self.null)


def real_case(job):
    with _quiet():
        return _real_case(job)


def real_parse_source(job):
    with _quiet():
        return _real_parse_source(job)


def _real_case(job):
    fmt, cfg, ir, docreq = job
    out = {"notes": []}
    names = list(ir["params"]) + ["return_type", "argument_parser"]
    if any(isinstance(p.get("default"), (float, complex)) and p["default"] != p["default"] for p in ir["params"].values()):
        out["notes"].append("nan default: ast.unparse writes it as the BinOp `1e309 - 1e309` (outside the model)")
    if fmt == "argparse":
        from cdd.shared.pure_utils import fill

        if any(isinstance(p.get("doc"), str) and fill(p["doc"]) != p["doc"] for p in ir["params"].values()):
            out["notes"].append("textwrap.fill changes a help string (outside the model)")
    # the docstring layer's answer to the emitter's request (asked by the model)
    try:
        out["doc_text"] = R.real_doc_emit(docreq["cfg"], docreq["ir"])
    except Exception as e:  # noqa
        out["doc_text"] = None
        out["notes"].append("docstring emit raises %s" % type(e).__name__)
    try:
        node = R.real_emit(fmt, cfg, ir)
        ast.fix_missing_locations(node)
        out["emit_py"] = pyast.stmt_to_json(node)
        out["emit_ast"], n1 = R.top_to_json(node)
        out["notes"] += n1
    except Exception as e:  # noqa
        out["emit_raises"] = type(e).__name__
        env, n3 = R.build_env(fmt, ir, out["doc_text"], None, None, names)
        out["env"] = env
        out["notes"] += n3
        return out
    try:
        from cdd.shared.source_transformer import to_code

        src = to_code(node)
        node2 = ast.parse(src).body[0]
        out["src"] = src
        out["reparsed"], n2 = R.top_to_json(node2)
        out["notes"] += n2
    except Exception as e:  # noqa
        out["render_raises"] = type(e).__name__
        env, n3 = R.build_env(fmt, ir, out["doc_text"], None, None, names)
        out["env"] = env
        out["notes"] += n3
        return out
    doc_ir_json = None
    ds = ast.get_docstring(node2, clean=False)
    if ds is not None:
        try:
            doc_ir_json = R.ir_to_json(R.real_doc_parse(fmt, ds))
        except Exception as e:  # noqa
            out["notes"].append("docstring parse raises %s" % type(e).__name__)
    out["doc_ir"] = doc_ir_json
    try:
        out["parsed"] = R.ir_to_json(R.real_parse(fmt, node2))
    except Exception as e:  # noqa
        out["parse_raises"] = type(e).__name__
    env, n3 = R.build_env(fmt, ir, out["doc_text"], doc_ir_json, out["reparsed"], names)
    out["env"] = env
    out["notes"] += n3
    return out


def has_other(j):
    """a value the JSON codec of the model does not carry (tuple/list/… defaults)"""
    s = json.dumps(j)
    return '"other:' in s


def gen_cases(rng, n_ir, trigger_docs=False):
    cases = []
    for _ in range(n_ir):
        ir = G.gen_ir(rng, ftype=rng.choice(["static", "static", "self", "cls"]), trigger_docs=trigger_docs, punct=0.0 if trigger_docs else 0.15)
        for fmt in R.FORMATS:
            for cfg in CFGS[fmt]:
                cases.append((fmt, cfg, ir))
    return cases


def run_cases(chk, cases, label, claim=True):
    """real pipeline + model on the same cases; correspondence + oracle.  Returns per-case records."""
    irjs = [R.ir_to_json(ir) for _, _, ir in cases]
    docreqs = core.model_batch([{"op": "c02.docreq", "fmt": f, "cfg": c, "ir": j} for (f, c, _), j in zip(cases, irjs)])
    jobs = [(f, c, ir, dr) for (f, c, ir), dr in zip(cases, docreqs)]
    reals = core.pmap(real_case, jobs, chunksize=32)
    reqs = []
    for (f, c, ir), j, r in zip(cases, irjs, reals):
        reqs.append({"op": "c02.emit", "fmt": f, "cfg": c, "ir": j, "env": r["env"]})
        reqs.append({"op": "c02.parse", "fmt": f, "ast": r.get("reparsed") or {"k": "other"}, "env": r["env"]})
        reqs.append({"op": "c02.indomain", "fmt": f, "cfg": c, "ir": j, "env": r["env"]})
    models = core.model_batch(reqs)
    recs = []
    for k, ((f, c, ir), j, r) in enumerate(zip(cases, irjs, reals)):
        recs.append({"fmt": f, "cfg": c, "ir": ir, "irj": j, "real": r, "m_emit": models[3 * k], "m_parse": models[3 * k + 1], "m_dom": models[3 * k + 2], "in_domain": bool(models[3 * k + 2].get("in"))})
    return recs


def strip_env(r):
    return {k: v for k, v in r.items() if k != "env"}


# ----------------------------------------------------------------------------------------------
# comparing model and real code on one record
# ----------------------------------------------------------------------------------------------
def compare(chk, rec, stats, label):
    """correspondence of one case: emitted AST (shared flat AST with unparse texts + structured), re-parsed AST, parsed IR.
    Returns True when the model claims the case (no abstention) and agrees everywhere."""
    f, r, me, mp = rec["fmt"], rec["real"], rec["m_emit"], rec["m_parse"]
    case = {"fmt": f, "cfg": rec["cfg"], "ir": rec["irj"]}
    unsupported = bool(r["notes"])  # constructs in the real trees that the model's AST does not record
    abstained = False  # the model itself declined (emit or parse): no claim, but never an excuse for the other stage
    ok = True

    def dis(what, impl, model):
        nonlocal ok
        ok = False
        stats[(label, f, what, "DISAGREE")] += 1
        chk.disagreement("C02 correspondence (%s): %s" % (label, what), case, impl, model)

    # ---- emit
    if "error" in me:
        if me["error"].startswith("unsupported"):
            stats[(label, f, "emit", "abstain: " + me["error"][13:50])] += 1
            abstained = True
        elif r.get("emit_raises") == me["error"]:
            stats[(label, f, "emit", "both raise " + me["error"])] += 1
        elif unsupported:
            stats[(label, f, "emit", "outside model (noted construct)")] += 1
        else:
            dis("emit: model raises %s" % me["error"], r.get("emit_raises", "returns"), me["error"])
    elif "ok" not in me:
        raise core.HarnessError("driver: %s" % str(me)[:300])
    elif "emit_raises" in r:
        if unsupported:
            stats[(label, f, "emit", "outside model (noted construct)")] += 1
        else:
            dis("emit: real code raises", r["emit_raises"], "returns")
    else:
        m = me["ok"]
        if m["py"] != r["emit_py"] or m["ast"] != r["emit_ast"]:
            if unsupported:
                stats[(label, f, "emit", "outside model (noted construct)")] += 1
            else:
                dis("emitted AST", {"py": r["emit_py"], "ast": r["emit_ast"]}, {"py": m["py"], "ast": m["ast"]})
        elif "reparsed" in r and m["reparsed"] != r["reparsed"]:
            if unsupported:
                stats[(label, f, "emit", "outside model (noted construct)")] += 1
            else:
                dis("re-parsed AST (to_code + ast.parse)", r["reparsed"], m["reparsed"])
        else:
            stats[(label, f, "emit", "agree")] += 1
    # ---- parse (of the REAL re-parsed tree)
    if "reparsed" not in r:
        return ok and not unsupported and not abstained
    doc_raises = [n for n in r["notes"] if n.startswith("docstring parse raises ")]
    if doc_raises:
        exc = doc_raises[0].split()[-1]
        if r.get("parse_raises") == exc:
            stats[(label, f, "parse", "docstring layer raises " + exc)] += 1
        else:
            dis("parse: docstring layer raises but the parser does not", r.get("parse_raises", "returns"), exc)
        return False
    if "error" in mp:
        if mp["error"].startswith("unsupported"):
            stats[(label, f, "parse", "abstain: " + mp["error"][13:50])] += 1
            abstained = True
        elif r.get("parse_raises") == mp["error"]:
            stats[(label, f, "parse", "both raise " + mp["error"])] += 1
        elif unsupported or has_other(r.get("doc_ir")):
            stats[(label, f, "parse", "outside model (noted construct)")] += 1
        else:
            dis("parse: model raises %s" % mp["error"], r.get("parse_raises", "returns"), mp["error"])
    elif "ok" not in mp:
        if has_other(r.get("doc_ir")) or has_other(r.get("parsed")):
            stats[(label, f, "parse", "abstain: value type outside the codec")] += 1
            abstained = True
        else:
            raise core.HarnessError("driver: %s" % str(mp)[:300])
    elif "parse_raises" in r:
        if unsupported:
            stats[(label, f, "parse", "outside model (noted construct)")] += 1
        else:
            dis("parse: real code raises", r["parse_raises"], "returns")
    else:
        a, b = mp["ok"], r["parsed"]
        same = view(a) == view(b) and a["doc"] == b["doc"] and a["name"] == b["name"] and a["type"] == b.get("type") and \
            [(k, p.get("doc")) for k, p in a["params"]] == [(k, p.get("doc")) for k, p in b["params"]]
        if same:
            stats[(label, f, "parse", "agree")] += 1
        elif unsupported or has_other(b) or has_other(r.get("doc_ir")):
            stats[(label, f, "parse", "outside model (noted construct)")] += 1
        else:
            dis("parsed IR", b, a)
    return ok and not unsupported and not abstained


def evaluate(chk, rec, sig_counts, witness_of=None):
    """the property's oracle on the REAL round trip of one case"""
    f, c, r, m = rec["fmt"], rec["cfg"], rec["real"], rec["m_dom"]
    replay = {"fmt": f, "cfg": c, "ir": rec["irj"]}
    in_dom, hyp, issues = bool(m.get("in")), bool(m.get("hyp")), m.get("issues", [])
    fails = []
    if "parsed" not in r:
        stage = "emit" if "emit_raises" in r else "render" if "render_raises" in r else "parse"
        exc = r.get(stage + "_raises")
        doc_caused = stage == "parse" and (bool(issues) or any(n.startswith("docstring parse raises") for n in r["notes"]))
        rp = rec["irj"].get("returns") or {}
        sig = {"format": f, "style": c["style"], "style_group": "rest" if c["style"] == "rest" else "google/numpydoc", "edd": c["edd"],
               "ta": c.get("type_annotations"), "kw": c.get("kw_only"), "in_domain": in_dom, "field": "raises", "stage": stage, "exc": exc,
               "keywords": interface_keywords(rec["irj"]),
               "has_inf_nan": any(_inf_nan(p.get("default")) for _, p in rec["irj"]["params"]),
               "nums": "+".join(sorted({G.num_shape_json(p.get("default")) for _, p in rec["irj"]["params"]} - {"none", "plain"})),
               "has_quote_default": any((p.get("default") or {}).get("t") == "str" and G.quote_shape(p["default"]["v"]) != "none" for _, p in rec["irj"]["params"]),
               "quotes": "+".join(sorted({G.quote_shape(p["default"]["v"]) for _, p in rec["irj"]["params"] if (p.get("default") or {}).get("t") == "str"} - {"none"})),
               "layer": "docstring" if doc_caused else "format", "return_default_kind": default_kind(rp.get("default")),
               "return_typ_kind": typ_kind(rp.get("typ")) if rec["irj"].get("returns") else "no-return",
               "default_kinds": "+".join(sorted({default_kind(p.get("default")) for _, p in rec["irj"]["params"]}))}
        fails.append((sig, "%s raises %s" % (stage, exc)))
    else:
        fails = oracle(f, c, rec["irj"], r["parsed"], issues, in_dom, emitted_docstring(r))
    for sig, text in fails:
        key = "|".join("%s=%s" % (k, sig.get(k)) for k in ("layer", "format", "style_group", "edd", "entry", "field", "to", "hyp", "exc"))
        sig_counts[key] = sig_counts.get(key, 0) + 1
        if in_dom and hyp:
            # inside the theorem's domain with the docstring-layer hypotheses true: never a known finding
            sig = dict(sig, theorem_instance=True)
        chk.failure(sig, "%s %s: %s" % (f, json.dumps(c, sort_keys=True), text), replay)
    return fails


# ----------------------------------------------------------------------------------------------
# parse-only stream: hand-written sources (signature padding, partially documented, add_argument keyword mixes)
# ----------------------------------------------------------------------------------------------
def gen_parse_sources(rng, n):
    from harness.gen import ir as G0

    out = []
    for _ in range(n):
        k = rng.random()
        ir = G0.gen_ir(rng, nparams=rng.randint(0, 5), none_ok=True, with_return=rng.random() < 0.4)
        names = list(ir["params"])
        if k < 0.5:
            # function: defaults only on a suffix, annotations on ~70 %, a documented subset in any order, maybe a receiver
            documented = [x for x in names if rng.random() < 0.7]
            order = documented[:]
            rng.shuffle(order)
            src = G0.function_source(rng, ir, documented=documented, doc_order=order)
            if rng.random() < 0.3:
                recv = rng.choice(["self", "cls"])
                src = src.replace("def F(", "def F(%s%s" % (recv, ", " if names else ""), 1)
            if rng.random() < 0.3 and names:
                src = src.replace("def F(", "def F(*, ", 1) if "self" not in src and "cls" not in src else src
            out.append(("function", src))
        elif k < 0.75:
            lines = ['class F(object):', '    """', "    " + (ir["doc"].split("\n")[0] or "Do it."), ""]
            for nm in names:
                if rng.random() < 0.7:
                    lines.append("    :cvar %s: %s" % (nm, ir["params"][nm].get("doc", "thing")))
            lines.append('    """')
            for nm in names:
                p = ir["params"][nm]
                lines.append("    %s: %s%s" % (nm, p["typ"], (" = " + G0.render_default(p["default"])) if "default" in p else ""))
            if not names:
                lines.append("    ...")
            out.append((rng.choice(["class", "pydantic"]), "\n".join(lines) + "\n"))
        else:
            lines = ["def set_cli_args(argument_parser):", '    """', "    Set CLI arguments", "", "    :param argument_parser: argument parser",
                     "    :type argument_parser: ```ArgumentParser```", ""]
            has_ret = rng.random() < 0.5
            lines += ["    :return: argument_parser, the thing", "    :rtype: ```Tuple[ArgumentParser, %s]```" % rng.choice(["int", "List[int]", "np.ndarray"])] if has_ret else \
                ["    :return: argument_parser", "    :rtype: ```ArgumentParser```"]
            lines += ['    """', "    argument_parser.description = %r" % rng.choice(["", "Summary line.", "Do it."])]
            for nm in names:
                kws = []
                if rng.random() < 0.7:
                    kws.append("type=%s" % rng.choice(["int", "float", "str", "bool", "complex", "loads"]))
                if rng.random() < 0.25:
                    kws.append("choices=%r" % (tuple(rng.sample(G0.MEMBERS, rng.randint(2, 3))),))
                if rng.random() < 0.2:
                    kws.append("action='append'")
                if rng.random() < 0.8:
                    kws.append("help=%r" % rng.choice(G0.DOCS))
                if rng.random() < 0.5:
                    kws.append("required=True")
                if rng.random() < 0.5:
                    kws.append("default=%r" % rng.choice([0, 0.0, False, "", 5, -3, 2.5, True, "mnist", None]))
                lines.append("    argument_parser.add_argument(%s)" % ", ".join(["'--%s'" % nm] + kws))
            lines.append("    return (argument_parser, %s)" % rng.choice(["K", "np.empty(0)", "(a, b)", "0"]) if has_ret else "    return argument_parser")
            out.append(("argparse", "\n".join(lines) + "\n"))
    return out


def _real_parse_source(job):
    fmt, src = job
    out = {"notes": []}
    node2 = ast.parse(src).body[0]
    out["src"] = src
    out["reparsed"], n2 = R.top_to_json(node2)
    out["notes"] += n2
    doc_ir_json = None
    ds = ast.get_docstring(node2, clean=False)
    if ds is not None:
        try:
            doc_ir_json = R.ir_to_json(R.real_doc_parse(fmt, ds))
        except Exception as e:  # noqa
            out["notes"].append("docstring parse raises %s" % type(e).__name__)
    out["doc_ir"] = doc_ir_json
    try:
        out["parsed"] = R.ir_to_json(R.real_parse(fmt, node2))
    except Exception as e:  # noqa
        out["parse_raises"] = type(e).__name__
    names = [a["name"] for a in (out["reparsed"].get("args", {}).get("args", []) + out["reparsed"].get("args", {}).get("kwonly", []))] if out["reparsed"]["k"] == "fn" else []
    names += [s_["target"] for s_ in out["reparsed"].get("body", []) if s_["k"] == "ann"] + [s_["name"] for s_ in out["reparsed"].get("body", []) if s_["k"] == "add"]
    if doc_ir_json:
        names += [k for k, _ in doc_ir_json["params"]]
    env, n3 = R.build_env(fmt, {"params": {}, "returns": None}, None, doc_ir_json, out["reparsed"], sorted(set(names)) + ["return_type"])
    out["env"] = env
    out["notes"] += n3
    return out


# ----------------------------------------------------------------------------------------------
# witnesses of the known findings (replayed on every run; a witness that stops failing is reported as stale)
# ----------------------------------------------------------------------------------------------
def _ir(params, ret=None, typ="static"):
    return {"name": "F", "type": typ, "doc": "Summary.", "params": [[k, dict({"doc": None, "typ": None, "default": None}, **v)] for k, v in params],
            "returns": None if ret is None else dict({"doc": None, "typ": None, "default": None}, **ret)}


def _v(t, v):
    return {"t": t, "v": v}


_WRAP_BASE = "Tempo kept steady across every movement and again after each pause so that no bar drags while others wait"
REST = {"style": "rest", "edd": False}
REST_E = {"style": "rest", "edd": True}
FN = {"style": "rest", "edd": False, "type_annotations": True, "kw_only": False}
WITNESSES = {
    "C02-argparse-zero-default": ("argparse", REST, _ir([("n", {"doc": "a count", "typ": "int"})])),
    "C02-argparse-bool-optional": ("argparse", REST, _ir([("flag", {"doc": "a flag", "typ": "bool"})])),
    "C02-argparse-nonscalar-str": ("argparse", REST, _ir([("arr", {"doc": "an array", "typ": "np.ndarray"})])),
    "C02-argparse-union-narrowed": ("argparse", REST, _ir([("x", {"doc": "a value", "typ": "Union[int, float]", "default": _v("int", "0")})])),
    "C02-argparse-optunion-narrowed": ("argparse", REST, _ir([("x", {"doc": "a value", "typ": "Optional[Union[int, float]]", "default": _v("int", "0")})])),
    "C02-argparse-none-default-dropped": ("argparse", REST, _ir([("x", {"doc": "a value", "typ": "Optional[int]", "default": _v("str", R.NONE)})])),
    "C02-argparse-code-default": ("argparse", REST, _ir([("arr", {"doc": "an array", "typ": "List[int]", "default": _v("str", "```foo(3)```")})])),
    "C02-argparse-return-code-quoted": ("argparse", REST, _ir([], {"doc": "the result", "typ": "List[int]", "default": _v("str", "```foo(3)```")})),
    "C02-typ-dropped-code-default": ("class", REST, _ir([("arr", {"doc": "an array", "typ": "np.ndarray", "default": _v("str", "```foo(3)```")})])),
    "C02-fn-return-typ-dropped": ("function", FN, _ir([], {"doc": "the result", "typ": "int", "default": _v("str", "```foo(3)```")})),
    "C02-fn-return-typ-reinferred": ("function", dict(FN, type_annotations=False), _ir([], {"doc": "the result", "typ": "int", "default": _v("str", "K")})),
    "C02-fn-return-default-code-quoted": ("function", FN, _ir([], {"doc": "the result", "typ": "Tuple[int, int]", "default": _v("str", "(a, b)")})),
    "C02-complex-binop-default": ("class", REST, _ir([("z", {"doc": "a value", "typ": "complex", "default": _v("complex", "(2.5+1j)")})])),
    "C02-fn-negative-under-str-type": ("function", FN, _ir([("x", {"doc": "a value", "typ": "Union[str, int]", "default": _v("int", "-3")})])),
    "C02-doc-fn-default-announcement-kept": ("function", dict(FN, edd=True), _ir([("n", {"doc": "a count", "typ": "int", "default": _v("int", "5")})])),
    "C02-doc-none-default": ("function", dict(FN, edd=True), _ir([("x", {"doc": "a value", "typ": "Optional[int]", "default": _v("str", R.NONE)})])),
    "C02-doc-code-default": ("class", REST_E, _ir([("arr", {"doc": "an array", "typ": "List[int]", "default": _v("str", "```np.empty(0)```")})])),
    "C02-doc-dotted-str-default": ("class", REST_E, _ir([], {"doc": "the result", "typ": "List[int]", "default": _v("str", "np.empty(0)")})),
    "C02-doc-empty-str-default": ("class", REST_E, _ir([("s", {"doc": "a name", "typ": "str", "default": _v("str", "")})])),
    "C02-doc-complex-default": ("function", dict(FN, edd=True), _ir([("z", {"doc": "a value", "typ": "complex", "default": _v("complex", "1j")})])),
    "C02-doc-google-numpydoc-descriptions": ("class", {"style": "numpydoc", "edd": False}, _ir([("n", {"doc": "a count", "typ": "int"})])),
    "C02-doc-google-numpydoc-fn-types": ("function", {"style": "numpydoc", "edd": False, "type_annotations": False, "kw_only": False}, _ir([("n", {"doc": "a count", "typ": "int"})])),
    "C02-doc-google-numpydoc-fn-return": ("function", {"style": "numpydoc", "edd": False, "type_annotations": False, "kw_only": False}, _ir([("n", {"doc": "a count", "typ": "int"})], {"doc": "the result", "typ": "int"})),
    "C02-doc-google-numpydoc-fn-defaults": ("function", {"style": "google", "edd": True, "type_annotations": True, "kw_only": False},
                                            _ir([("n", {"doc": "a count", "typ": "int", "default": _v("int", "5")})], {"doc": "the result", "typ": "int"})),
    "C02-doc-layer-raises": ("function", dict(FN, edd=True, type_annotations=False), _ir([("x", {"doc": "a value", "typ": "int", "default": _v("str", "```foo(3)```")})])),
    "C02-doc-blank-line-in-wrapped-announcement-doc": ("class", REST_E, dict(_ir([("n", {"doc": _WRAP_BASE[:80], "typ": "int", "default": _v("int", "5")}),
                                                                                    ("m", {"doc": "a value", "typ": "int", "default": _v("int", "7")})]), doc="")),
    "C02-doc-blank-line-in-wrapped-announcement-default": ("function", dict(FN, edd=True), dict(_ir([("n", {"doc": _WRAP_BASE[:77], "typ": "int", "default": _v("int", "5")}),
                                                                                                    ("m", {"doc": "a value", "typ": "int", "default": _v("int", "7")})]), doc="")),
    "C02-same-quoted-str-default-unwrapped": ("class", REST, _ir([("s", {"doc": "a value", "typ": "str", "default": _v("str", "'x'")})])),
    "C02-doc-quote-default-raises": ("class", {"style": "google", "edd": True}, _ir([("s", {"doc": "a value", "typ": "str", "default": _v("str", "a\"b")})])),
    "C02-doc-escaped-str-default": ("function", dict(FN, edd=True), _ir([("s", {"doc": "a value", "typ": "str", "default": _v("str", "a\\'b")})])),
    "C02-doc-rest-marker-in-prose-param": ("class", REST, _ir([("n", {"doc": "The :param of the caller, kept", "typ": "int"})])),
    "C02-doc-rest-marker-in-prose-return": ("class", REST, _ir([("n", {"doc": "Same as :return: of the caller", "typ": "int"})])),
    "C02-doc-numpydoc-returns-colon-return": ("class", {"style": "numpydoc", "edd": False}, dict(_ir([("n", {"doc": "a value", "typ": "int"})]), doc="Like Returns: of the caller")),
    "C02-doc-numpydoc-returns-colon-raises": ("class", {"style": "numpydoc", "edd": False},
                                              dict(_ir([("x1", {"doc": "learning rate used", "typ": "float"})], {"doc": "weight decay factor", "typ": "Optional[str]", "default": _v("str", "(a, b)")}),
                                                   doc="Like Returns: of the caller\n\nLonger description here.")),
    "C02-nan-default-binop": ("class", REST, _ir([("x", {"doc": "a value", "typ": "float", "default": _v("float", "nan")})])),
    "C02-doc-inf-nan-default-raises": ("class", {"style": "google", "edd": True}, _ir([("x", {"doc": "a value", "typ": "float", "default": _v("float", "inf")})])),
    "C02-return-number-source-evaluated": ("function", FN, _ir([], {"doc": "the result", "typ": "List[float]", "default": _v("str", "1e+20")})),
    "C02-argparse-pep604-flattened": ("argparse", REST, _ir([("x", {"doc": "a value", "typ": "List[int] | None"})])),
    "C02-argparse-dict-flattened": ("argparse", REST, _ir([("x", {"doc": "a value", "typ": "Dict[str, int]"})])),
    "C02-argparse-tuple-flattened": ("argparse", REST, _ir([("x", {"doc": "a value", "typ": "Tuple[int, str]"})])),
    "C02-argparse-nested-list-flattened": ("argparse", REST, _ir([("x", {"doc": "a value", "typ": "List[Optional[int]]"})])),
    "C02-doc-google-numpydoc-argparse-return": ("argparse", {"style": "google", "edd": False}, _ir([], {"doc": "the result", "typ": "int", "default": _v("str", "K")})),
}


def theorem_instance(chk, rec, claimed):
    """inside D02 with the docstring-layer hypotheses true on the real layer, the model predicts view(norm ir): a case where the compiled
    model says otherwise is a broken obligation (a real difference there is then a disagreement AND an oracle failure)"""
    m = rec["m_dom"]
    if not (m.get("in") and m.get("hyp")):
        return False
    mp = rec["m_parse"]
    if claimed and "ok" in mp and view(mp["ok"]) != view(norm_expected(rec["fmt"], rec["irj"])):
        chk.disagreement("C02 theorem instance: model round trip differs from norm(ir) inside D02 with the hypotheses true",
                         {"fmt": rec["fmt"], "cfg": rec["cfg"], "ir": rec["irj"]}, view(norm_expected(rec["fmt"], rec["irj"])), view(mp["ok"]))
    return bool(claimed)


# fixed corner interfaces, run on every seed through all four formats and every configuration: descriptions (parameters AND return
# entry) with the separators of the format-level parsers; a return entry with a default, so that argparse keeps it
CORNERS = [
    dict(_ir([("x", {"doc": "Alpha, beta and gamma weights", "typ": "int", "default": _v("int", "5")})],
             {"doc": "Train, validation and tests dataset splits.", "typ": "List[int]", "default": _v("str", "K")}), doc="Summary line."),
    dict(_ir([("s", {"doc": "The ratio: kept; see (alpha) - beta", "typ": "str", "default": _v("str", "")}),
              ("t", {"doc": "The 'alpha' -> \"beta\" map, kept = yes,", "typ": "Optional[int]", "default": _v("int", "0")})],
             {"doc": "Weights for alpha, beta, gamma, in that order,", "typ": "Optional[str]", "default": _v("str", "K")}), doc=""),
    # a string default that begins with one kind of quote and ends with the other (nothing may be cut off it)
    dict(_ir([("msg", {"doc": "the message shown", "typ": "str", "default": _v("str", "'{name}' is not \"{other}\"")}),
              ("alt", {"doc": "the other message", "typ": "Optional[str]", "default": _v("str", "\"x'")})]), doc="Summary line."),
    # a Google section keyword mentioned as prose (interface description and a parameter's); the same text without the colon is the control
    dict(_ir([("n", {"doc": "Kept as is, e.g. Raises: nothing", "typ": "int"}), ("m", {"doc": "a count", "typ": "int", "default": _v("int", "5")})],
             {"doc": "the result", "typ": "List[int]"}), doc="Does the thing, e.g. Raises: nothing"),
    dict(_ir([("n", {"doc": "Same as Args: of the caller", "typ": "int"})], {"doc": "Like Returns: of the caller", "typ": "List[int]"}), doc="Summary line."),
    dict(_ir([("n", {"doc": "Kept as is, e.g. Raises nothing", "typ": "int"}), ("m", {"doc": "a count", "typ": "int", "default": _v("int", "5")})],
             {"doc": "the result", "typ": "List[int]"}), doc="Does the thing, e.g. Raises nothing"),
    # floats whose repr has an exponent with a plus sign, not last and last (the ReST reader is position dependent); with Google via the styles
    dict(_ir([("big", {"doc": "the upper bound", "typ": "float", "default": _v("float", "1e+20")}), ("n", {"doc": "a count", "typ": "int", "default": _v("int", "5")}),
              ("cap", {"doc": "the other bound", "typ": "float", "default": _v("float", "1e+20")})]), doc="Summary line."),
    dict(_ir([("scale", {"doc": "the scale used", "typ": "float", "default": _v("float", "2.5e+16")}), ("tiny", {"doc": "the step used", "typ": "Optional[float]", "default": _v("float", "5e-324")}),
              ("huge", {"doc": "the limit used", "typ": "int", "default": _v("int", str(10 ** 30))})], {"doc": "the result", "typ": "List[float]", "default": _v("str", "K")}), doc=""),
    # return types that contain "[" but do not end in "]" (PEP 604), with a return default, so that `_interpolate_return` looks at the type
    dict(_ir([("n", {"doc": "a count", "typ": "int"})], {"doc": "the result", "typ": "Tuple[int, str] | None", "default": _v("str", "```foo(3)```")}), doc="Summary line."),
    dict(_ir([("seq", {"doc": "the items", "typ": "List[int] | None"}), ("opts", {"doc": "the options", "typ": "Dict[str, Optional[int]]", "default": _v("str", "```bar(1)```")})],
             {"doc": "the result", "typ": "Dict[str, int] | None", "default": _v("str", "K")}, typ="self"), doc=""),
    dict(_ir([("flag", {"doc": "Kept between runs,", "typ": "bool", "default": _v("bool", "False")})],
             {"doc": "One of: alpha, beta; or (gamma)", "typ": "List[int]", "default": _v("str", "K")}, typ="self"), doc="Summary line."),
]


def witness_cases():
    return [(f, c, R.json_to_ir(j)) for f, c, j in WITNESSES.values()]


THEOREMS = ["C02.C02_class", "C02.C02_pydantic", "C02.C02_function", "C02.C02_argparse",
            "C02.argparse_zero_default", "C02.C02_full_fails_argparse_zero_default",
            "C02.argparse_bool_optional", "C02.C02_full_fails_argparse_bool_optional",
            "C02.argparse_nonscalar_str", "C02.C02_full_fails_argparse_nonscalar_str",
            "C02.argparse_union_narrowed", "C02.C02_full_fails_argparse_union_narrowed",
            "C02.argparse_none_default_dropped", "C02.C02_full_fails_argparse_none_default_dropped",
            "C02.class_typ_dropped_code_default", "C02.C02_full_fails_typ_dropped_code_default",
            "C02.function_negative_under_str_type", "C02.C02_full_fails_function_negative_under_str_type",
            "C02.function_return_typ_reinferred", "C02.C02_full_fails_function_return_typ_reinferred",
            "C02.function_return_typ_dropped", "C02.C02_full_fails_function_return_typ_dropped",
            "C02.function_return_default_code_quoted", "C02.C02_full_fails_function_return_default_code_quoted",
            "C02.argparse_return_code_quoted", "C02.C02_full_fails_argparse_return_code_quoted",
            "C02.class_same_quoted_default_unwrapped", "C02.C02_full_fails_same_quoted_default_unwrapped", "C02.class_mixed_quote_default_kept",
            "C02.function_exponent_float_kept"]


# ----------------------------------------------------------------------------------------------------------------------
# the concrete ReST docstring layer of Properties/C02Rest.lean (Model/IfaceRestEnv.lean: restEnv) against the real emitter and readers
# ----------------------------------------------------------------------------------------------------------------------
def _rl_lean_str(s):
    out = '"'
    for ch in s:
        out += '\\"' if ch == '"' else '\\\\' if ch == '\\' else '\\n' if ch == '\n' else ch
    return out + '"'


def _rl_default(d):
    if d is None:
        return "none"
    if isinstance(d, bool):
        return "some (.val (.bool %s))" % ("true" if d else "false")
    if isinstance(d, int):
        return "some (.val (.int (%d)))" % d
    if isinstance(d, float):
        return "some (.val (.float %s))" % _rl_lean_str(repr(d))
    return "some (.val (.str %s))" % _rl_lean_str(d)


def _rl_param(p):
    return "{ doc := %s, typ := %s, default := %s }" % ("some " + _rl_lean_str(p["doc"]) if "doc" in p else "none", "some " + _rl_lean_str(p["typ"]) if "typ" in p else "none", _rl_default(p.get("default")))


def _rl_esc(s):
    return s.replace("\\", "\\\\").replace("\n", "\\n")


def rest_layer_stream(chk, rng):
    """docEmitL of restEnv (incl. the ports of the purpose=class emitter and of the indent stage) = cdd.docstring.emit.docstring, character for character, wherever the
    model answers; the comparison runs the model through `lake env lean --run` on a generated Main (the op is not part of the compiled driver)"""
    import subprocess
    from collections import OrderedDict
    from copy import deepcopy

    from cdd.docstring.emit import docstring

    words = ["step size", "rounds", "be loud", "the seed", "first one", "a colon: here", "with (parens)", "ends with dot.", "ends with comma,", "two  spaces", "x"]
    headers = ["", "Fit.", "Train the model", "Line one\nline two", "A: b (c)", "Ends.  "]
    names = ["lr", "n", "v", "seed", "data_path", "x1", "alpha_beta"]
    types = [None, "int", "float", "bool", "str", "Optional[int]", "List[str]", "np.ndarray", "Union[int, float]"]
    defaults = [None, 0, 10, -3, 0.5, 2.0, True, False, "abc", "", "```(None)```", "```foo(3)```"]
    cases = []
    for _ in range(120 if chk.quick else 600):
        params = OrderedDict()
        for n in rng.sample(names, rng.choice([1, 1, 2, 3])):
            p = {}
            if rng.random() < 0.9:
                p["doc"] = rng.choice(words)
            t = rng.choice(types)
            if t:
                p["typ"] = t
            d = rng.choice(defaults)
            if d is not None and rng.random() < 0.6:
                p["default"] = d
            params[n] = p
        ret = None
        if rng.random() < 0.4:
            r_ = {"doc": rng.choice(words)}
            t = rng.choice(types)
            if t:
                r_["typ"] = t
            ret = OrderedDict([("return_type", r_)])
        ir = {"name": "F", "type": "static", "doc": rng.choice(headers), "params": params, "returns": ret}
        cfg = dict(purpose="class" if rng.random() < 0.4 else "function", indent_level=rng.choice([0, 1, 2]), emit_separating_tab=rng.random() < 0.5, emit_types=rng.random() < 0.5,
                   emit_default_doc=rng.random() < 0.5)
        try:
            real = docstring(deepcopy(ir), docstring_format="rest", word_wrap=True, **cfg)
        except Exception:  # noqa
            real = None
        cases.append((ir, cfg, real))
    L = ["import CddVerif.Model.IfaceRestEnv", "open Iface IfaceRest",
         "def esc (s : String) : String := s.foldl (fun acc c => if c == '\\n' then acc ++ \"\\\\n\" else if c == '\\\\' then acc ++ \"\\\\\\\\\" else acc.push c) \"\"",
         "def run (i : Nat) (c : DocEmitCfg) (ir : IR) : IO Unit := do",
         "  match docEmitL c ir with",
         "  | .ok t => IO.println s!\"E {i} OK {esc (String.ofList t)}\"",
         "  | .outside w => IO.println s!\"E {i} OUTSIDE {w}\"",
         ]
    body = []
    for i, (ir, cfg, real) in enumerate(cases):
        params = "[" + ", ".join("(%s, %s)" % (_rl_lean_str(n), _rl_param(p)) for n, p in ir["params"].items()) + "]"
        ret = "none" if ir["returns"] is None else "some " + _rl_param(ir["returns"]["return_type"])
        irs = "{ name := some \"F\", doc := %s, params := %s, returns := %s }" % (_rl_lean_str(ir["doc"]), params, ret)
        cfgs = "{ style := .rest, emitDefaultDoc := %s, emitTypes := %s, purposeClass := %s, indentLevel := %d, emitSeparatingTab := %s }" % (
            str(cfg["emit_default_doc"]).lower(), str(cfg["emit_types"]).lower(), str(cfg["purpose"] == "class").lower(), cfg["indent_level"], str(cfg["emit_separating_tab"]).lower())
        body.append("  run %d %s %s" % (i, cfgs, irs))
    # one `do` block per 100 cases (a single block with hundreds of statements exceeds Lean's elaboration depth)
    chunks = [body[k:k + 100] for k in range(0, len(body), 100)]
    for k, ch in enumerate(chunks):
        L += ["def part%d : IO Unit := do" % k] + ch
    L += ["def main : IO Unit := do"] + ["  part%d" % k for k in range(len(chunks))]
    d = core.VERIF / ".scratch" / ("c02rest_%d" % os.getpid())
    d.mkdir(parents=True, exist_ok=True)
    try:
        (d / "Main.lean").write_text("\n".join(L) + "\n")
        try:
            pr = subprocess.run(["lake", "env", "lean", "--run", str(d / "Main.lean")], cwd=str(core.LEAN), stdout=subprocess.PIPE, stderr=subprocess.PIPE, text=True, timeout=900)
        except subprocess.TimeoutExpired:
            raise core.HarnessError("the ReST-layer model run did not finish in 900 s")
        if pr.returncode != 0:
            chk.oblige("correspondence: restEnv.docEmitL = cdd.docstring.emit.docstring", "correspondence", False, "the model run failed: %s" % (pr.stderr or pr.stdout)[-800:])
            return
        n_ok = n_out = n_dis = 0
        for line in pr.stdout.split("\n"):
            parts = line.split(" ", 3)
            if len(parts) < 3 or parts[0] != "E":
                continue
            ir, cfg, real = cases[int(parts[1])]
            chk.count(("restlayer", json.dumps([ir, cfg], sort_keys=True, default=dict)), parts[2] == "OK" and real is not None)
            if parts[2] != "OK" or real is None:
                n_out += 1
                continue
            got = parts[3] if len(parts) > 3 else ""
            if got == _rl_esc(real):
                n_ok += 1
            else:
                n_dis += 1
                chk.disagreement("C02 correspondence: restEnv.docEmitL (ReST docstring layer of C02Rest) vs cdd.docstring.emit.docstring", {"ir": json.loads(json.dumps(ir, default=dict)), "cfg": cfg}, _rl_esc(real), got)
        chk.coverage["rest_layer_emit"] = {"agree": n_ok, "model_abstains_or_real_raises": n_out, "disagree": n_dis}
        chk.oblige("correspondence: restEnv.docEmitL (purpose class/function, indent 0-2, separating tab, types, defaults) = cdd.docstring.emit.docstring on %d docstrings (%d abstentions)" % (n_ok + n_dis, n_out),
                   "correspondence", n_dis == 0 and n_ok > 20, "%d disagreements" % n_dis)
    finally:
        import shutil as _sh

        _sh.rmtree(d, ignore_errors=True)


def run(chk: core.Check) -> int:
    import collections

    chk.lean(MODULE, THEOREMS + REST_THEOREMS)
    chk.trusted_base.append("Properties/C02Rest.lean: the abstract docstring layer `env` of the C02 theorems instantiated by the character-level ReST model of C01 (Model/IfaceRestEnv.lean: restEnv, with ports of the "
                            "purpose=class emitter and the indent stage of docstring()); on the decidable region InRest (ReST, emit_default_doc=False, one-line header, C01Whole.InDomain of the converted interface, "
                            "no prose type triggers; class/pydantic without return entry; argparse without return default) the four round-trip theorems hold with NO hypothesis about the docstring layer "
                            "(C02Rest_class/_pydantic/_function/_argparse); CPython's expression parser stays the parameter pyExpr; outside InRest (Google/NumPy styles, emit_default_doc=True, multi-line headers) "
                            "the layer remains a parameter whose answers the harness evaluates per case; the composed model's EMITTER (docEmitL incl. the class-purpose and indent ports) is compared with cdd.docstring.emit.docstring on every run through `lean --run`; its readers were compared with the real ones by hand only (0 differences inside InRest)")
    chk.trusted_base += [
        "model lean/CddVerif/Model/Iface{IR,Emit,Parse,Domain}.lean: the four emitters, the render/re-read step (negative numbers become UnaryOp) and the three parsers, ported decision by decision; tied to /repo by comparing, per case, the emitted AST (shared flat AST with ast.unparse texts and a structured form), the re-parsed AST and the parsed IR",
        "the docstring layer (cdd.docstring.emit/parse, extract_default, parse_adhoc_doc_for_typ — property C01) and CPython's expression parser are PARAMETERS of the model (Iface.Env); the theorems assume the stated decidable hypotheses about their answers (Iface.docHyp); the driver evaluates those hypotheses on the real layer's answers for every case and the evidence counts how often they hold",
        "type strings are modelled as strings: `in simple_types`, `startswith('Optional[')`, `'[' in typ`, needs_quoting (identifier token `str` or a quote character), ast.walk name order = textual order; checked against the real predicates on every generated type (op c02.types)",
        "ast.unparse of constants (repr of str/int, float/complex carried as their repr), textwrap.fill = identity on the generated one-line descriptions",
    ]
    rng = chk.rng
    stats = collections.Counter()
    sig_counts = {}
    # ---- (0) string / type primitives ---------------------------------------------------------------------------
    n_prim = prim_correspondence(chk, rng)
    # ---- (1) witnesses of the known findings -------------------------------------------------------------------
    wrecs = run_cases(chk, witness_cases(), "witness")
    for wid, rec in zip(WITNESSES, wrecs):
        compare(chk, rec, stats, "witness")
        before = {k: v["count"] for k, v in chk.known_seen.items()}
        fails = evaluate(chk, rec, sig_counts)
        hit = chk.known_seen.get(wid, {}).get("count", 0) > before.get(wid, 0)
        if not hit:
            chk.notes.append("witness of %s no longer fails with its signature (stale finding?) — %d failures" % (wid, len(fails)))
    # ---- (2) main stream: generated interfaces x all configurations ---------------------------------------------
    n_ir = 230 if chk.quick else 5000
    cases = gen_cases(rng, n_ir)
    cov = collections.Counter()
    n_claimed = n_thm = n_hyp = n_in = n_main = 0
    B = 4200
    for i in range(0, len(cases), B):
        # batches are evaluated and dropped (a record carries the docstring layer's answers: ~20 kB)
        for k, rec in enumerate(run_cases(chk, cases[i:i + B], "main"), start=i):
            n_main += 1
            claimed = compare(chk, rec, stats, "main")
            fails = evaluate(chk, rec, sig_counts)
            m = rec["m_dom"]
            in_dom, hyp = bool(m.get("in")), bool(m.get("hyp"))
            if hyp != (not m.get("issues")):
                chk.notes.append("docHyp and docIssues disagree on a case: %s" % json.dumps({"fmt": rec["fmt"], "cfg": rec["cfg"], "ir": rec["irj"]})[:300])
            n_claimed += claimed
            n_in += in_dom
            n_hyp += hyp
            if in_dom and hyp:
                n_thm += 1
                # the theorem's instance, evaluated with the compiled model on the real layer's answers
                mp = rec["m_parse"]
                if claimed and "ok" in mp and view(mp["ok"]) != view(norm_expected(rec["fmt"], rec["irj"])):
                    chk.disagreement("C02 theorem instance: model round trip differs from norm(ir) inside D02 with the hypotheses true",
                                     {"fmt": rec["fmt"], "cfg": rec["cfg"], "ir": rec["irj"]}, view(norm_expected(rec["fmt"], rec["irj"])), view(mp["ok"]))
            chk.count((rec["fmt"], json.dumps(rec["cfg"], sort_keys=True), json.dumps(rec["irj"], sort_keys=True)), in_dom and hyp and claimed)
            cov[("format", rec["fmt"])] += 1
            cov[("domain", rec["fmt"], rec["cfg"]["style"], "in D02" if in_dom else "outside D02", "doc-layer hypotheses hold" if hyp else "doc-layer hypotheses fail")] += 1
            for _, p in rec["irj"]["params"]:
                if rec["fmt"] == "class" and rec["cfg"] == CFGS["class"][0]:
                    fl = default_flags(p.get("default"))
                    cov[("param", typ_kind(p["typ"]), default_kind(p.get("default")) + ("/falsy" if fl["falsy"] else "") + ("/neg" if fl["neg"] else ""))] += 1
            if k < 3:
                chk.sample({"fmt": rec["fmt"], "cfg": rec["cfg"], "ir": rec["irj"], "src": rec["real"].get("src"), "parsed_view": view(rec["real"]["parsed"]) if "parsed" in rec["real"] else None,
                            "in_D02": in_dom, "doc_hyp": hyp, "failures": [t for _, t in fails][:3]})
    # ---- (3) parse-only stream -----------------------------------------------------------------------------------
    all_srcs = gen_parse_sources(rng, 1000 if chk.quick else 12000)
    for i in range(0, len(all_srcs), 3000):
        srcs = all_srcs[i:i + 3000]
        preals = core.pmap(real_parse_source, srcs, chunksize=32)
        pmodels = core.model_batch([{"op": "c02.parse", "fmt": f, "ast": r["reparsed"], "env": r["env"]} for (f, _), r in zip(srcs, preals)])
        for (f, src), r, mp in zip(srcs, preals, pmodels):
            rec = {"fmt": f, "cfg": {"source": src}, "irj": None, "real": dict(r, emit_py=None, emit_ast=None), "m_emit": {"error": "unsupported: parse-only"}, "m_parse": mp}
            compare(chk, rec, stats, "parse-only")
            chk.count(("parse-only", f, src), False)
    srcs = all_srcs
    # ---- (4) outside the domain: descriptions with ad-hoc type triggers (correspondence only) --------------------
    tcases = gen_cases(rng, 30 if chk.quick else 300, trigger_docs=True)
    for i in range(0, len(tcases), B):
        for rec in run_cases(chk, tcases[i:i + B], "triggers"):
            compare(chk, rec, stats, "triggers")
            chk.count(("trigger", rec["fmt"], json.dumps(rec["cfg"], sort_keys=True), json.dumps(rec["irj"], sort_keys=True)), False)
    # ---- (5) wrap boundary: description lengths swept across textwrap.fill's width, so that with emit_default_doc=True the
    #          line break falls at every position of ". Defaults to <value>"; the property oracle runs on the REAL pipeline
    #          (the model takes the docstring text from the real layer, textwrap itself is outside it)
    wirs = G.gen_wrap_irs(rng, per_length=3 if chk.quick else 16)
    wcases = [(f, c, ir) for ir in wirs for f in R.FORMATS for c in CFGS[f]]
    wshape = collections.Counter()
    woffsets = {}
    n_wrap_thm = 0
    for i in range(0, len(wcases), B):
        for rec in run_cases(chk, wcases[i:i + B], "wrap"):
            claimed = compare(chk, rec, stats, "wrap")
            evaluate(chk, rec, sig_counts)
            ok_thm = theorem_instance(chk, rec, claimed)
            n_wrap_thm += ok_thm
            chk.count(("wrap", rec["fmt"], json.dumps(rec["cfg"], sort_keys=True), json.dumps(rec["irj"], sort_keys=True)), ok_thm)
            if rec["cfg"]["edd"] and rec["cfg"]["style"] == "rest" and rec["fmt"] != "argparse":
                dt = emitted_docstring(rec["real"])
                names = [k for k, _ in rec["irj"]["params"]]
                for pos, nm in enumerate(names):
                    shape, off = announcement_shape(dt, nm)
                    place = "last" if pos == len(names) - 1 and rec["irj"].get("returns") is None else "not-last"
                    grp = "class/pydantic" if rec["fmt"] in ("class", "pydantic") else "function"
                    wshape[(grp, place, shape)] += 1
                    if off is not None:
                        woffsets.setdefault("%s | %s" % (grp, shape), set()).add(off)
    chk.coverage["wrap_stream"] = {
        "interfaces": len(wirs), "cases": len(wcases), "description_lengths": [G.WRAP_LENGTHS[0], G.WRAP_LENGTHS[-1]],
        "cases inside D02 with the docstring-layer hypotheses true": n_wrap_thm,
        "announcement_shapes (ReST, emit_default_doc=True)": {" | ".join(k): v for k, v in sorted(wshape.items())},
        "line-break offsets inside '. Defaults to <value>' that occurred": {k: sorted(v) for k, v in sorted(woffsets.items())},
    }
    # ---- (6) separators: descriptions of parameters AND return entries with the punctuation the format-level parsers split on
    #          (commas, colons, semicolons, " - ", parentheses, "->", "=", quotes, a trailing comma); fixed corners first, on every seed
    pirs = [R.json_to_ir(j) for j in CORNERS] + \
        [G.gen_ir(rng, punct=0.8, with_return=True if rng.random() < 0.7 else None, ret_default=True if rng.random() < 0.6 else None,
                  ftype=rng.choice(["static", "static", "self", "cls"])) for _ in range(60 if chk.quick else 1200)]
    pcases = [(f, c, ir) for ir in pirs for f in R.FORMATS for c in CFGS[f]]
    n_punct_thm = 0
    pret = collections.Counter()
    for i in range(0, len(pcases), B):
        for rec in run_cases(chk, pcases[i:i + B], "separators"):
            claimed = compare(chk, rec, stats, "separators")
            evaluate(chk, rec, sig_counts)
            ok_thm = theorem_instance(chk, rec, claimed)
            n_punct_thm += ok_thm
            chk.count(("separators", rec["fmt"], json.dumps(rec["cfg"], sort_keys=True), json.dumps(rec["irj"], sort_keys=True)), ok_thm)
            rp = rec["irj"].get("returns")
            if rec["fmt"] == "argparse" and rp is not None and rp.get("default") is not None:
                d = rp.get("doc") or ""
                pret[("argparse return entry kept | %s | commas in its description: %s | %s" %
                      (rec["cfg"]["style"], min(d.count(","), 3), "theorem applies" if ok_thm else "outside D02 / hypotheses"))] += 1
    chk.coverage["separator_stream"] = {"interfaces": len(pirs), "fixed corners (separators, mixed-quote default, Google keyword in prose + control)": len(CORNERS), "cases": len(pcases),
                                        "cases inside D02 with the docstring-layer hypotheses true": n_punct_thm,
                                        "descriptions": G.PUNCT_DOCS, "argparse_return_descriptions": dict(sorted(pret.items()))}
    # ---- (7) quotes: string defaults with quote characters in every position (mixed kinds at the two ends, one end only, inside,
    #          same-kind wrapped, a lone quote, escaped); (8) keywords: descriptions (interface / parameter / return entry) that mention, as
    #          prose, the section keywords of the docstring styles; both through all four formats and every configuration
    qirs = G.gen_quote_irs(rng, 42 if chk.quick else 400)
    kirs = G.gen_keyword_irs(rng, 54 if chk.quick else 405)
    extra = collections.Counter()
    n_extra_thm = 0
    nirs = G.gen_numeric_irs(rng, 44 if chk.quick else 660)
    tirs = G.gen_typeshape_irs(rng, rounds=3 if chk.quick else 30)
    for label, irs_ in (("quotes", qirs), ("keywords", kirs), ("numeric", nirs), ("types", tirs)):
        xcases = [(f, c, ir) for ir in irs_ for f in R.FORMATS for c in CFGS[f]]
        for i in range(0, len(xcases), B):
            for rec in run_cases(chk, xcases[i:i + B], label):
                claimed = compare(chk, rec, stats, label)
                evaluate(chk, rec, sig_counts)
                ok_thm = theorem_instance(chk, rec, claimed)
                n_extra_thm += ok_thm
                chk.count((label, rec["fmt"], json.dumps(rec["cfg"], sort_keys=True), json.dumps(rec["irj"], sort_keys=True)), ok_thm)
                if label == "types":
                    rp = rec["irj"]["returns"]
                    extra[("types", "function" if rec["fmt"] == "function" else "class/pydantic/argparse", "return " + rp["typ"],
                           "return default " + default_kind(rp.get("default")), "theorem applies" if ok_thm else "outside D02 / hypotheses")] += 1
                elif label == "numeric":
                    ps = rec["irj"]["params"]
                    for pos, (_, p) in enumerate(ps):
                        place = "only" if len(ps) == 1 else "first" if pos == 0 else "last" if pos == len(ps) - 1 else "middle"
                        extra[("numeric", "function" if rec["fmt"] == "function" else "class/pydantic/argparse", G.num_shape_json(p.get("default")), place,
                               "theorem applies" if ok_thm else "outside D02 / hypotheses")] += 1
                elif label == "quotes":
                    for _, p in rec["irj"]["params"]:
                        if (p.get("default") or {}).get("t") == "str":
                            extra[("quotes", rec["fmt"], G.quote_shape(p["default"]["v"]), "theorem applies" if ok_thm else "outside D02 / hypotheses")] += 1
                else:
                    extra[("keywords", rec["fmt"], rec["cfg"]["style"], interface_keywords(rec["irj"]) or "control", "theorem applies" if ok_thm else "outside D02 / hypotheses")] += 1
    chk.coverage["quote_and_keyword_streams"] = {"quote interfaces": len(qirs), "keyword interfaces": len(kirs), "numeric interfaces": len(nirs),
                                                 "type-shape interfaces": len(tirs), "cases": (len(qirs) + len(kirs) + len(nirs) + len(tirs)) * 42,
                                                 "cases inside D02 with the docstring-layer hypotheses true": n_extra_thm,
                                                 "distribution": {" | ".join(k): v for k, v in sorted(extra.items())}}
    n_dis = sum(v for k, v in stats.items() if k[-1] == "DISAGREE")
    n_agree = sum(v for k, v in stats.items() if k[-1] == "agree" or k[-1].startswith("both raise") or k[-1].startswith("docstring layer raises"))
    chk.oblige("correspondence: real emitters/parsers = Iface.emit / Top.reparse / Iface.parse on %d generated cases + %d hand-written sources + %d trigger cases + %d wrap-boundary cases + %d separator cases + %d quote / keyword / numeric / type-shape cases + %d witnesses "
               "(emitted AST, re-parsed AST, parsed IR)" % (n_main, len(srcs), len(tcases), len(wcases), len(pcases), (len(qirs) + len(kirs) + len(nirs) + len(tirs)) * 42, len(WITNESSES)), "correspondence", n_dis == 0,
               "%d disagreements; %d stage agreements; %d cases fully claimed by the model" % (n_dis, n_agree, n_claimed))
    chk.coverage["correspondence_outcomes"] = {" | ".join(k): v for k, v in sorted(stats.items())}
    chk.coverage["input_distribution"] = {" | ".join(k): v for k, v in sorted(cov.items())}
    chk.coverage["real_round_trip_failure_signatures"] = dict(sorted(sig_counts.items()))
    chk.coverage["theorem_instances"] = {"cases in D02": n_in, "cases with the docstring-layer hypotheses true": n_hyp, "both (theorem applies)": n_thm,
                                         "primitive comparisons": n_prim}
    import random as _random

    rest_layer_stream(chk, _random.Random(chk.seed * 7919 + 2))
    return chk.finish("generated signature-legal interfaces (0-5 parameters; scalar / complex / Optional / Union / Optional[Union] / List / Literal / dotted types; int, float, bool, str, "
                      "complex, None and code defaults with ~45 % falsy values; return entries with and without a source default; static / self / cls) x 4 formats x 3 docstring styles x "
                      "emit_default_doc x (type annotations, kw-only) for functions: real emit -> to_code -> ast.parse -> real parse; oracle = names, order, types, typed defaults, "
                      "descriptions (whitespace / terminal full stop) against the interface under the statement's two normalisations only; non-trivial = inside D02 with the docstring-layer "
                      "hypotheses true on the real layer and every stage claimed by the model; plus a wrap-boundary stream (2-4 parameters with defaults, description lengths 52-99 so that "
                      "textwrap.fill breaks the line at every position of '. Defaults to <value>') through the same real pipeline and oracle; plus a separator stream (descriptions of parameters and return entries with commas, colons, "
                      "semicolons, ' - ', parentheses, '->', '=', quotes, trailing comma; fixed corner interfaces on every seed); a quote stream (string defaults with quote characters in every position) and a keyword stream "
                      "(descriptions mentioning Args: / Returns: / Raises: / Kwargs: / Parameters / underlined headings / :param / :return: as prose, with colon-less controls); a numeric stream (exponent reprs with + and -, many digits, inf / nan, -0.0, 10**30, complex with exponents, "
                      "each kind in first / middle / last position); a type-shape stream (PEP 604 unions, nested and multi-argument subscripts, names beginning like Optional / a simple "
                      "type: strings on which '[' in typ, endswith(']'), startswith('Optional['), 'Optional' in typ disagree), as parameter and return types with every return-default kind")


def prim_correspondence(chk, rng):
    """needs_quoting / simple_types / ast.walk name order / string helpers against the real functions"""
    from cdd.shared.defaults_utils import needs_quoting
    from cdd.shared.pure_utils import code_quoted, paren_wrap_code, quote, simple_types, unquote
    from cdd.shared.ast_utils import set_value

    types = set()
    for _ in range(600):
        types.add(G.gen_typ(rng)[0])
    types |= set(G.TYPE_SHAPES)
    types |= {"str", "Optional[str]", "List[str]", "Dict[str, int]", "strict", "np.str_", "Optional[Literal['a', 'b']]", "Tuple[int, int]", "Any", "object", "dict"}
    types = sorted(types)
    strs = sorted(set(G.STRS + G.MORE_DOCS + G.TRIGGER_DOCS + G.RET_CODES + G.CODES + ["'x'", '"x"', "''", '""', "'", "a'b", 'a"b', "it's \"x\"", "a\\b", "tab\there", "line\nbreak  two ", "``", "```x```", "```abc",
                                                                                      "```(None)```", "  lead", "trail.  ", "dots..", ".", "", "(a)", "[1]", "{}", "a.b", "Optional x", "(Optional) y", "é ü", "x" * 120]))
    res = core.model_batch([{"op": "c02.types", "typ": t} for t in types] + [{"op": "c02.str", "s": x} for x in strs])
    bad = 0
    for t, m in zip(types, res[:len(types)]):
        tree = ast.parse(t).body[0].value
        names = [n.id for n in ast.walk(tree) if isinstance(n, ast.Name)]
        consts = [n.value for n in ast.walk(tree) if isinstance(n, ast.Constant) and isinstance(n.value, str)]
        exp = {"needs_quoting": bool(needs_quoting(t)), "names": names, "consts": consts, "simple": t in simple_types}
        if m != exp:
            bad += 1
            chk.disagreement("C02 correspondence: type-string predicates", t, exp, m)
    for x, m in zip(strs, res[len(types):]):
        exp = {"repr": repr(x), "quote": quote(x), "unquote": unquote(x), "set_value": set_value(x).value, "code_quoted": bool(code_quoted(x)), "tidy": R.tidy(x),
               "norm": norm_doc(x), "strip_ticks": x.strip("`"), "paren_wrap": paren_wrap_code(x) if x else x}
        if m != exp:
            bad += 1
            chk.disagreement("C02 correspondence: string helpers", x, exp, m)
    chk.oblige("correspondence: needs_quoting / simple_types / ast.walk name order / repr, quote, unquote, set_value, code_quoted, paren_wrap_code, tidy, normDoc on %d types and %d strings"
               % (len(types), len(strs)), "correspondence", bad == 0, "%d disagreements" % bad)
    return len(types) + len(strs)


def replay(path: str) -> int:
    d = json.loads(Path(path).read_text())
    rp = d.get("replay")
    if not rp:
        print("replay: no concrete input in", path)
        return 2
    chk = core.Check("C02", "quick", 0)
    recs = run_cases(chk, [(rp["fmt"], rp["cfg"], R.json_to_ir(rp["ir"]))], "replay")
    rec = recs[0]
    import collections

    compare(chk, rec, collections.Counter(), "replay")
    fails = evaluate(chk, rec, {})
    print("replay %s %s" % (rp["fmt"], json.dumps(rp["cfg"], sort_keys=True)))
    print(rec["real"].get("src"))
    for sig, text in fails:
        print("FAIL:", text, "|", json.dumps({k: sig[k] for k in ("layer", "field", "to", "hyp") if k in sig}))
    unlisted = [v for v in chk.violations]
    print("unlisted failures: %d, correspondence broken: %d" % (len(unlisted), len(chk.broken)))
    return 1 if unlisted or chk.broken else 0
