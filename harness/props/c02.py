"""C02 — class / pydantic / function / argparse emit → render → parse round trip (DESIGN.md §4 C02)."""
from __future__ import annotations

import ast
import copy
import json
import re
from pathlib import Path

from harness import core
from harness.gen import c02 as G
from harness.impl import c02_real as R
from harness.impl import pyast

MODULE = "CddVerif.Properties.C02"
THEOREMS = []  # filled below (kept next to the Lean file's theorem names)

CFGS = {
    "class": [{"style": s, "edd": e} for s in R.STYLES for e in (False, True)],
    "pydantic": [{"style": s, "edd": e} for s in R.STYLES for e in (False, True)],
    "function": [{"style": s, "edd": e, "type_annotations": ta, "kw_only": kw} for s in R.STYLES for e in (False, True) for ta in (True, False) for kw in (True, False)],
    "argparse": [{"style": s, "edd": e} for s in R.STYLES for e in (False, True)],
}


# ----------------------------------------------------------------------------------------------
# view and oracle
# ----------------------------------------------------------------------------------------------
def norm_doc(s):
    if not isinstance(s, str):
        return None if s is None else "<%s>" % type(s).__name__
    s = " ".join(s.split())
    if s.endswith("."):
        s = s[:-1]
    return s or None


def tv(d):
    """typed rendering of a JSON default"""
    if d is None:
        return "absent"
    if d["t"] == "node":
        return "node:" + json.dumps(d["e"], sort_keys=True)
    return "%s:%s" % (d["t"], d["v"])


def view_param(name, p):
    return [name, p.get("typ"), tv(p.get("default")), norm_doc(p.get("doc"))]


def view(irj):
    return {"params": [view_param(k, p) for k, p in irj["params"]], "returns": None if irj.get("returns") is None else view_param("return_type", irj["returns"])}


def norm_expected(fmt, irj):
    """EXACTLY the statement's per-format normalisations (mirrors `C02.norm` of Properties/C02.lean)"""
    irj = copy.deepcopy(irj)
    if fmt == "function":
        for _, p in irj["params"]:
            if p.get("default") is None:
                p["default"] = {"t": "str", "v": R.NONE}
    if fmt == "argparse":
        if irj.get("returns") is not None and irj["returns"].get("default") is None:
            irj["returns"] = None
    return irj


def typ_kind(t):
    if t is None:
        return "none"
    if t in ("int", "float", "str", "bool", "complex"):
        return "scalar:" + t
    if t.startswith("Optional[Union["):
        return "optunion"
    if t.startswith("Optional["):
        return "optional"
    if t.startswith("Union["):
        return "union"
    if t.startswith("List["):
        return "list"
    if t.startswith("Literal["):
        return "literal"
    if re.fullmatch(r"[A-Za-z_][\w.]*", t):
        return "dotted"
    return "other"


def default_kind(d):
    if d is None:
        return "absent"
    if d["t"] == "str":
        v = d["v"]
        if v == R.NONE:
            return "none"
        if len(v) > 6 and v.startswith("```") and v.endswith("```"):
            return "code"
        return "str"
    return d["t"].split(":")[0]


def default_flags(d):
    f = {"neg": False, "falsy": False, "dot": False, "binop": False}
    if d is None:
        return f
    if d["t"] in ("int", "float", "complex") and d["v"].startswith(("-", "(-")):
        f["neg"] = True
    if d["t"] == "complex" and d["v"].startswith("("):
        f["binop"] = True
    if (d["t"] == "int" and d["v"] == "0") or (d["t"] == "float" and d["v"] in ("0.0", "-0.0")) or (d["t"] == "bool" and d["v"] == "False") \
            or (d["t"] == "str" and d["v"] == "") or (d["t"] == "complex" and d["v"] == "0j"):
        f["falsy"] = True
    if d["t"] == "str" and "." in d["v"]:
        f["dot"] = True
    return f


def to_class(field, exp, got, sp):
    """coarse class of the value that came back"""
    if field == "typ":
        if got is None:
            return "None"
        if exp is not None and got == "Optional[%s]" % exp:
            return "Optional[same]"
        if exp is not None and exp.startswith("Union[") and got in [x.strip() for x in exp[6:-1].split(",")]:
            return "union-member"
        if exp is not None and exp.startswith("Optional[Union[") and got.startswith("Optional[") and got[9:-1] in [x.strip() for x in exp[15:-2].split(",")]:
            return "Optional[union-member]"
        return typ_kind(got)
    if field == "default":
        if got == "absent":
            return "absent"
        k, _, v = got.partition(":")
        if k == "node":
            return "ast-node"
        zero = {"int": "0", "float": "0.0", "complex": "0j", "bool": "False", "str": ""}
        if exp == "absent" and zero.get(k) == v:
            return "zero-of-type"
        if k == "str":
            if v == R.NONE:
                return "none"
            if v == "(None)":
                return "str:(None)"
            ek, _, ev = (exp or "").partition(":")
            if ek == "str" and v in ("'%s'" % ev, '"%s"' % ev):
                return "str:quoted"
            if ek == "str" and v == "```%s```" % ev:
                return "str:code-quoted"
            if ek == "str" and v == "```(%s)```" % ev.strip("`"):
                return "str:code-parenthesised"
            if ek == "str" and v == ev.strip("`"):
                return "str:unquoted-code"
            if len(v) > 6 and v.startswith("```"):
                return "code"
        return k
    if field == "doc":
        if got is None:
            return "lost"
        if exp is not None and got.startswith(exp):
            rest = got[len(exp):]
            if re.match(r"^[.,]? ?[Dd]efaults? to", rest) or re.match(r"^[.,]? ?Default", rest):
                return "default-announcement-kept"
            return "suffix-added"
        if exp is None:
            return "appeared"
        return "changed"
    return str(got)[:40]


def oracle(fmt, cfg, irj, got_irj, issues=(), in_domain=False):
    """the property on the real round trip: names, order, types, typed defaults, normalised descriptions; only the
    statement's two normalisations are applied to the expectation.  → list of (signature, text).

    `issues` = clauses of the docstring-layer hypothesis that fail on the real layer for this case, per entry
    (evaluated by the model on the real layer's answers): a difference on an entry with a failed clause is signed
    `layer=docstring` (the docstring layer is property C01's; here it is a parameter), any other `layer=format`."""
    exp, got = view(norm_expected(fmt, irj)), view(got_irj)
    iss = {}
    for e, c in issues:
        iss.setdefault(e, set()).add(c)
    glob = iss.get("*", set())
    base = {"format": fmt, "style": cfg["style"], "style_group": "rest" if cfg["style"] == "rest" else "google/numpydoc", "edd": cfg["edd"],
            "ta": cfg.get("type_annotations"), "kw": cfg.get("kw_only"), "in_domain": in_domain}

    def layer(entry_name):
        cl = sorted(iss.get(entry_name, set()) | glob)
        return {"layer": "docstring" if cl else "format", "hyp": "+".join(cl)}

    out = []
    en, gn = [p[0] for p in exp["params"]], [p[0] for p in got["params"]]
    if en != gn:
        kind = "lost" if set(gn) < set(en) else "order" if sorted(en) == sorted(gn) else "other"
        allc = sorted(set().union(*iss.values())) if iss else []
        out.append((dict(base, entry="param", field="names", to=kind, layer="docstring" if ("keys" in allc) else "format", hyp="+".join(allc)),
                    "parameter names %s, expected %s" % (gn, en)))
    src = dict((k, p) for k, p in irj["params"])
    gd = dict((p[0], p) for p in got["params"])
    pairs = [("param", e, gd.get(e[0]), src.get(e[0])) for e in exp["params"] if e[0] in gd]
    if (exp["returns"] is None) != (got["returns"] is None):
        rp = irj.get("returns") or {}
        out.append((dict(base, entry="return", field="presence", typ_kind=typ_kind(rp.get("typ")), has_bracket="[" in (rp.get("typ") or ""),
                         default_kind=default_kind(rp.get("default")), to="lost" if got["returns"] is None else "appeared", **layer("return_type")),
                    "return entry %s, expected %s" % (got["returns"], exp["returns"])))
    elif exp["returns"] is not None:
        pairs.append(("return", exp["returns"], got["returns"], irj["returns"]))
    for entry, e, g, sp in pairs:
        for field, i in (("typ", 1), ("default", 2), ("doc", 3)):
            if e[i] != g[i]:
                sig = dict(base, entry=entry, field=field, typ_kind=typ_kind(sp.get("typ")), has_bracket="[" in (sp.get("typ") or ""),
                           default_kind=default_kind(sp.get("default")), to=to_class(field, e[i], g[i], sp), **default_flags(sp.get("default")), **layer(e[0]))
                out.append((sig, "%s %s: %s came back as %r, expected %r (typ %r, default %s)" % (entry, e[0], field, g[i], e[i], sp.get("typ"), tv(sp.get("default")))))
    return out


# ----------------------------------------------------------------------------------------------
# one case on the real code
# ----------------------------------------------------------------------------------------------
def real_case(job):
    fmt, cfg, ir, docreq = job
    out = {"notes": []}
    names = list(ir["params"]) + ["return_type", "argument_parser"]
    # the docstring layer's answer to the emitter's request (asked by the model)
    try:
        out["doc_text"] = R.real_doc_emit(docreq["cfg"], docreq["ir"])
    except Exception as e:  # noqa
        out["doc_text"] = None
        out["notes"].append("docstring emit raises %s" % type(e).__name__)
    try:
        node = R.real_emit(fmt, cfg, ir)
        ast.fix_missing_locations(node)
        out["emit_py"] = pyast.stmt_to_json(node)
        out["emit_ast"], n1 = R.top_to_json(node)
        out["notes"] += n1
    except Exception as e:  # noqa
        out["emit_raises"] = type(e).__name__
        env, n3 = R.build_env(fmt, ir, out["doc_text"], None, None, names)
        out["env"] = env
        out["notes"] += n3
        return out
    try:
        from cdd.shared.source_transformer import to_code

        src = to_code(node)
        node2 = ast.parse(src).body[0]
        out["src"] = src
        out["reparsed"], n2 = R.top_to_json(node2)
        out["notes"] += n2
    except Exception as e:  # noqa
        out["render_raises"] = type(e).__name__
        env, n3 = R.build_env(fmt, ir, out["doc_text"], None, None, names)
        out["env"] = env
        out["notes"] += n3
        return out
    doc_ir_json = None
    ds = ast.get_docstring(node2, clean=False)
    if ds is not None:
        try:
            doc_ir_json = R.ir_to_json(R.real_doc_parse(fmt, ds))
        except Exception as e:  # noqa
            out["notes"].append("docstring parse raises %s" % type(e).__name__)
    out["doc_ir"] = doc_ir_json
    try:
        out["parsed"] = R.ir_to_json(R.real_parse(fmt, node2))
    except Exception as e:  # noqa
        out["parse_raises"] = type(e).__name__
    env, n3 = R.build_env(fmt, ir, out["doc_text"], doc_ir_json, out["reparsed"], names)
    out["env"] = env
    out["notes"] += n3
    return out


def has_other(j):
    """a value the JSON codec of the model does not carry (tuple/list/… defaults)"""
    s = json.dumps(j)
    return '"other:' in s


def gen_cases(rng, n_ir, trigger_docs=False):
    cases = []
    for _ in range(n_ir):
        ir = G.gen_ir(rng, ftype=rng.choice(["static", "static", "self", "cls"]), trigger_docs=trigger_docs)
        for fmt in R.FORMATS:
            for cfg in CFGS[fmt]:
                cases.append((fmt, cfg, ir))
    return cases


def run_cases(chk, cases, label, claim=True):
    """real pipeline + model on the same cases; correspondence + oracle.  Returns per-case records."""
    irjs = [R.ir_to_json(ir) for _, _, ir in cases]
    docreqs = core.model_batch([{"op": "c02.docreq", "fmt": f, "cfg": c, "ir": j} for (f, c, _), j in zip(cases, irjs)])
    jobs = [(f, c, ir, dr) for (f, c, ir), dr in zip(cases, docreqs)]
    reals = core.pmap(real_case, jobs, chunksize=32)
    reqs = []
    for (f, c, ir), j, r in zip(cases, irjs, reals):
        reqs.append({"op": "c02.emit", "fmt": f, "cfg": c, "ir": j, "env": r["env"]})
        reqs.append({"op": "c02.parse", "fmt": f, "ast": r.get("reparsed") or {"k": "other"}, "env": r["env"]})
        reqs.append({"op": "c02.indomain", "fmt": f, "cfg": c, "ir": j, "env": r["env"]})
    models = core.model_batch(reqs)
    recs = []
    for k, ((f, c, ir), j, r) in enumerate(zip(cases, irjs, reals)):
        recs.append({"fmt": f, "cfg": c, "ir": ir, "irj": j, "real": r, "m_emit": models[3 * k], "m_parse": models[3 * k + 1], "m_dom": models[3 * k + 2], "in_domain": bool(models[3 * k + 2].get("in"))})
    return recs


def strip_env(r):
    return {k: v for k, v in r.items() if k != "env"}


def run(chk: core.Check) -> int:
    chk.lean(MODULE, THEOREMS)
    return chk.finish("todo")


def replay(path: str) -> int:
    return 2
