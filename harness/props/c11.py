"""C11 — every parse, emit and doctrans call terminates (DESIGN.md §4 C11)."""
from __future__ import annotations

import itertools
import json
from pathlib import Path

from harness import core
from harness.translators import regen_loops

MODULE = "CddVerif.Properties.C11"
THEOREMS = [
    "C11.all_while_registered", "C11.registry_all_present", "C11.all_recursive_registered", "C11.all_other_registered",
    "C11.skip_bound", "C11.loopA_bound", "C11.loopA_bound_neg", "C11.loopB_bound", "C11.loopC_bound",
    "C11.union_bound", "C11.find_bound", "C11.pinned_never_returns",
    "Loop.WhileLoop.run_count_le", "Loop.WhileLoop.runFuel_eq",
]
ALPHABET = ["\n", " ", "    ", ":param", ":type", ":return", ":rtype", ":cvar", "Args:", "Returns:", "Raises:", "Kwargs:",
            "Parameters", "Returns", "----------", "-------", "-", ":", "x", "foo", "int", "```", ".", ",", "Defaults to 5"]
UNION_ALPHABET = ["'", '"', ",", " ", "  ", "\\", "or", "of", "a", "`", ";", "List", ".", "1", "\t", "\n", "\xa0", " ", "\x1c", "　", "\x85"]
WS_ALPHABET = ["\n", " ", "  ", "\t", "x", "foo bar", ":param a: b", "\n\n", " \n", "."]

_LINES = {}


def _lines():
    """line numbers of the while headers, from the translator's scan of the current tree"""
    if not _LINES:
        from harness.translators.loops import scan

        w, _ = scan(core.REPO)
        for x in w:
            _LINES.setdefault((x["file"], x["func"]), []).append(x["line"])
    return _LINES


def impl_walk(doc: str):
    from cdd.shared import docstring_utils as du

    L = _lines()
    f = "cdd/shared/docstring_utils.py"
    la, lb = sorted(L[(f, "_get_token_last_idx")])
    (lc,) = L[(f, "_get_token_last_idx_if_no_next_token")]
    out = {}
    try:
        out["start"] = du._get_token_start_idx(doc)
    except Exception as e:  # noqa
        out["start"] = core.exc_name(e)
    with core.LineCounter({(f, la): "a", (f, lb): "b", (f, lc): "c"}) as lc_:
        try:
            out["last"] = du._get_token_last_idx(doc)
        except Exception as e:  # noqa
            out["last"] = "raises:" + ("IndexError" if isinstance(e, IndexError) else "TypeError" if isinstance(e, TypeError) else type(e).__name__)
    if isinstance(out["last"], int):
        out.update(lc_.counts)
    return out


def impl_union(s: str):
    from cdd.docstring.utils import parse_utils as pu

    L = _lines()
    f = "cdd/docstring/utils/parse_utils.py"
    (ln,) = L[(f, "_union_literal_from_sentence_phase0")]
    with core.LineCounter({(f, ln): "n"}) as c:
        try:
            pu._union_literal_from_sentence_phase0(s, [[]])
        except Exception as e:  # noqa
            return {"error": core.exc_name(e), "count": c.counts["n"]}
    return {"count": c.counts["n"]}


def impl_emit(case):
    """docstring() on an IR whose doc is whitespace-heavy; capture the string the skip loop runs on and count header hits"""
    import cdd.class_.parse  # noqa: F401  (import order)
    from cdd.docstring.emit import docstring

    doc, style, indent = case
    L = _lines()
    f = "cdd/docstring/emit.py"
    (ln,) = L[(f, "docstring")]
    ir = {"name": None, "doc": doc, "params": {"a": {"doc": "A", "typ": "int"}} if style != "none" else {}, "returns": None}
    with core.LineCounter({(f, ln): "n"}, {(f, ln): "candidate_doc_str"}) as c:
        try:
            docstring(ir, docstring_format=style if style != "none" else "rest", indent_level=indent, emit_separating_tab=False)
        except Exception as e:  # noqa
            return {"error": core.exc_name(e), "count": c.counts["n"], "s": c.captured.get("n")}
    return {"count": c.counts["n"], "s": c.captured.get("n")}


def impl_parse(doc: str):
    """whole public docstring parser + emitter round on arbitrary text: only "returns or raises" matters here"""
    import cdd.class_.parse  # noqa: F401
    from cdd.docstring.emit import docstring as emit
    from cdd.docstring.parse import docstring as parse

    try:
        ir = parse(doc, emit_default_doc=True)
    except Exception as e:  # noqa
        return {"parse": core.exc_name(e)}
    out = {"parse": "ok"}
    for style in ("rest", "google", "numpydoc"):
        try:
            s2 = emit(ir, docstring_format=style, indent_level=1)
            out[style] = "ok"
            try:
                parse(s2)  # applying the tool to its own output
            except Exception as e:  # noqa
                out[style + "_again"] = core.exc_name(e)
        except Exception as e:  # noqa
            out[style] = core.exc_name(e)
    return out


def impl_find(case):
    """find_in_ast on a generated module: header evaluations <= len(search) + 1"""
    import ast

    from cdd.shared import ast_utils as au

    src, search = case
    L = _lines()
    f = "cdd/shared/ast_utils.py"
    (ln,) = L[(f, "find_in_ast")]
    mod = ast.parse(src)
    au.annotate_ancestry(mod)
    with core.LineCounter({(f, ln): "n"}) as c:
        try:
            au.find_in_ast(search, mod)
        except Exception as e:  # noqa
            return {"error": core.exc_name(e), "count": c.counts["n"]}
    return {"count": c.counts["n"]}


def gen_module(r):
    """a small module with documented functions, methods and nested functions (doctrans input)"""
    from harness.gen import ir as G

    parts = []
    for k in range(r.randint(1, 3)):
        ir = G.gen_ir(r, nparams=r.randint(1, 3), none_ok=False, name="f%d" % k)
        src = G.function_source(r, ir)
        if r.random() < 0.3:
            # a trailing blank after the opening quotes / a whitespace-only first docstring line
            src = src.replace('"""\n', '""" \n', 1)
        shape = r.choice(["top", "method", "nested"])
        if shape == "method":
            import textwrap

            src = "class K%d(object):\n    x = 1\n\n" % k + textwrap.indent(src.replace("def f%d(" % k, "def f%d(self, " % k if ir["params"] else "def f%d(self" % k), "    ")
        elif shape == "nested":
            import textwrap

            src = "def outer%d():\n" % k + textwrap.indent(src, "    ") + "    return f%d\n" % k
        parts.append(src)
    return "\n\n".join(parts)


def impl_doctrans(case):
    """apply doctrans 1..3 times to its own output (in a temp file); only "returns or raises" matters here"""
    import os
    import tempfile

    import cdd.class_.parse  # noqa: F401
    from cdd.compound.doctrans import doctrans

    src, style, ta = case
    fd, path = tempfile.mkstemp(suffix=".py", prefix="c11_")
    os.close(fd)
    out = []
    try:
        with open(path, "wt") as f:
            f.write(src)
        for k in range(3):
            try:
                doctrans(filename=path, docstring_format=style, type_annotations=ta, no_word_wrap=None)
                out.append("ok")
            except Exception as e:  # noqa
                out.append(core.exc_name(e))
                break
    finally:
        os.unlink(path)
    return {"applications": out}


def deep_module(depth):
    """`depth` nested documented functions (each level: one parameter, ReST docstring with a type)"""
    lines = []
    for d in range(depth):
        ind = "    " * d
        lines += ['%sdef f%d(a%d):' % (ind, d, d), '%s    """' % ind, '%s    Level %d.' % (ind, d), "", '%s    :param a%d: the value' % (ind, d), '%s    :type a%d: ```int```' % (ind, d), '%s    """' % ind]
    lines.append("    " * depth + "return a%d" % (depth - 1))
    for d in range(depth - 2, -1, -1):
        lines.append("    " * (d + 1) + "return f%d" % (d + 1))
    return "\n".join(lines) + "\n"


def impl_doctrans_deep(case):
    """doctrans applied three times to a deeply nested module: the number of function transformations must stay proportional to the
    number of function definitions (counted by wrapping DocTrans._handle_function in this child process)"""
    import os
    import tempfile

    import cdd.class_.parse  # noqa: F401
    import cdd.compound.doctrans_utils as du
    from cdd.compound.doctrans import doctrans

    depth, style, ta = case
    calls = [0]
    orig = du.DocTrans._handle_function

    def counted(self, node, original_doc_str):
        calls[0] += 1
        return orig(self, node, original_doc_str)

    du.DocTrans._handle_function = counted
    fd, path = tempfile.mkstemp(suffix=".py", prefix="c11d_")
    os.close(fd)
    out = []
    try:
        with open(path, "wt") as f:
            f.write(deep_module(depth))
        for k in range(3):
            calls[0] = 0
            try:
                doctrans(filename=path, docstring_format=style, type_annotations=ta, no_word_wrap=None)
                out.append({"calls": calls[0], "size": os.path.getsize(path)})
            except Exception as e:  # noqa
                out.append({"raises": core.exc_name(e), "calls": calls[0]})
                break
    finally:
        du.DocTrans._handle_function = orig
        os.unlink(path)
    return {"applications": out}


def repo_docstrings():
    import ast

    out = []
    for f in sorted((core.REPO / "cdd").rglob("*.py")):
        try:
            tree = ast.parse(f.read_text())
        except Exception:  # noqa
            continue
        for n in ast.walk(tree):
            if isinstance(n, (ast.FunctionDef, ast.ClassDef, ast.AsyncFunctionDef, ast.Module)):
                try:
                    d = ast.get_docstring(n, clean=False)
                except Exception:  # noqa
                    d = None
                if d:
                    out.append(d)
    return out


def mutate(rng, s, alphabet):
    s = list(s)
    for _ in range(rng.randint(1, 4)):
        i = rng.randrange(len(s) + 1)
        r = rng.random()
        if r < 0.45:
            s[i:i] = list(rng.choice(alphabet))
        elif r < 0.8:
            del s[i:i + rng.randint(1, 12)]
        else:
            s = s[:i]  # truncated mid-token
    return "".join(s)


PUMP_UNITS = [" ", "\n", "\t", " \n", "\n    ", "x", "(", "[", "'", '"', ":", ".", ",", "`", "-"]
PUMP_WORDS = ["default", "Defaults", "defaults to", "Default value", "Default:", ":param", ":type a:", ":return:", "Returns", "Args:", "or", "of", "one of",
              "Optional", "List", "```", "foo"]


BOMBS = ["`9**9**9` or `1`", "9**9**9 or 1", "one of `9**9**9`, `2`", "`8**8**9//9**9**9` or `1`", "`-9**9**9` or `0`", "`9**9**9%7` or `2`", "9**9**9 | 1", "`1<<9**9` or `1`"]
BOMB_TEMPLATES = [":param a: {}\n", "Summary.\n\n:param a: the size. {}\n:type a: ```int```\n", "Args:\n  a: {}\n", "Args:\n  a (int): the size, {}\n\nReturns:\n  {}\n",
                  "Parameters\n----------\na : int\n    {}\n", ":return: {}\n"]


def pump(rng, s):
    """pumped input: after a word that the scanners react to, a long run (20-60) of one repeated unit, then an ordinary word —
    the shape on which super-linear scanning (nested loops, backtracking) shows"""
    i = rng.randrange(len(s) + 1)
    run_ = rng.choice(PUMP_UNITS) * rng.randint(20, 60)
    return s[:i] + " " + rng.choice(PUMP_WORDS) + run_ + rng.choice(["value", "5", "x", ":", "", "to", "\n"]) + s[i:]


def run(chk: core.Check) -> int:
    (whiles, recs), _ = regen_loops()
    chk.lean(MODULE, THEOREMS)
    chk.trusted_base += [
        "translator harness/translators/loops.py: enumerates every ast.While and every directly self-recursive function of non-test code (%d while loops, %d recursive functions this run); mutual recursion through other names and recursion via callbacks are not enumerated; a third table lists infinite iterators (itertools.count/cycle/repeat), two-argument iter(), every use of the re module and for-loops that grow their own iterable" % (len(whiles), len(recs)),
        "loop models (Model/Loops.lean, Model/DocstringUtils.lean) are tied to the code by comparing the number of `while` header line events (sys.settrace) with the model's step count on the same input; find_in_ast is modelled abstractly (any body) and only its bound is compared",
        "`for` loops range over finite sequences; wall-clock time is not modelled (bound is on loop iterations); every real call runs under a watchdog",
    ]
    chk.coverage["while_loops"] = [{k: w[k] for k in ("file", "func", "line", "test")} for w in whiles]
    from harness.translators import OTHERS

    chk.coverage["other_unbounded_iteration_sites"] = [{k: o[k] for k in ("file", "func", "line", "kind", "what")} for o in OTHERS]
    rng = chk.rng
    have_driver = core.DRIVER.exists()

    # ---- (1) docstring_utils index walkers: loops A, B, C -------------------------------------------------
    docs, seen = [], set()

    def add(s):
        if s not in seen:
            seen.add(s)
            docs.append(s)

    maxlen = 3 if chk.quick else 4
    for k in range(maxlen + 1):
        for t in itertools.product(ALPHABET, repeat=k):
            add("".join(t))
    base = repo_docstrings()
    for d in base[: (150 if chk.quick else 2000)]:
        add(d)
    for _ in range(1500 if chk.quick else 20000):
        add(mutate(rng, rng.choice(base), ALPHABET))
    for _ in range(3000 if chk.quick else 40000):
        add("".join(rng.choice(ALPHABET) for _ in range(rng.randint(maxlen + 1, 16))))
    n_pumped = 0
    for _ in range(400 if chk.quick else 6000):
        add(pump(rng, rng.choice(base) if rng.random() < 0.6 else rng.choice(["", "Summary.\n\n:param a: b\n", "Args:\n  a (int): b\n"])))
        n_pumped += 1
    # descriptions whose "X or Y" members are expressions that are expensive to EVALUATE (bounded memory: 9**9**9 has ~1.2e9 bits): prose is only ever
    # scanned, so the call must return at once whatever the text says; a scanner change that lets operator characters through to the type probe
    # (`eval` of the candidate type) turns these few dozen characters into minutes of arithmetic
    for bomb in BOMBS:
        for tpl in BOMB_TEMPLATES:
            add(tpl.replace("{}", bomb))
            n_pumped += 1
    chk.coverage["pumped_inputs"] = n_pumped
    impl = core.guarded_map(impl_walk, docs, 10.0)
    model = core.model_batch([{"op": "c11.walk", "doc": d} for d in docs]) if have_driver else [None] * len(docs)
    n_dis = 0
    for d, r, m in zip(docs, impl, model):
        loops = (r.get("a", 0) > 1) + (r.get("b", 0) > 1) + (r.get("c", 0) > 1)
        chk.count(("walk", d), loops > 0)
        if r.get("skipped"):
            continue
        if r.get("timeout"):
            chk.failure({"kind": "timeout", "fn": "_get_token_last_idx"}, "_get_token_last_idx(%r) did not return within 10 s" % d[:200], {"fn": "walk", "doc": d})
            continue
        if loops >= 2 and len(d) < 80:
            chk.sample({"doc": d, "header_evaluations": {k: r.get(k) for k in "abc"}, "last_idx": r.get("last")})
        # linear bound observed on the real code (the theorem's bound)
        for k in "abc":
            if r.get(k, 0) > len(d) + 1:
                chk.failure({"kind": "bound", "loop": k}, "loop %s: %d header evaluations on a %d-char input" % (k, r[k], len(d)), {"fn": "walk", "doc": d})
        if m is not None and m != r:
            n_dis += 1
            chk.disagreement("C11 correspondence: docstring_utils index walkers (values + while-header counts)", {"doc": d[:1500]}, r, m)
    chk.oblige("correspondence: _get_token_start_idx/_get_token_last_idx values and loop header counts = model on %d strings" % len(docs),
               "correspondence", n_dis == 0 and have_driver, "%d disagreements" % n_dis)

    # ---- (2) _union_literal_from_sentence_phase0 ------------------------------------------------------------
    sents, seen2 = [], set()
    for k in range(1, (4 if chk.quick else 5) + 1):
        for t in itertools.product(UNION_ALPHABET, repeat=k):
            s = "".join(t)
            if s not in seen2:
                seen2.add(s)
                sents.append(s)
    for _ in range(2000 if chk.quick else 30000):
        s = "".join(rng.choice(UNION_ALPHABET) for _ in range(rng.randint(5, 24)))
        if s not in seen2:
            seen2.add(s)
            sents.append(s)
    impl = core.guarded_map(impl_union, sents, 10.0)
    model = core.model_batch([{"op": "c11.union", "s": s} for s in sents]) if have_driver else [None] * len(sents)
    n_dis = 0
    for s, r, m in zip(sents, impl, model):
        chk.count(("union", s), r.get("count", 0) > 2)
        if r.get("skipped"):
            continue
        if r.get("timeout"):
            chk.failure({"kind": "timeout", "fn": "_union_literal_from_sentence_phase0"}, "_union_literal_from_sentence_phase0(%r) did not return within 10 s" % s, {"fn": "union", "s": s})
            continue
        if "error" not in r and r["count"] > len(s) + 1:
            chk.failure({"kind": "bound", "loop": "union"}, "%d header evaluations on %d chars" % (r["count"], len(s)), {"fn": "union", "s": s})
        if m is not None and "error" not in r and m.get("count") != r["count"]:
            n_dis += 1
            chk.disagreement("C11 correspondence: _union_literal_from_sentence_phase0 header count", {"s": s}, r, m)
    chk.oblige("correspondence: phase0 while-header count = model on %d sentences" % len(sents), "correspondence", n_dis == 0 and have_driver, "%d disagreements" % n_dis)

    # ---- (3) emit.docstring skip loop ------------------------------------------------------------------------
    cases, seen3 = [], set()
    for k in range(1, (4 if chk.quick else 5) + 1):
        for t in itertools.product(WS_ALPHABET, repeat=k):
            d = "".join(t)
            if d not in seen3:
                seen3.add(d)
                for style in (("rest", "none") if chk.quick else ("rest", "google", "numpydoc", "none")):
                    cases.append((d, style, rng.choice([0, 1, 2])))
    impl = core.guarded_map(impl_emit, cases, 10.0)
    reqs, idx = [], []
    for k, r in enumerate(impl):
        if r and not r.get("timeout") and not r.get("skipped") and isinstance(r.get("s"), str):
            reqs.append({"op": "c11.skip", "s": r["s"]})
            idx.append(k)
    model = core.model_batch(reqs) if have_driver else []
    mm = dict(zip(idx, model))
    n_dis = 0
    for k, (case, r) in enumerate(zip(cases, impl)):
        chk.count(("emit", case), bool(r) and r.get("count", 0) > 1)
        if r.get("skipped"):
            continue
        if r.get("timeout"):
            chk.failure({"kind": "timeout", "fn": "docstring.emit"}, "cdd.docstring.emit.docstring(doc=%r, style=%s) did not return within 10 s" % (case[0], case[1]),
                        {"fn": "emit", "case": list(case)})
            continue
        m = mm.get(k)
        if m is not None:
            if not m.get("entered") or m.get("count") != r["count"]:
                n_dis += 1
                chk.disagreement("C11 correspondence: emit.docstring skip-loop header count", {"case": list(case), "s": r.get("s")}, r, m)
            elif r["count"] > 2 and len(chk.coverage["samples"]) < 8:
                chk.coverage["samples"].append({"emit_doc": case[0], "candidate_doc_str": r["s"], "header_evaluations": r["count"]})
    chk.oblige("correspondence: emit.docstring skip-loop header count = model on %d emitted docstrings (%d entered the loop)" % (len(cases), len(reqs)),
               "correspondence", n_dis == 0 and have_driver, "%d disagreements" % n_dis)

    # ---- (4) find_in_ast bound --------------------------------------------------------------------------------
    fcases = []
    src = "class A:\n    x: int = 1\n    def m(self, a, b=2):\n        def inner(q): pass\n        return a\n\ndef f(a, b=1, *, c=3):\n    class K:\n        y = 2\n    return a\nz = 5\n"
    names = ["A", "x", "m", "a", "b", "inner", "q", "f", "c", "K", "y", "z", "nope", "self"]
    for k in range(0, 4):
        for t in itertools.product(names, repeat=k):
            fcases.append((src, list(t)))
    if chk.quick:
        fcases = rng.sample(fcases, 800)
    impl = core.guarded_map(impl_find, fcases, 10.0)
    for case, r in zip(fcases, impl):
        chk.count(("find", tuple(case[1])), len(case[1]) >= 2)
        if r.get("skipped"):
            continue
        if r.get("timeout"):
            chk.failure({"kind": "timeout", "fn": "find_in_ast"}, "find_in_ast(%r) did not return" % (case[1],), {"fn": "find", "search": case[1], "src": src})
        elif r.get("count", 0) > len(case[1]) + 1:
            chk.failure({"kind": "bound", "loop": "find_in_ast"}, "%d header evaluations for a search of length %d" % (r["count"], len(case[1])),
                        {"fn": "find", "search": case[1], "src": src})

    # ---- (5) whole parser / emitter on arbitrary text, and on their own output ----------------------------
    pdocs = rng.sample(docs[:-n_pumped], min(len(docs) - n_pumped, 2500 if chk.quick else 40000)) + docs[-n_pumped:]
    impl = core.guarded_map(impl_parse, pdocs, 15.0)
    outcomes = {}
    for d, r in zip(pdocs, impl):
        chk.count(("parse", d), True)
        if r.get("skipped"):
            continue
        if r.get("timeout"):
            chk.failure({"kind": "timeout", "fn": "docstring.parse/emit"}, "parse/emit of %r did not return within 15 s" % d[:200], {"fn": "parse", "doc": d})
        else:
            key = r.get("parse", "?")
            outcomes[key] = outcomes.get(key, 0) + 1
    chk.coverage["parse_outcomes"] = outcomes
    # ---- (5b) doctrans on deeply nested definitions: work proportional to the number of definitions -------------------------
    deep = [(d, st, ta) for d in ((2, 5, 8, 11) if chk.quick else (2, 4, 6, 8, 10, 12, 14)) for st in ("rest", "google", "numpydoc") for ta in (True, False)]
    impl = core.guarded_map(impl_doctrans_deep, deep, 60.0)
    for case, r in zip(deep, impl):
        chk.count(("doctrans-deep", case), True)
        if r.get("skipped"):
            continue
        if r.get("timeout"):
            chk.failure({"kind": "timeout", "fn": "doctrans-deep"}, "doctrans x3 on %d nested definitions did not return within 60 s" % case[0], {"fn": "doctrans_deep", "case": list(case)})
            continue
        for k, a in enumerate(r["applications"]):
            if a.get("calls", 0) > 2 * case[0] + 2:
                chk.failure({"kind": "bound", "loop": "DocTrans._handle_function"}, "application %d: %d function transformations for %d nested definitions" % (k + 1, a["calls"], case[0]),
                            {"fn": "doctrans_deep", "case": list(case)})
                break
            if a.get("size", 0) > 40 * len(deep_module(case[0])) + 4000:
                chk.failure({"kind": "bound", "loop": "doctrans-output-size"}, "application %d: output of %d bytes for an input of %d bytes" % (k + 1, a["size"], len(deep_module(case[0]))),
                            {"fn": "doctrans_deep", "case": list(case)})
                break
    # ---- (6) doctrans applied 1..3 times to generated modules --------------------------------------------------
    mods = [(gen_module(rng), rng.choice(["rest", "google", "numpydoc"]), rng.random() < 0.5) for _ in range(60 if chk.quick else 800)]
    impl = core.guarded_map(impl_doctrans, mods, 30.0)
    apps = {}
    for m, r in zip(mods, impl):
        chk.count(("doctrans", m), True)
        if r.get("skipped"):
            continue
        if r.get("timeout"):
            chk.failure({"kind": "timeout", "fn": "doctrans"}, "doctrans (applied up to 3 times, style %s) did not return within 30 s" % m[1], {"fn": "doctrans", "case": list(m)})
        else:
            key = "/".join(r["applications"])
            apps[key] = apps.get(key, 0) + 1
    chk.coverage["doctrans_application_outcomes"] = apps
    return chk.finish("inputs: all token sequences up to length %d over a %d-token docstring alphabet, repository docstrings and truncated/mutated versions, random longer sequences; "
                      "union sentences and whitespace-heavy descriptions likewise; non-trivial = some loop body actually iterates (header evaluated more than once)" % (maxlen, len(ALPHABET)))


def replay(path: str) -> int:
    d = json.loads(Path(path).read_text())["replay"]
    fn = d.get("fn")
    if fn == "walk":
        r = core.guarded_map(impl_walk, [d["doc"]], 10.0, 1)[0]
    elif fn == "union":
        r = core.guarded_map(impl_union, [d["s"]], 10.0, 1)[0]
    elif fn == "emit":
        r = core.guarded_map(impl_emit, [tuple(d["case"])], 10.0, 1)[0]
    elif fn == "find":
        r = core.guarded_map(impl_find, [(d["src"], d["search"])], 10.0, 1)[0]
    elif fn in ("doctrans", "doctrans_deep"):
        r = core.guarded_map(impl_doctrans_deep if d.get("fn") == "doctrans_deep" else impl_doctrans, [tuple(d["case"])], 60.0, 1)[0]
    else:
        r = core.guarded_map(impl_parse, [d["doc"]], 15.0, 1)[0]
    print("replay:", fn, r)
    bad = r.get("timeout") or any(a.get("calls", 0) > 2 * d["case"][0] + 2 for a in r.get("applications", []) if fn == "doctrans_deep")
    return 1 if bad else 0
