"""C13 — sync_properties updates exactly the selected property (DESIGN.md §4 C13)."""
from __future__ import annotations

import ast
import copy
import json
import os
import shutil
import tempfile
from pathlib import Path

from harness import core
from harness.gen import c13mod
from harness.impl import pyast

MODULE = "CddVerif.Properties.C13"
THEOREMS = [
    "C13.input_unchanged",
    "C13.only_module_docstring_reparsed",
    "C13.frame_after_replacement",
    "C13.frame_untouched_when_not_replaced",
    "C13.frame_one_hole",
    "C13.frame_one_hole_quiet",
    "C13.eval_node_is_quiet",
    "C13.frame_top_level",
    "C13.frame_function_body_never_visited",
    "C13.slot_statement",
    "C13.slot_parameter",
    "C13.slot_parameter_content",
    "C13.slot_eval_keeps_name",
    "C13.slot_wrap",
    "C13.alignment",
    "C13.alignment_self_cls_cancels",
    "C13.alignment_index_is_right_aligned",
    "C13.alignment_shared_name",
    "C13.sync_property_sound",
    "C13.find_attr_correct_partial",
    "C13.not_C13_find_full",
    "C13.not_C13_frame_full",
    "C13.not_C13_slot_param_to_attr",
    "C13.not_C13_frame_docstring",
    "C13.multi_every_pair_applied",
    "C13.multi_each_pair_is_one_slot",
    "C13.multi_frame_chain",
    "C13.multi_no_alias_assignment",
    "C13.multi_frame_top_level",
    "C13.multi_built_parameter_has_no_location",
    "C13.multi_two_params_one_function",
    "C13.multi_same_output_twice_raises",
    "C13.not_C13_multi_wrap_once",
    "C13.not_C13_multi_original_slots",
]
TMP_ROOT = "/tmp/build/c13/run_%d" % os.getpid()  # per run (set before the workers fork); outside /repo and /verif
_TMP = [None]


def _tmpdir():
    if _TMP[0] is None or not os.path.isdir(_TMP[0]) or not _TMP[0].endswith("_%d" % os.getpid()):
        os.makedirs(TMP_ROOT, exist_ok=True)
        _TMP[0] = tempfile.mkdtemp(prefix="w", suffix="_%d" % os.getpid(), dir=TMP_ROOT)
    return _TMP[0]


def render(mod) -> str:
    return ast.unparse(pyast.json_to_module(mod)) + "\n"


def black_mode():
    import black

    return black.Mode(target_versions=set(), line_length=119, is_pyi=False, string_normalization=False)


# ------------------------------------------------------------------------------------------------------------
# real code
# ------------------------------------------------------------------------------------------------------------
def enc_const(v):
    if isinstance(v, str):
        return {"s": v}
    if isinstance(v, (bool, int, float)) or v is None:
        return {"r": ast.unparse(ast.Constant(v))}
    return None


def eval_probe(in_src, name):
    """value bound to `name` after executing the input module (what --input-eval evaluates); CPython, outside the model"""
    loc = {}
    try:
        exec(compile(ast.parse(in_src), "<c13-input>", "exec"), loc)
    except BaseException as e:  # noqa
        return {"kind": "exec-raises", "exc": type(e).__name__}
    if name not in loc:
        return {"kind": "missing"}
    v = loc[name]
    if not isinstance(v, (tuple, list)):
        return {"kind": "unsupported"}
    items = [enc_const(x) for x in v]
    if any(x is None for x in items):
        return {"kind": "unsupported"}
    return {"kind": "seq", "items": items, "py": repr(v)}


def describe_node(n):
    if n is None:
        return None
    d = {"type": type(n).__name__, "line": getattr(n, "lineno", None), "col": getattr(n, "col_offset", None), "loc": getattr(n, "_location", None)}
    if isinstance(n, ast.arg):
        d["name"] = n.arg
    elif isinstance(n, ast.AnnAssign):
        d["name"] = ast.unparse(n.target)
    elif isinstance(n, ast.Assign):
        d["name"] = ast.unparse(n.targets[0])
    elif hasattr(n, "name"):
        d["name"] = n.name
    return d


def clash_probe(out_src, search):
    """does a node the model treats as opaque (constants inside expressions, docstrings, nested blocks) carry
    `_location == search` somewhere `RewriteAtQuery.generic_visit` gets to?"""
    from cdd.shared.source_transformer import ast_parse

    tree = ast_parse(out_src, filename="o.py")
    hits = []
    located = []

    def walk(n, modelled):
        if not modelled and getattr(n, "_location", None) == search:
            hits.append(type(n).__name__)
        elif modelled and getattr(n, "_location", None) == search and hasattr(n, "lineno"):
            located.append([n.lineno, n.col_offset])
        if isinstance(n, ast.FunctionDef):
            return  # visit_FunctionDef never descends
        for f, v in ast.iter_fields(n):
            vs = v if isinstance(v, list) else [v]
            for c in vs:
                if not isinstance(c, ast.AST):
                    continue
                m = False
                if isinstance(n, (ast.Module, ast.ClassDef, ast.AsyncFunctionDef)) and f == "body" and isinstance(
                        c, (ast.FunctionDef, ast.AsyncFunctionDef, ast.ClassDef, ast.AnnAssign, ast.Assign)):
                    m = True
                if isinstance(n, ast.arguments) and f in ("args", "kwonlyargs"):
                    m = True
                walk(c, m)

    walk(tree, True)
    for n in ast.walk(tree):
        # parameters of FunctionDefs are reached by visit_FunctionDef, not by the walk above
        if isinstance(n, ast.FunctionDef):
            for x in n.args.args + n.args.kwonlyargs:
                if getattr(x, "_location", None) == search:
                    located.append([x.lineno, x.col_offset])
    return hits, sorted(located)


def impl_case(case):
    """run the real sync_properties on temp files; returns result + diagnostic probes (all from the real code)"""
    import cdd.class_.parse  # noqa: F401  (import-order)
    from cdd.compound.sync_properties import sync_properties
    from cdd.shared.ast_utils import find_in_ast
    from cdd.shared.pure_utils import strip_split
    from cdd.shared.source_transformer import ast_parse

    d = _tmpdir()
    a, b = os.path.join(d, "input_.py"), os.path.join(d, "output_.py")
    with open(a, "wt") as f:
        f.write(case["in_src"])
    with open(b, "wt") as f:
        f.write(case["out_src"])
    res = {}
    try:
        sync_properties(case["eval"], a, [case["ip"]], b, [case["op"]], case["wrap"])
        res["result"] = "ok"
    except BaseException as e:  # noqa
        res["result"] = core.exc_name(e)
        res["msg"] = str(e)[:200]
    with open(a, "rt") as f:
        res["input_same"] = f.read() == case["in_src"]
    with open(b, "rt") as f:
        after = f.read()
    res["after"] = after
    res["out_same"] = after == case["out_src"]
    if res["result"] == "ok":
        try:
            res["after_json"] = pyast.module_to_json(after)
        except SyntaxError:
            res["result"] = "unparseable-output"
    # probes
    probe = {}
    search = list(strip_split(case["op"], "."))
    try:
        probe["clash"], probe["located"] = clash_probe(case["out_src"], search)
    except BaseException as e:  # noqa
        probe["clash"], probe["located"] = ["probe-" + type(e).__name__], []
    if case["eval"]:
        probe["eval"] = eval_probe(case["in_src"], case["ip"]) if "." not in case["ip"] else {"kind": "dotted"}
    else:
        try:
            t = ast_parse(case["in_src"], filename="i.py")
            probe["find"] = describe_node(find_in_ast(list(strip_split(case["ip"], ".")), t))
        except BaseException as e:  # noqa
            probe["find"] = {"type": core.exc_name(e)}
    res["probe"] = probe
    return res


def impl_repeat(case):
    """the same call twice in ONE process on the same, unmodified input file (the output file is restored in between): the second result must equal the first —
    the selected slot takes the input's annotation (wrapped ONCE), whatever happened earlier in the process"""
    import cdd.class_.parse  # noqa: F401
    from cdd.compound.sync_properties import sync_properties

    d = _tmpdir()
    a, b = os.path.join(d, "input_.py"), os.path.join(d, "output_.py")
    with open(a, "wt") as f:
        f.write(case["in_src"])
    outs = []
    for _ in range(2):
        with open(b, "wt") as f:
            f.write(case["out_src"])
        try:
            sync_properties(case["eval"], a, [case["ip"]], b, [case["op"]], case["wrap"])
            with open(b, "rt") as f:
                outs.append(f.read())
        except BaseException as e:  # noqa
            outs.append("raises:" + core.exc_name(e))
    with open(a, "rt") as f:
        same_in = f.read() == case["in_src"]
    return {"outs": outs, "input_same": same_in}


def slot_facts(case):
    """where the selected output slot sits (for the input distribution in the evidence)"""
    try:
        before = ast.parse(case["out_src"])
        op = [c.strip() for c in case["op"].split(".")]
        cands = resolve(before, op)
        if not cands:
            return {}
        c = cands[0]
        f = {"definitions_sharing_the_path": len({cc.get("fnpath", cc["path"]) for cc in cands})}
        if c["kind"] == "param":
            fn = node_at(before, c["fnpath"])
            names = [d for d in dotted(before, c["fnpath"])]
            same = [s2 for s2 in ast.walk(before) if isinstance(s2, ast.FunctionDef) and s2.name == fn.name]
            f["definitions_with_that_name"] = len(same)
            f["scope"] = "method" if len(names) > 1 else "module-level function"
            f["first_param"] = fn.args.args[0].arg if fn.args.args and fn.args.args[0].arg in ("self", "cls") else "other"
            f["list"] = c["list"]
            f["position"] = c["j"]
            f["n_params"] = len(fn.args.posonlyargs) + len(fn.args.args) + len(fn.args.kwonlyargs) + (fn.args.vararg is not None) + (fn.args.kwarg is not None)
            f["n_defaults"] = len(fn.args.defaults)
            f["slot_has_default"] = c["dpath"] is not None and (c["list"] != "kwonlyargs" or fn.args.kw_defaults[c["j"]] is not None)
        else:
            f["scope"] = "class attribute" if len(c["path"]) > 2 else "module variable"
        return f
    except Exception:  # noqa
        return {}


def impl_and_oracle(case):
    r = impl_case(case)
    r["oracle"] = oracle(case, r)
    r["facts"] = slot_facts(case)
    return r


def canon_model(js):
    """the emit path (ast.unparse + black, both outside the model) applied to the model's module"""
    import black

    try:
        src = ast.unparse(pyast.json_to_module(js))
        src = black.format_str(src, mode=black_mode())
        return pyast.module_to_json(src)
    except BaseException as e:  # noqa
        return {"canon-error": type(e).__name__}


def black_only(src):
    import black

    try:
        return black.format_str(ast.unparse(ast.parse(src)), mode=black_mode())
    except BaseException:  # noqa
        return None


# ------------------------------------------------------------------------------------------------------------
# the property's oracle on the real before / after trees
# ------------------------------------------------------------------------------------------------------------
def resolve(tree, comps):
    """intended meaning of a dotted path → [{kind, path, dpath, fnpath?}] (all definitions sharing the path)"""
    res = []

    def params(fn, fnpath, pname):
        a = fn.args
        npos = len(a.posonlyargs) + len(a.args)
        nd = len(a.defaults)
        for ln in ("posonlyargs", "args", "kwonlyargs"):
            for j, x in enumerate(getattr(a, ln)):
                if x.arg != pname:
                    continue
                if ln == "kwonlyargs":
                    dpath = fnpath + ("args", "kw_defaults", j)
                else:
                    g = j + (len(a.posonlyargs) if ln == "args" else 0)
                    k = g - (npos - nd)
                    dpath = fnpath + ("args", "defaults", k) if k >= 0 else None
                res.append({"kind": "param", "list": ln, "j": j, "path": fnpath + ("args", ln, j), "dpath": dpath, "fnpath": fnpath})
        for ln in ("vararg", "kwarg"):
            x = getattr(a, ln)
            if x is not None and x.arg == pname:
                res.append({"kind": "param", "list": ln, "j": 0, "path": fnpath + ("args", ln), "dpath": None, "fnpath": fnpath})

    def in_body(body, bpath, comps):
        name = comps[0]
        for i, s in enumerate(body):
            p = bpath + (i,)
            if len(comps) == 1:
                if isinstance(s, ast.AnnAssign) and isinstance(s.target, ast.Name) and s.target.id == name:
                    res.append({"kind": "stmt", "path": p, "dpath": None})
                elif isinstance(s, ast.Assign) and len(s.targets) == 1 and isinstance(s.targets[0], ast.Name) and s.targets[0].id == name:
                    res.append({"kind": "stmt", "path": p, "dpath": None})
            elif isinstance(s, ast.ClassDef) and s.name == name:
                in_body(s.body, p + ("body",), comps[1:])
            elif isinstance(s, ast.FunctionDef) and s.name == name and len(comps) == 2:
                params(s, p, comps[1])

    in_body(tree.body, ("body",), comps)
    return res


def node_at(tree, path):
    n = tree
    for p in path:
        n = n[p] if isinstance(p, int) else getattr(n, p)
    return n


def tree_diff(a, b, path=()):
    if type(a) is not type(b):
        yield path
    elif isinstance(a, ast.AST):
        for f in a._fields:
            if f in ("ctx", "type_comment", "kind"):
                continue
            yield from tree_diff(getattr(a, f, None), getattr(b, f, None), path + (f,))
    elif isinstance(a, list):
        if len(a) != len(b):
            yield path + ("len",)
        else:
            for i, (x, y) in enumerate(zip(a, b)):
                yield from tree_diff(x, y, path + (i,))
    elif a != b or type(a) is not type(b):
        yield path


def norm_doc(s):
    """a docstring up to layout: common indentation, trailing blanks on lines, blank first / last lines"""
    import inspect

    return "\n".join(line.rstrip() for line in inspect.cleandoc(s).split("\n")).strip()


def norm_docstrings(tree):
    """docstring *indentation* is layout (like comments and blank lines, which `ast.unparse` + black also rewrite)"""
    for n in ast.walk(tree):
        if isinstance(n, (ast.Module, ast.ClassDef, ast.FunctionDef, ast.AsyncFunctionDef)) and n.body:
            e = n.body[0]
            if isinstance(e, ast.Expr) and isinstance(e.value, ast.Constant) and isinstance(e.value.value, str):
                e.value.value = norm_doc(e.value.value)
    return tree


def dump(n):
    return None if n is None else ast.dump(n)


def wrap_expr(wrap, ann):
    if ann is None or wrap is None:
        return ann
    return ast.parse(wrap.replace("{output_param}", ast.unparse(ann))).body[0].value


def literal_expr(items, strip_quotes=False):
    def val(x):
        if "s" in x:
            s = x["s"]
            if strip_quotes and len(s) > 2 and s[0] + s[-1] in ('""', "''"):
                s = s[1:-1]
            return ast.Constant(s)
        return ast.parse(x["r"], mode="eval").body
    elts = [val(x) for x in items]
    sl = elts[0] if len(elts) == 1 else ast.Tuple(elts=elts, ctx=ast.Load())
    return ast.parse(ast.unparse(ast.Subscript(ast.Name("Literal", ast.Load()), sl, ast.Load())), mode="eval").body


def classify_outside(before, after, path, out_cands):
    """region × field of a difference outside the selected slot"""
    if path[:3] == ("body", 0, "value") and isinstance(before.body[0], ast.Expr):
        return {"where": "module-docstring"}
    # docstring of a class / function
    if len(path) >= 3 and path[-1] == "value" and path[-2] == "value":
        try:
            holder = node_at(before, path[:-2])
            if isinstance(holder, ast.Expr) and isinstance(holder.value, ast.Constant) and isinstance(holder.value.value, str) and path[-3] == 0:
                return {"where": "docstring"}
        except Exception:  # noqa
            pass
    if "defaults" in path or "kw_defaults" in path:
        i = path.index("args")
        fnpath = path[:i]
        if any(c.get("fnpath") == fnpath for c in out_cands):
            return {"where": "default", "of": "selected-function"}  # another parameter's default: the alignment clause
        same = any(c.get("fnpath") is not None and same_dotted_path(before, c["fnpath"], fnpath) for c in out_cands)
        return {"where": "default", "of": "same-path-definition" if same else "other-definition"}
    if "args" in path:
        return {"where": "parameter"}
    return {"where": "statement"}


def dotted(tree, path):
    names = []
    n = tree
    for p in path:
        n = n[p] if isinstance(p, int) else getattr(n, p)
        if isinstance(n, (ast.ClassDef, ast.FunctionDef, ast.AsyncFunctionDef)):
            names.append(n.name)
    return names


def same_dotted_path(tree, p1, p2):
    return p1 != p2 and dotted(tree, p1) == dotted(tree, p2) or p1 == p2


def input_facts(in_tree, ip_comps, in_cands):
    """structural facts about the input used to name the region of a failure"""
    facts = {}
    kinds = set()
    for c in in_cands:
        kinds.add("kwonly" if c.get("list") == "kwonlyargs" else ("param" if c["kind"] == "param" else "attr"))
    facts["in_kind"] = "+".join(sorted(kinds)) or "none"
    # a FunctionDef before the class named by the first component, at module level
    first = None
    for i, s in enumerate(in_tree.body):
        if isinstance(s, ast.ClassDef) and s.name == ip_comps[0]:
            first = i
            break
    facts["fn_before_class"] = bool(first is not None and any(isinstance(s, ast.FunctionDef) for s in in_tree.body[:first]))
    return facts


def ambiguous_head(tree, comps):
    """a class and a function (or two classes) at module level share the path's first component"""
    if len(comps) < 2:
        return False
    kinds = [type(s).__name__ for s in tree.body if isinstance(s, (ast.ClassDef, ast.FunctionDef, ast.AsyncFunctionDef)) and s.name == comps[0]]
    return len(set(kinds)) > 1 or kinds.count("ClassDef") > 1


def root_cause(case, res, facts, in_tree, in_cands, out_is_stmt, out_positions=()):
    """explanation of a failure from probes of the real code (find_in_ast, annotate_ancestry) — names the region.
    One applicable defect: its name (+ detail).  Several independent ones at once: `several-known-causes`."""
    probe = res["probe"]
    found = []
    if not case["eval"]:
        f = probe.get("find")
        if f is None:
            found.append({"cause": "input-lookup-none",
                          "why": "keyword-only-input" if "kwonly" in facts["in_kind"] else "function-def-before-class" if facts["fn_before_class"] else "other"})
        elif isinstance(f, dict) and str(f.get("type", "")).startswith("raises:"):
            found.append({"cause": "input-lookup-raises"})
        elif isinstance(f, dict) and "line" in f:
            intended = {(node_at(in_tree, c["path"]).lineno, node_at(in_tree, c["path"]).col_offset) for c in in_cands}
            if (f["line"], f["col"]) not in intended:
                found.append({"cause": "input-lookup-wrong-node", "found": f["type"]})
            elif f["type"] == "arg" and out_is_stmt:
                found.append({"cause": "arg-node-in-statement-list"})
    if probe.get("located") and tuple(probe["located"][0]) not in out_positions:
        # `_location` holds only the immediate parent's name: a nested definition can carry the same location
        found.append({"cause": "location-shared-by-nested-definition"})
    if probe.get("clash"):
        found.append({"cause": "string-constant-clash"})
    if len(found) > 1:
        return {"cause": "several-known-causes", "causes": "+".join(x["cause"] for x in found)}
    return found[0] if found else {}


def template_ok(wrap):
    """only `{output_param}` fields, and an expression once a type is substituted"""
    try:
        if wrap.replace("{output_param}", "").count("{") or wrap.count("}") != wrap.count("{output_param}"):
            return False
        ast.parse(wrap.replace("{output_param}", "T"), mode="eval")
        return True
    except (SyntaxError, ValueError):
        return False


def oracle(case, res):
    """→ (status, [ (sig, what) ]) ; status ∈ ok | skipped:<why> | failed"""
    if case["wrap"] is not None and not template_ok(case["wrap"]):
        return "skipped:invalid-template", []
    return _oracle(case, res)


def _oracle(case, res):
    fails = []
    if not res["input_same"]:
        fails.append(({"kind": "input-modified"}, "the input file's bytes changed"))
    before = norm_docstrings(ast.parse(case["out_src"]))
    in_tree = ast.parse(case["in_src"])
    op = [c.strip() for c in case["op"].split(".")]
    ip = [c.strip() for c in case["ip"].split(".")]
    out_cands = resolve(before, op)
    out_cands = [c for c in out_cands if c.get("list") not in ("posonlyargs", "vararg", "kwarg")]
    if not out_cands:
        return ("skipped:invalid-output-path" if not fails else "failed"), fails
    probe = res["probe"]
    # ---- expected (name, annotation, value) of the slot ----------------------------------------------------
    exp = []  # list of (name or None (= keep own), annotation expr or None, value expr or None)
    if case["eval"]:
        ev = probe.get("eval", {})
        if ev.get("kind") != "seq" or not ev["items"]:
            return ("skipped:not-evaluable" if not fails else "failed"), fails
        exp.append((None, wrap_expr(case["wrap"], literal_expr(ev["items"])), None))
        in_cands = []
    else:
        in_cands = [c for c in resolve(in_tree, ip) if c.get("list") not in ("posonlyargs", "vararg", "kwarg")]
        if not in_cands:
            return ("skipped:invalid-input-path" if not fails else "failed"), fails
        for c in in_cands:
            n = node_at(in_tree, c["path"])
            if isinstance(n, ast.arg):
                exp.append((n.arg, wrap_expr(case["wrap"], n.annotation), None))
            elif isinstance(n, ast.AnnAssign):
                exp.append((n.target.id, wrap_expr(case["wrap"], n.annotation), n.value))
            else:
                return ("skipped:assign-input" if not fails else "failed"), fails
        # renaming the slot to a name another parameter of the same function already has is not a valid request
        for c in out_cands:
            if c["kind"] == "param":
                fn = node_at(before, c["fnpath"])
                own = node_at(before, c["path"]).arg
                others = {x.arg for x in fn.args.posonlyargs + fn.args.args + fn.args.kwonlyargs} | {x.arg for x in (fn.args.vararg, fn.args.kwarg) if x}
                if any(e[0] != own and e[0] in others for e in exp):
                    return ("skipped:rename-collision" if not fails else "failed"), fails
    facts = input_facts(in_tree, ip, in_cands) if not case["eval"] else {"in_kind": "eval"}
    if any(c["kind"] == "stmt" and len(c["path"]) > 4 for c in out_cands + in_cands):
        return ("skipped:nested-class-path" if not fails else "failed"), fails
    if ambiguous_head(before, op) or (not case["eval"] and ambiguous_head(in_tree, ip)):
        return ("skipped:class-and-function-share-a-name" if not fails else "failed"), fails
    out_kind = "+".join(sorted({("kwonly" if c.get("list") == "kwonlyargs" else "param") if c["kind"] == "param" else "attr" for c in out_cands}))
    region = {"in_kind": facts["in_kind"], "out_kind": out_kind}
    cause = root_cause(case, res, facts, in_tree, in_cands, any(c["kind"] == "stmt" for c in out_cands),
                       {(node_at(before, c["path"]).lineno, node_at(before, c["path"]).col_offset) for c in out_cands})
    # ---- did it run? ------------------------------------------------------------------------------------------
    if res["result"] != "ok":
        sig = dict(region, kind="raises", exc=res["result"].split(":")[-1], **cause)
        if not res["out_same"]:
            sig["output_changed"] = True
        fails.append((sig, "sync_properties %s on a valid pair of paths (%s → %s)%s" % (res["result"], case["ip"], case["op"], ": " + res.get("msg", "") if res.get("msg") else "")))
        return "failed", fails
    try:
        after = norm_docstrings(ast.parse(res["after"]))
    except SyntaxError:
        fails.append((dict(region, kind="unparseable-output", **cause), "the rewritten output file is not valid Python"))
        return "failed", fails
    # ---- frame -------------------------------------------------------------------------------------------------
    diffs = list(tree_diff(before, after))

    def within(d, c):
        return d[: len(c["path"])] == c["path"] or (c["dpath"] is not None and d[: len(c["dpath"])] == c["dpath"])

    touched = [c for c in out_cands if any(within(d, c) for d in diffs)]
    c0 = touched[0] if touched else None
    outside = [d for d in diffs if c0 is None or not within(d, c0)]
    seen = set()
    for d in outside:
        cl = classify_outside(before, after, d, out_cands)
        if cl["where"] in ("docstring", "module-docstring"):
            bo = black_only(case["out_src"])
            if bo is not None:
                try:
                    bt = norm_docstrings(ast.parse(bo))
                    if node_at(bt, d) == node_at(after, d):
                        cl["cause"] = "black-docstring-normalisation"
                    else:
                        cl["cause"] = "ast_parse-docstring-reindent"
                except Exception:  # noqa
                    pass
        elif cl["where"] == "default":
            if cl["of"] == "other-definition":
                cl.update(cause)
        else:
            cl.update(cause)
        sig = dict(kind="frame", **cl)
        key = json.dumps(sig, sort_keys=True)
        if key not in seen:
            seen.add(key)
            fails.append((sig, "outside the selected slot the output changed at %s: %s → %s" % (
                "/".join(map(str, d)), safe_show(before, d), safe_show(after, d))))
    # ---- slot --------------------------------------------------------------------------------------------------
    slot_ok = False
    why = []
    for c in ([c0] if c0 is not None else out_cands):
        b_node = node_at(before, c["path"])
        try:
            a_node = node_at(after, c["path"])
        except Exception:  # noqa
            why.append("slot missing afterwards")
            continue
        for (nm, ann, val) in exp:
            if c["kind"] == "param":
                want_name = b_node.arg if nm is None else nm
                if not isinstance(a_node, ast.arg) or a_node.arg != want_name:
                    why.append("name %r, expected %r" % (getattr(a_node, "arg", type(a_node).__name__), want_name))
                    continue
                if dump(a_node.annotation) != dump(ann):
                    why.append("annotation %s, expected %s" % (show(a_node.annotation), show(ann)))
                    continue
                if c["dpath"] is not None:
                    bd, ad = node_at(before, c["dpath"]), node_at(after, c["dpath"])
                    if dump(ad) != dump(bd) and not (val is not None and dump(ad) == dump(val)):
                        why.append("default %s, expected %s or the input's value" % (show(ad), show(bd)))
                        continue
                slot_ok = True
            else:
                own = b_node.target.id if isinstance(b_node, ast.AnnAssign) else b_node.targets[0].id
                want_name = own if nm is None else nm
                if ann is None:
                    return ("skipped:no-annotation-for-attribute" if not fails else "failed"), fails
                if not isinstance(a_node, ast.AnnAssign) or not isinstance(a_node.target, ast.Name) or a_node.target.id != want_name:
                    why.append("statement %s, expected annotated %r" % (show(a_node)[:60], want_name))
                    continue
                if dump(a_node.annotation) != dump(ann):
                    why.append("annotation %s, expected %s" % (show(a_node.annotation), show(ann)))
                    continue
                slot_ok = True
            if slot_ok:
                break
        if slot_ok:
            break
    if not slot_ok:
        sig = dict(region, kind="slot", **cause)
        if case["eval"]:
            ev = probe["eval"]
            got = None
            try:
                c = c0 or out_cands[0]
                got = dump(node_at(after, c["path"]).annotation)
            except Exception:  # noqa
                pass
            if got is not None and got == dump(wrap_expr(case["wrap"], literal_expr(ev["items"], strip_quotes=True))):
                sig["cause"] = "set_value-strips-quotes"
        if "cause" not in sig and c0 is None:
            sig["cause"] = "slot-not-updated"
        fails.append((sig, "the selected slot %s is not what the property describes: %s" % (case["op"], "; ".join(why[:3]))))
    return ("failed" if fails else "ok"), fails


def show(n):
    return "None" if n is None else ast.unparse(n)


def safe_show(tree, d):
    try:
        p = d[:-1] if d and d[-1] == "len" else d
        n = node_at(tree, p)
        if isinstance(n, list):
            return "[%d items]" % len(n)
        return ast.unparse(n)[:80] if isinstance(n, ast.AST) else repr(n)[:80]
    except Exception:  # noqa
        return "?"


# ------------------------------------------------------------------------------------------------------------
# case generation
# ------------------------------------------------------------------------------------------------------------
OUT_KINDS = {"param": 30, "mparam": 30, "kwonly": 14, "mkwonly": 12, "attr": 22, "var": 6, "attr-assign": 2, "var-assign": 1}
IN_KINDS = {"attr": 40, "var": 8, "param": 18, "mparam": 18, "kwonly": 5, "mkwonly": 4, "nested-attr": 3, "attr-assign": 3, "var-assign": 3}
MALFORMED_KINDS = ["posonly", "vararg", "kwarg", "mposonly", "mvararg", "mkwarg"]


def pick(r, sl, weights):
    pool = [s for s in sl if s["kind"] in weights]
    if not pool:
        return None
    ws = [weights[s["kind"]] for s in pool]
    return r.choices(pool, ws)[0]


def gen_case(r, k, stream):
    """stream: valid | unstable-doc | malformed"""
    ev = r.random() < (0.22 if stream != "malformed" else 0.3)
    unst = 0.6 if stream == "unstable-doc" else 0.0
    mdoc = 0.5 if stream == "unstable-doc" else 0.1
    for _ in range(50):
        inp = c13mod.gen_module(r, "input", unst if not ev else 0.0, mdoc, safe=ev)
        out = c13mod.gen_module(r, "output", unst, mdoc)
        isl, osl = c13mod.slots(inp), c13mod.slots(out)
        o = pick(r, osl, OUT_KINDS)
        if o is None:
            continue
        if ev:
            cands = [s for s in isl if s["kind"] == "var-assign"]
            if not cands:
                continue
            i = r.choice(cands)
        else:
            i = pick(r, isl, IN_KINDS)
            if i is None:
                continue
        ipath, opath = list(i["path"]), list(o["path"])
        # two definitions with one dotted path, only the later one has the selected parameter: let the input share its
        # name with a parameter that only the earlier definition has
        renamed = False
        if not ev and "list" in o and r.random() < 0.6:
            own = c13mod.stmt_at(out, o["pos"])
            own_names = {x["name"] for kk in ("posonly", "args", "kwonly") for x in own["args"][kk]}
            earlier = [s2 for s2 in osl if "list" in s2 and s2["path"][:-1] == o["path"][:-1] and s2["pos"] < o["pos"] and s2["list"] == "args"]
            if earlier and not any(s2["path"][-1] == o["path"][-1] for s2 in earlier):
                names = [s2["path"][-1] for s2 in earlier if s2["path"][-1] not in own_names and s2["path"][-1] not in ("self", "cls")]
                if names:
                    np_ = c13mod.rename_slot(inp, i, r.choice(names))
                    if np_:
                        ipath, renamed = np_, True
                        if i["kind"] in ("attr", "var"):
                            c13mod.slot_item(inp, i)["value"] = r.choice(["5", "'new'", "[1]"])
        # same name shared between input and output
        if not ev and not renamed and r.random() < 0.4:
            np_ = c13mod.rename_slot(inp, i, opath[-1])
            if np_:
                ipath = np_
        # make the transferred default visible: give the input attribute a value
        if not ev and i["kind"] in ("attr", "var") and r.random() < 0.3:
            c13mod.slot_item(inp, i)["value"] = r.choice(["5", "'new'", "None", "[1]"])
        wrap = r.choice(c13mod.WRAPS) if r.random() < 0.4 else None
        ip, op = ".".join(ipath), ".".join(opath)
        if stream == "malformed":
            m = r.random()
            if m < 0.2:
                bad = pick(r, osl, {x: 1 for x in MALFORMED_KINDS})
                if bad:
                    op = ".".join(bad["path"])
            elif m < 0.35:
                op = ".".join(opath[:-1] + [r.choice(["nope", "", "x y", "1"])])
            elif m < 0.5:
                ip = ".".join(ipath[:-1] + [r.choice(["nope", "", "q"])]) if not ev else r.choice(["nope", "A.x", "vals.x"])
            elif m < 0.6:
                op = ".".join(opath[:-1]) or "nope"   # a definition itself
            elif m < 0.7:
                ip = ".".join(ipath[:-1]) or "nope"
            elif m < 0.8:
                wrap = r.choice(["{output_param", "{}", "{other}", "Optional[{output_param}]]", "{{x}}{output_param}", "not an expr +{output_param}"])
            elif m < 0.9:
                op = ".".join(opath + [r.choice(c13mod.NAMES)])
            else:
                ip = ".".join(ipath + [r.choice(c13mod.NAMES)])
        elif r.random() < 0.05:
            ip = " . ".join(ipath) + " "
            op = " " + " .".join(opath)
        try:
            in_src, out_src = render(inp), render(out)
            ast.parse(in_src), ast.parse(out_src)
        except (SyntaxError, ValueError):
            continue
        return {"id": k, "stream": stream, "in_src": in_src, "out_src": out_src, "ip": ip, "op": op, "wrap": wrap, "eval": ev,
                "in_kind": i["kind"], "out_kind": o["kind"]}
    raise core.HarnessError("c13: generator could not build a case")


def model_request(case, probe):
    req = {"op": "c13.sync", "input": pyast.module_to_json(case["in_src"]), "output": pyast.module_to_json(case["out_src"]),
           "input_param": case["ip"], "output_param": case["op"], "wrap": case["wrap"], "input_eval": case["eval"], "eval_value": None}
    if case["eval"]:
        ev = probe.get("eval", {})
        if ev.get("kind") == "seq":
            req["eval_value"] = ev["items"]
    return req


def in_model_domain(case, res):
    """None when the model's assumptions hold for this case, else the reason it is left to the oracle alone"""
    p = res["probe"]
    if p.get("clash"):
        return "location-clash-inside-opaque-node"
    if case["eval"] and p.get("eval", {}).get("kind") in ("unsupported", "exec-raises"):
        return "eval-" + p["eval"]["kind"]
    if case["wrap"] is not None and not template_ok(case["wrap"]):
        return "template-not-in-normal-form"
    return None


# ------------------------------------------------------------------------------------------------------------
# secondary correspondences: annotate_ancestry, find_in_ast, docstring re-indent, it2literal
# ------------------------------------------------------------------------------------------------------------
def impl_annotate(src):
    import cdd.class_.parse  # noqa: F401
    from cdd.shared.ast_utils import annotate_ancestry

    m = ast.parse(src)
    annotate_ancestry(m)
    out = []

    def stmt(s):
        if isinstance(s, (ast.FunctionDef, ast.AsyncFunctionDef)):
            out.append(["afn" if isinstance(s, ast.AsyncFunctionDef) else "fn", s._location, None])
            for x in s.args.args:
                out.append(["arg", getattr(x, "_location", None), getattr(x, "_idx", None)])
            for x in s.args.kwonlyargs:
                out.append(["kwonly", getattr(x, "_location", None), getattr(x, "_idx", None)])
            for x in s.args.posonlyargs + [y for y in (s.args.vararg, s.args.kwarg) if y]:
                if hasattr(x, "_location") or hasattr(x, "_idx"):
                    out.append(["unexpected", getattr(x, "_location", None), getattr(x, "_idx", None)])
            for b in s.body:
                stmt(b)
        elif isinstance(s, ast.ClassDef):
            out.append(["cls", s._location, None])
            for b in s.body:
                stmt(b)
        elif hasattr(s, "_location"):
            out.append([{"AnnAssign": "ann", "Assign": "assign"}.get(type(s).__name__, type(s).__name__), s._location, None])

    for s in m.body:
        stmt(s)
    return out


def impl_find(item):
    import cdd.class_.parse  # noqa: F401
    from cdd.shared.ast_utils import find_in_ast
    from cdd.shared.source_transformer import ast_parse

    src, search = item
    t = ast_parse(src, filename="i.py")
    try:
        n = find_in_ast(list(search), t)
    except BaseException as e:  # noqa
        return {"error": core.exc_name(e)}
    if n is None:
        return {"found": None}
    if isinstance(n, ast.arg):
        return {"found": {"node": "arg", "arg": {"name": n.arg, "ann": None if n.annotation is None else ast.unparse(n.annotation)}}}
    if isinstance(n, ast.Module):
        return {"found": "module"}
    return {"found": {"node": "stmt", "stmt": pyast.stmt_to_json(n)}}


def impl_remit(doc):
    import cdd.class_.parse  # noqa: F401
    from cdd.shared.source_transformer import ast_parse

    t = ast_parse(repr(doc) + "\nx = 1\n", filename="d.py")
    return t.body[0].value.value


def impl_literal(py):
    import cdd.class_.parse  # noqa: F401
    from cdd.shared.ast_utils import it2literal
    from cdd.shared.source_transformer import to_code

    v = eval(py, {})
    try:
        return {"text": to_code(it2literal(v))}
    except BaseException as e:  # noqa
        return {"error": core.exc_name(e)}


# ------------------------------------------------------------------------------------------------------------
def compare(case, res, m):
    """→ None if model and code agree, else (impl view, model view)"""
    if "error" in m and m["error"] in ("unsupported", "arg-in-statement-list"):
        return m["error"]
    if res["result"] != "ok":
        mv = m.get("error")
        if mv != res["result"]:
            return (res["result"], mv if mv else "ok")
        if res["result"] != "unparseable-output" and not res["out_same"]:
            return (res["result"] + " but the output file changed", mv)
        return None
    if "ok" not in m:
        return ("ok", m.get("error"))
    cm = canon_model(m["ok"])
    if cm != res["after_json"]:
        return (res["after_json"], cm)
    if m.get("input") != pyast.module_to_json(case["in_src"]):
        return ("input kept", "model changed the input module")
    return None


def run(chk: core.Check) -> int:
    chk.lean(MODULE, THEOREMS)
    chk.trusted_base += [
        "model lean/CddVerif/Model/SyncProperties.lean over the shared flat AST (expressions are opaque ast.unparse text): annotate_ancestry, find_in_ast, "
        "RewriteAtQuery, ast_parse docstring re-indent, it2literal, wrap template, sync_property for ONE (input-param, output-param) pair; "
        "tied by comparing the rewritten file's AST with the model's module exactly (c13.sync) and by c13.annotate / c13.find / c13.remit / c13.literal",
        "not modelled: CPython ast.parse/ast.unparse, black.format_str (applied to the model's module as the shared canonicaliser), exec of the input module under --input-eval "
        "(the evaluated value is passed to the model), str.format beyond `{output_param}` fields, _location attributes of nodes inside expressions/docstrings "
        "(cases where the real annotated tree has such a node equal to the search path are detected on the real tree and left to the oracle alone)",
        "repeated --input-param/--output-param pairs in one call: second model lean/CddVerif/Model/SyncPropertiesMulti.lean (trees with STORED _location/_idx, identity of input nodes "
        "for the aliasing of `replacement_node.annotation = …`), tied by c13.sync_multi on 2-4 pairs per call and, on every single-pair case, against the single-pair model",
    ]
    if os.path.isdir(TMP_ROOT):
        shutil.rmtree(TMP_ROOT, ignore_errors=True)
    os.makedirs(TMP_ROOT, exist_ok=True)
    rng = chk.rng
    n_valid, n_unst, n_mal = (1500, 200, 500) if chk.quick else (14000, 1500, 4000)
    cases = []
    for stream, n in (("valid", n_valid), ("unstable-doc", n_unst), ("malformed", n_mal)):
        for _ in range(n):
            cases.append(gen_case(rng, len(cases), stream))
    # corpus of past disagreements / written-out witnesses first
    corpus, corpus_multi = [], []
    cdir = core.VERIF / "corpus" / "C13"
    if cdir.is_dir():
        for f in sorted(cdir.glob("*.json")):
            c = json.loads(f.read_text())
            c.setdefault("stream", "corpus")
            c["id"] = "corpus/" + f.name
            (corpus_multi if "ips" in c else corpus).append(c)
    cases = corpus + cases
    impl = core.pmap(impl_and_oracle, cases, chunksize=16)
    reqs = [model_request(c, r["probe"]) for c, r in zip(cases, impl)]
    model = core.model_batch(reqs) if core.DRIVER.exists() else None
    # canonicalising the model's modules needs black: do it in parallel
    n_dis = n_cmp = n_skip = 0
    stale = []
    dist = {"stream": {}, "in_kind": {}, "out_kind": {}, "result": {}, "oracle": {}, "wrap": {"none": 0, "template": 0}, "eval": {"on": 0, "off": 0},
            "model_domain_excluded": {}, "model_flags": {"phantom": 0, "poisoned": 0}, "shared_name": 0, "slot": {}}
    if model is not None:
        cmp_in = list(zip(cases, impl, model))
        cmp_out = core.pmap(_compare_star, cmp_in, chunksize=16)
    else:
        cmp_out = [None] * len(cases)
    for k, (c, r) in enumerate(zip(cases, impl)):
        st = c["stream"]
        dist["stream"][st] = dist["stream"].get(st, 0) + 1
        for key in ("in_kind", "out_kind"):
            if key in c:
                dist[key][c[key]] = dist[key].get(c[key], 0) + 1
        dist["result"][r["result"]] = dist["result"].get(r["result"], 0) + 1
        dist["wrap"]["none" if c["wrap"] is None else "template"] += 1
        dist["eval"]["on" if c["eval"] else "off"] += 1
        if c["ip"].split(".")[-1].strip() == c["op"].split(".")[-1].strip():
            dist["shared_name"] += 1
        # ---- correspondence -----------------------------------------------------------------------------
        verdict = "not-run"
        if model is not None:
            m = model[k]
            for fl in ("phantom", "poisoned"):
                if m.get(fl):
                    dist["model_flags"][fl] += 1
            why = in_model_domain(c, r)
            d = cmp_out[k]
            if why is not None and d is None:
                # the assumption is violated but did not matter here (e.g. the input lookup already failed)
                n_cmp += 1
                verdict = "agrees"
            elif why is not None:
                verdict = "outside-domain:" + why
                dist["model_domain_excluded"][why] = dist["model_domain_excluded"].get(why, 0) + 1
            elif d in ("unsupported", "arg-in-statement-list"):
                verdict = d
                n_skip += 1
                dist["model_domain_excluded"][d] = dist["model_domain_excluded"].get(d, 0) + 1
            else:
                n_cmp += 1
                verdict = "agrees" if d is None else "differs"
                if d is not None:
                    n_dis += 1
                    chk.disagreement("C13 correspondence: sync_properties", {x: c[x] for x in ("in_src", "out_src", "ip", "op", "wrap", "eval")}, d[0], d[1])
        # ---- oracle on the real output ------------------------------------------------------------------
        # every failure signature carries the model's verdict on the same case: a known finding is a deviation the model
        # reproduces; the same kind of deviation on a case where model and code differ is a new violation
        status, fails = r["oracle"]
        dist["oracle"][status] = dist["oracle"].get(status, 0) + 1
        if status in ("ok", "failed"):
            for fk, fv in r.get("facts", {}).items():
                dd = dist["slot"].setdefault(fk, {})
                dd[str(fv)] = dd.get(str(fv), 0) + 1
        chk.count(("sync", c["in_src"], c["out_src"], c["ip"], c["op"], c["wrap"], c["eval"]), status in ("ok", "failed"))
        causes = set()
        for sig, what in fails:
            sig = dict(sig, model=verdict)
            if verdict == "outside-domain:location-clash-inside-opaque-node" and sig.get("cause") != "ast_parse-docstring-reindent":
                # the code left the model because of the clash: that is what explains this failure
                sig = {x: y for x, y in sig.items() if x not in ("found", "why", "causes")}
                sig["cause"] = "string-constant-clash"
            causes.add(sig.get("cause") or sig.get("where") or sig.get("kind"))
            chk.failure(sig, what, {"fn": "sync", "case": {x: c[x] for x in ("in_src", "out_src", "ip", "op", "wrap", "eval")}, "sig": {x: y for x, y in sig.items() if x != "model"}})
        if st == "corpus" and c.get("expect") and c["expect"] not in causes:
            chk.notes.append("corpus witness %s no longer fails with %r (got %s)" % (c["id"], c["expect"], sorted(map(str, causes)) or status))
            stale.append(c["id"])
        if k < len(corpus) + 3 and st != "corpus":
            chk.sample({"ip": c["ip"], "op": c["op"], "wrap": c["wrap"], "eval": c["eval"], "output_before": c["out_src"][:400], "result": r["result"],
                        "output_after": r["after"][:400] if r["result"] == "ok" else None, "oracle": status})
    chk.coverage["corpus_witnesses"] = {"run": len(corpus), "stale (no longer failing on the real code; reported, not fatal)": stale}
    chk.oblige("correspondence: sync_properties (real files) = SyncProps.syncProperties + emit canonicaliser on %d cases (%d outside the model's template/eval domain)" % (n_cmp, n_skip),
               "correspondence", model is not None and n_dis == 0 and n_cmp > 0, "%d disagreements" % n_dis)
    chk.coverage["distribution"] = dist
    # ---- the same call twice in one process ------------------------------------------------------------------------
    rep = [c for c, r in zip(cases, impl) if r.get("result") == "ok"]
    rep = [c for c in rep if c["wrap"] is not None][: (60 if chk.quick else 600)] + [c for c in rep if c["wrap"] is None][: (30 if chk.quick else 300)]
    for c, r in zip(rep, core.pmap(impl_repeat, rep, chunksize=8)):
        chk.count(("repeat", c["in_src"], c["out_src"], c["ip"], c["op"], c["wrap"], c["eval"]), True)
        if r["outs"][0] != r["outs"][1] or not r["input_same"]:
            chk.failure({"kind": "repeat-differs", "wrap": c["wrap"] is not None, "eval": bool(c["eval"])},
                        "the same sync_properties call, run twice in one process on the same unmodified input (output restored in between), writes two different outputs" if r["input_same"]
                        else "sync_properties modified its input file", {"fn": "repeat", "case": {x: c[x] for x in ("in_src", "out_src", "ip", "op", "wrap", "eval")}, "outs": r["outs"]})
    chk.coverage["repeated_calls_in_one_process"] = len(rep)
    # ---- several pairs in one call ----------------------------------------------------------------------------
    mcases = list(corpus_multi)
    for _ in range(700 if chk.quick else 6000):
        mcases.append(gen_multi(rng, "m%d" % len(mcases)))
    mimpl = core.pmap(impl_multi, mcases, chunksize=8)
    mdist = {"pairs_per_call": {}, "mode": {}, "oracle": {}, "result": {}, "wrap": {"none": 0, "template": 0}, "eval": {"on": 0, "off": 0},
             "outputs_share_a_function_or_class": 0, "same_input_repeated": 0, "model_domain_excluded": {}}
    m_dis = m_cmp = m_skip = 0
    mmodel = core.model_batch([model_request_multi(c, r) for c, r in zip(mcases, mimpl)]) if model is not None else None
    mcmp = core.pmap(_compare_multi_star, list(zip(mcases, mimpl, mmodel)), chunksize=8) if mmodel is not None else [None] * len(mcases)
    for k, (c, r) in enumerate(zip(mcases, mimpl)):
        npairs = len(c["ips"])
        mdist["pairs_per_call"][str(npairs)] = mdist["pairs_per_call"].get(str(npairs), 0) + 1
        mdist["mode"][c.get("mode", "corpus")] = mdist["mode"].get(c.get("mode", "corpus"), 0) + 1
        mdist["result"][r["result"]] = mdist["result"].get(r["result"], 0) + 1
        mdist["wrap"]["none" if c["wrap"] is None else "template"] += 1
        mdist["eval"]["on" if c["eval"] else "off"] += 1
        if len(set(c["ips"])) < npairs:
            mdist["same_input_repeated"] += 1
        if len({tuple(x.split(".")[:-1]) for x in c["ops"]}) < npairs:
            mdist["outputs_share_a_function_or_class"] += 1
        verdict = "not-run"
        if mmodel is not None:
            why = in_model_domain_multi(c, r)
            d = mcmp[k]
            if why is not None and d is None:
                m_cmp += 1
                verdict = "agrees"
            elif why is not None:
                verdict = "outside-domain:" + why
                mdist["model_domain_excluded"][why] = mdist["model_domain_excluded"].get(why, 0) + 1
            elif d in ("unsupported", "arg-in-statement-list"):
                verdict = d
                m_skip += 1
                mdist["model_domain_excluded"][d] = mdist["model_domain_excluded"].get(d, 0) + 1
            else:
                m_cmp += 1
                verdict = "agrees" if d is None else "differs"
                if d is not None:
                    m_dis += 1
                    chk.disagreement("C13 correspondence: sync_properties with several pairs", {x: c[x] for x in ("in_src", "out_src", "ips", "ops", "wrap", "eval")}, d[0], d[1])
        status, fails = r["oracle"]
        mdist["oracle"][status] = mdist["oracle"].get(status, 0) + 1
        chk.count(("multi", c["in_src"], c["out_src"], tuple(c["ips"]), tuple(c["ops"]), c["wrap"], c["eval"]), status in ("ok", "failed"))
        causes = set()
        for sig, what in fails:
            sig = dict(sig, model=verdict)
            if verdict == "outside-domain:location-clash-inside-opaque-node" and sig.get("cause") != "ast_parse-docstring-reindent":
                sig = {x: y for x, y in sig.items() if x not in ("found", "why", "causes")}
                sig["cause"] = "string-constant-clash"
            causes.add(sig.get("cause") or sig.get("where") or sig.get("kind"))
            causes.update((sig.get("causes") or "").split("+"))
            chk.failure(sig, what, {"fn": "sync-multi", "case": {x: c[x] for x in ("in_src", "out_src", "ips", "ops", "wrap", "eval")}, "sig": {x: y for x, y in sig.items() if x != "model"}})
        if k < len(corpus_multi):
            want = c.get("expect")
            if want == "pass" and status != "ok":
                chk.notes.append("fixed multi-pair call %s: oracle %s" % (c["id"], status))
            elif want not in (None, "pass") and want not in causes and want != r["result"]:
                chk.notes.append("corpus witness %s no longer shows %r (got %s / %s)" % (c["id"], want, r["result"], sorted(map(str, causes))))
                stale.append(c["id"])
        if len(corpus_multi) <= k < len(corpus_multi) + 2:
            chk.sample({"pairs": list(zip(c["ips"], c["ops"])), "wrap": c["wrap"], "eval": c["eval"], "output_before": c["out_src"][:300], "result": r["result"],
                        "output_after": r["after"][:300] if r["result"] == "ok" else None, "oracle": status})
    chk.oblige("correspondence: sync_properties with 2-4 pairs per call (real files) = SyncProps.syncAll + emit canonicaliser on %d calls (%d outside the model's domain)" % (m_cmp, m_skip),
               "correspondence", mmodel is not None and m_dis == 0 and m_cmp > 0, "%d disagreements" % m_dis)
    chk.coverage["distribution_multi_pair_calls"] = mdist
    chk.coverage["corpus_witnesses"]["run"] = len(corpus) + len(corpus_multi)
    # the single-pair cases through the multi-pair model as well: both models must give the same module
    if model is not None:
        sub = [(c, r) for c, r in zip(cases, impl)][: 600 if chk.quick else 5000]
        both = core.model_batch([{"op": "c13.sync_multi", "input": pyast.module_to_json(c["in_src"]), "output": pyast.module_to_json(c["out_src"]), "wrap": c["wrap"],
                                  "input_eval": c["eval"], "pairs": [{"input_param": c["ip"], "output_param": c["op"],
                                                                      "eval_value": (r["probe"].get("eval", {}).get("items") if c["eval"] and r["probe"].get("eval", {}).get("kind") == "seq" else None)}]}
                                 for c, r in sub])
        bad = 0
        for k, ((c, r), b2) in enumerate(zip(sub, both)):
            a2 = model[k]
            if (a2.get("ok"), a2.get("error")) != (b2.get("ok"), b2.get("error")):
                bad += 1
                chk.disagreement("C13: single-pair model vs multi-pair model", {x: c[x] for x in ("in_src", "out_src", "ip", "op", "wrap", "eval")}, a2.get("error") or "ok", b2.get("error") or "ok")
        chk.oblige("the single-pair model (SyncProps.syncProperties) and the multi-pair model on one pair (SyncProps.syncAll) give the same module on %d cases" % len(sub),
                   "correspondence", bad == 0, "%d differences" % bad)
    # ---- secondary ops -------------------------------------------------------------------------------------
    if model is not None:
        srcs = sorted({c["in_src"] for c in cases} | {c["out_src"] for c in cases})
        rng.shuffle(srcs)
        srcs = srcs[: 800 if chk.quick else 6000]
        ia = core.pmap(impl_annotate, srcs)
        ma = core.model_batch([{"op": "c13.annotate", "module": pyast.module_to_json(s)} for s in srcs])
        bad = 0
        for s, x, y in zip(srcs, ia, ma):
            chk.count(("annotate", s), True)
            if x != y.get("entries"):
                bad += 1
                chk.disagreement("C13 correspondence: annotate_ancestry", {"src": s}, x, y)
        chk.oblige("correspondence: annotate_ancestry (_location, _idx of every definition, assignment, parameter) on %d modules" % len(srcs),
                   "correspondence", bad == 0, "%d disagreements" % bad)
        # find_in_ast: every intended path of every module + perturbed paths
        items = []
        for s in srcs[: 300 if chk.quick else 2500]:
            js = pyast.module_to_json(s)
            paths = [sl["path"] for sl in c13mod.slots(js)]
            extra = []
            for p in paths[:6]:
                extra += [p[:-1] + ["nope"], p[1:], p + ["x"], [p[-1]], p[:-1]]
            for p in paths + extra:
                if p:
                    items.append((s, tuple(p)))
        items = sorted(set(items))
        rng.shuffle(items)
        items = items[: 4000 if chk.quick else 40000]
        fi = core.pmap(impl_find, items)
        fm = core.model_batch([{"op": "c13.find", "module": pyast.module_to_json(s), "search": list(p)} for s, p in items])
        bad = 0
        for it, x, y in zip(items, fi, fm):
            chk.count(("find", it), x.get("found") is not None)
            y2 = {"error": y["error"]} if "error" in y else {"found": y.get("found")}
            if x != y2:
                bad += 1
                chk.disagreement("C13 correspondence: find_in_ast", {"src": it[0], "search": list(it[1])}, x, y2)
        chk.oblige("correspondence: find_in_ast on %d (module, path) pairs" % len(items), "correspondence", bad == 0, "%d disagreements" % bad)
        # docstring re-indent
        docs = list(c13mod.DOCS_STABLE + c13mod.DOCS_UNSTABLE) + ["", " ", "\n", "a\n  b\n  ", "a\n    ", "\n\n  x\n\n   y\n\n", "a\tb\n\tc", "  lead\n    more\n  less",
                                                              "x\r\ny", "é\n λ", "a\n\n\n", "\x0c a\n \x0b b"]
        alpha = ["a", "b c", " ", "  ", "\t", "\n", "\n\n", "    ", ":param x: y", "é", "."]
        for _ in range(300 if chk.quick else 3000):
            docs.append("".join(rng.choice(alpha) for _ in range(rng.randint(1, 9))))
        docs = sorted(set(docs))
        di = core.pmap(impl_remit, docs)
        dm = core.model_batch([{"op": "c13.remit", "doc": d} for d in docs])
        bad = 0
        for d, x, y in zip(docs, di, dm):
            chk.count(("remit", d), True)
            if x != y.get("doc"):
                bad += 1
                chk.disagreement("C13 correspondence: ast_parse docstring re-indent", {"doc": d}, x, y)
        chk.oblige("correspondence: ast_parse docstring re-indent (inspect.cleandoc + reindent) on %d docstrings" % len(docs), "correspondence", bad == 0, "%d disagreements" % bad)
        # it2literal
        vals = list(c13mod.EVAL_VALUES) + ["()", "[]", "('',)", "(\"''\",)", "('\"\"',)", "(\"'a\",)", "('a\"',)", "('\\x00\\x7f',)", "(True, False, None)", "(0, -0.0, 10**20)"]
        sa = ["a", "b c", "'", '"', "\\", "\n", "\t", "é", "'q'", '"q"', "x", ""]
        for _ in range(200 if chk.quick else 2000):
            vals.append(repr(tuple(rng.choice(sa) + rng.choice(sa) + rng.choice(sa) if rng.random() < 0.8 else rng.choice([1, -2, 1.5, None, True]) for _ in range(rng.randint(1, 4)))))
        vals = sorted(set(vals))
        li = core.pmap(impl_literal, vals)
        reqs = []
        for v in vals:
            reqs.append({"op": "c13.literal", "values": [enc_const(x) for x in eval(v, {})]})
        lm = core.model_batch(reqs)
        bad = 0
        for v, x, y in zip(vals, li, lm):
            chk.count(("literal", v), True)
            y2 = {"error": y["error"]} if "error" in y else {"text": y.get("text")}
            if x != y2:
                bad += 1
                chk.disagreement("C13 correspondence: it2literal", {"value": v}, x, y2)
        chk.oblige("correspondence: ast.unparse(it2literal(v)) on %d evaluated sequences" % len(vals), "correspondence", bad == 0, "%d disagreements" % bad)
    shutil.rmtree(TMP_ROOT, ignore_errors=True)
    return chk.finish(
        "pairs of generated modules (classes with annotated attributes with/without values, methods, property getter/setter pairs, overload stubs; module-level functions with 1..5 "
        "parameters, defaults right-aligned, self/cls first inside and outside classes, positional-only/*args/keyword-only/**kwargs) x every intended dotted path kind x wrap template "
        "present/absent x --input-eval on/off; real sync_properties on temp files; output AST compared with the model exactly; oracle: only the selected slot changed, to the "
        "input's name + (wrapped) annotation / Literal of the evaluated value, defaults aligned, input bytes unchanged. non-trivial = both paths valid (oracle evaluated)")


# ------------------------------------------------------------------------------------------------------------
# several (input-param, output-param) pairs in ONE call of sync_properties
# ------------------------------------------------------------------------------------------------------------
def impl_multi(case):
    """the real sync_properties with lists of params; probes per pair (on the files as they are before the call)"""
    import cdd.class_.parse  # noqa: F401
    from cdd.compound.sync_properties import sync_properties
    from cdd.shared.ast_utils import find_in_ast
    from cdd.shared.pure_utils import strip_split
    from cdd.shared.source_transformer import ast_parse

    d = _tmpdir()
    a, b = os.path.join(d, "input_.py"), os.path.join(d, "output_.py")
    with open(a, "wt") as f:
        f.write(case["in_src"])
    with open(b, "wt") as f:
        f.write(case["out_src"])
    res = {}
    try:
        sync_properties(case["eval"], a, list(case["ips"]), b, list(case["ops"]), case["wrap"])
        res["result"] = "ok"
    except BaseException as e:  # noqa
        res["result"] = core.exc_name(e)
        res["msg"] = str(e)[:200]
    with open(a, "rt") as f:
        res["input_same"] = f.read() == case["in_src"]
    with open(b, "rt") as f:
        after = f.read()
    res["after"] = after
    res["out_same"] = after == case["out_src"]
    if res["result"] == "ok":
        try:
            res["after_json"] = pyast.module_to_json(after)
        except SyntaxError:
            res["result"] = "unparseable-output"
    probes = []
    for ip, op in zip(case["ips"], case["ops"]):
        pr = {}
        search = list(strip_split(op, "."))
        try:
            pr["clash"], pr["located"] = clash_probe(case["out_src"], search)
        except BaseException as e:  # noqa
            pr["clash"], pr["located"] = ["probe-" + type(e).__name__], []
        if not case["eval"]:
            # input nodes are MOVED into the output tree and the input tree is re-annotated before every pair: an opaque node
            # (a constant inside an annotation / value, also one that comes from the template) of the input tree that
            # carries a later pair's path is reachable from the output tree too
            try:
                pr["clash"] = pr["clash"] + input_clash_probe(case["in_src"], search, case["wrap"])
            except BaseException as e:  # noqa
                pr["clash"] = pr["clash"] + ["probe-" + type(e).__name__]
        if case["eval"]:
            pr["eval"] = eval_probe(case["in_src"], ip) if "." not in ip else {"kind": "dotted"}
        else:
            try:
                t = ast_parse(case["in_src"], filename="i.py")
                pr["find"] = describe_node(find_in_ast(list(strip_split(ip, ".")), t))
            except BaseException as e:  # noqa
                pr["find"] = {"type": core.exc_name(e)}
        probes.append(pr)
    res["probes"] = probes
    res["oracle"] = oracle_multi(case, res)
    return res


def input_clash_probe(in_src, search, wrap):
    """opaque nodes of the (annotated) input tree whose `_location` is the search path; template constants named like the
    last component (they are annotated, with whatever `parent_location` holds then, by the next `annotate_ancestry`)"""
    from cdd.shared.source_transformer import ast_parse

    tree = ast_parse(in_src, filename="i.py")
    hits = []
    for n in ast.walk(tree):
        if isinstance(n, ast.expr) and getattr(n, "_location", None) == search:
            hits.append("input:" + type(n).__name__)
    if wrap is not None and template_ok(wrap):
        for n in ast.walk(ast.parse(wrap.replace("{output_param}", "T"), mode="eval")):
            if isinstance(n, ast.Constant) and n.value == search[-1]:
                hits.append("template:Constant")
    return hits


def pair_spec(case, k, before, in_tree, probe):
    """('skip', why) or the specification of pair k: candidates in the output, expected (name, annotation, value)"""
    op = [c.strip() for c in case["ops"][k].split(".")]
    ip = [c.strip() for c in case["ips"][k].split(".")]
    out_cands = [c for c in resolve(before, op) if c.get("list") not in ("posonlyargs", "vararg", "kwarg")]
    if not out_cands:
        return "skip", "invalid-output-path"
    exp = []
    if case["eval"]:
        ev = probe.get("eval", {})
        if ev.get("kind") != "seq" or not ev["items"]:
            return "skip", "not-evaluable"
        exp.append((None, wrap_expr(case["wrap"], literal_expr(ev["items"])), None))
        in_cands = []
    else:
        in_cands = [c for c in resolve(in_tree, ip) if c.get("list") not in ("posonlyargs", "vararg", "kwarg")]
        if not in_cands:
            return "skip", "invalid-input-path"
        for c in in_cands:
            n = node_at(in_tree, c["path"])
            if isinstance(n, ast.arg):
                exp.append((n.arg, wrap_expr(case["wrap"], n.annotation), None))
            elif isinstance(n, ast.AnnAssign):
                exp.append((n.target.id, wrap_expr(case["wrap"], n.annotation), n.value))
            else:
                return "skip", "assign-input"
    if any(c["kind"] == "stmt" and len(c["path"]) > 4 for c in out_cands + in_cands):
        return "skip", "nested-class-path"
    if ambiguous_head(before, op) or (not case["eval"] and ambiguous_head(in_tree, ip)):
        return "skip", "class-and-function-share-a-name"
    if any(c["kind"] == "stmt" for c in out_cands) and any(e[1] is None for e in exp):
        return "skip", "no-annotation-for-attribute"
    for c in out_cands:
        if c["kind"] == "param":
            c["own_name"] = node_at(before, c["path"]).arg
    facts = input_facts(in_tree, ip, in_cands) if not case["eval"] else {"in_kind": "eval"}
    out_kind = "+".join(sorted({("kwonly" if c.get("list") == "kwonlyargs" else "param") if c["kind"] == "param" else "attr" for c in out_cands}))
    cause = root_cause({"eval": case["eval"]}, {"probe": probe}, facts, in_tree, in_cands, any(c["kind"] == "stmt" for c in out_cands),
                       {(node_at(before, c["path"]).lineno, node_at(before, c["path"]).col_offset) for c in out_cands})
    return "ok", {"op": op, "ip": ip, "out_cands": out_cands, "in_cands": in_cands, "exp": exp, "facts": facts, "out_kind": out_kind, "cause": cause}


def phantom_sites(before, in_tree, sp, c0):
    """paths of the `defaults` entries the phantom write can hit for this pair: the FIRST definition carrying the slot
    function's dotted path, when it is not the one that gets the slot, has a parameter with the input's name (an annotated
    assignment with a value) whose right-aligned default exists"""
    out = set()
    for ic in sp["in_cands"]:
        n = node_at(in_tree, ic["path"])
        if not (isinstance(n, ast.AnnAssign) and n.value is not None and isinstance(n.target, ast.Name)):
            continue
        t = n.target.id
        fnpaths = sorted({c["fnpath"] for c in sp["out_cands"] if c["kind"] == "param"})
        if not fnpaths:
            continue
        names = dotted(before, fnpaths[0])
        # every FunctionDef with that dotted path, in source order
        same = []

        def walk(body, bpath):
            for i, st in enumerate(body):
                p_ = bpath + (i,)
                if isinstance(st, ast.FunctionDef) and dotted(before, p_) == names:
                    same.append(p_)
                elif isinstance(st, ast.ClassDef):
                    walk(st.body, p_ + ("body",))
        walk(before.body, ("body",))
        if not same:
            continue
        first = same[0]
        if c0 is not None and c0.get("fnpath") == first:
            continue
        fn = node_at(before, first)
        slot_name = sp["op"][-1]
        if any(x.arg == slot_name for x in fn.args.args + fn.args.kwonlyargs):
            continue
        for j, x in enumerate(fn.args.args):
            if x.arg == t:
                k = j - (len(fn.args.args) - len(fn.args.defaults))
                if 0 <= k < len(fn.args.defaults):
                    out.add(first + ("args", "defaults", k))
                break
    return out


def multi_causes(case, res, specs):
    """root causes of a failure of a multi-pair call: those of the single pairs + the ones only a second pair can meet"""
    causes = []
    for sp in specs:
        c = sp["cause"]
        if c.get("cause") == "several-known-causes":
            causes += [{"cause": x} for x in c["causes"].split("+")]
        elif c:
            causes.append(c)
    probes = res["probes"]
    if not case["eval"]:
        finds = [pr.get("find") for pr in probes]
        # the same input node used again under a wrap template: `replacement_node.annotation = …` wraps it once more
        if case["wrap"] is not None:
            seen = set()
            for f in finds:
                if isinstance(f, dict) and f.get("line") is not None:
                    key = (f["line"], f["col"], f["type"])
                    if key in seen:
                        causes.append({"cause": "input-node-wrapped-again"})
                        break
                    seen.add(key)
        # an input node that was moved into the output tree keeps its input-side _location and can capture a later path
        for j, f in enumerate(finds):
            if not (isinstance(f, dict) and f.get("loc")):
                continue
            moved_itself = f["type"] == "arg" or any(c["kind"] == "stmt" for c in specs[j]["out_cands"])
            if moved_itself and any(f["loc"] == specs[k]["op"] for k in range(j + 1, len(specs))):
                causes.append({"cause": "stale-location-of-moved-input-node"})
                break
    # `_idx` is not renumbered between pairs but the self/cls offset is recomputed from the CURRENT first parameter:
    # once an earlier pair has renamed a leading self/cls (or renamed the first parameter to self/cls) the defaults index of
    # a later pair in that function is off by one
    if not case["eval"]:
        for j, sp in enumerate(specs):
            for c in sp["out_cands"]:
                if c["kind"] == "param" and c["list"] == "args" and c["j"] == 0 and c.get("own_name") is not None and sp["exp"][0][0] is not None:
                    if (c["own_name"] in ("self", "cls")) != (sp["exp"][0][0] in ("self", "cls")):
                        if any(c2.get("fnpath") == c["fnpath"] for k in range(j + 1, len(specs)) for c2 in specs[k]["out_cands"]):
                            causes.append({"cause": "stale-idx-after-first-parameter-renamed"})
    names, keys = [], []
    for c in causes:
        key = (c["cause"], c.get("found"), c.get("why"))
        if key not in keys:
            keys.append(key)
        if c["cause"] not in names:
            names.append(c["cause"])
    if len(keys) > 1:
        return {"cause": "several-known-causes", "causes": "+".join(names)}
    return causes[0] if causes else {}


def oracle_multi(case, res):
    """every selected output location takes its input's name + annotation (Literal under eval), wrapped once if a template
    is given; nothing else in the output file changes; the input file's bytes are unchanged"""
    if case["wrap"] is not None and not template_ok(case["wrap"]):
        return "skipped:invalid-template", []
    fails = []
    if not res["input_same"]:
        fails.append(({"kind": "input-modified"}, "the input file's bytes changed"))
    before = norm_docstrings(ast.parse(case["out_src"]))
    in_tree = ast.parse(case["in_src"])
    specs = []
    for k in range(len(case["ips"])):
        st, sp = pair_spec(case, k, before, in_tree, res["probes"][k])
        if st == "skip":
            return ("skipped:" + sp if not fails else "failed"), fails
        specs.append(sp)
    if len({tuple(sp["op"]) for sp in specs}) < len(specs):
        # two inputs for one location: the statement does not say which one wins (the code raises AssertionError)
        return ("skipped:same-output-twice" if not fails else "failed"), fails
    # the renames together must leave every signature with distinct parameter names
    final = {}
    for sp in specs:
        for c in sp["out_cands"]:
            if c["kind"] == "param":
                fn = node_at(before, c["fnpath"])
                names = final.setdefault(c["fnpath"], {("posonlyargs", j): x.arg for j, x in enumerate(fn.args.posonlyargs)} |
                                         {("args", j): x.arg for j, x in enumerate(fn.args.args)} | {("kwonlyargs", j): x.arg for j, x in enumerate(fn.args.kwonlyargs)} |
                                         {(ln, 0): getattr(fn.args, ln).arg for ln in ("vararg", "kwarg") if getattr(fn.args, ln)})
                if sp["exp"][0][0] is not None:
                    names[(c["list"], c["j"])] = sp["exp"][0][0]
                # the pairs are applied in order: no pair may leave a signature with two parameters of one name
                if len(set(names.values())) < len(names):
                    return ("skipped:rename-collision" if not fails else "failed"), fails
    cause = multi_causes(case, res, specs)
    region = {"in_kind": "+".join(sorted({sp["facts"]["in_kind"] for sp in specs})), "out_kind": "+".join(sorted({sp["out_kind"] for sp in specs}))}
    label = ", ".join("%s → %s" % (a, b) for a, b in zip(case["ips"], case["ops"]))
    if res["result"] != "ok":
        sig = dict(region, kind="raises", exc=res["result"].split(":")[-1], **cause)
        if not res["out_same"]:
            sig["output_changed"] = True
        fails.append((sig, "sync_properties %s on valid pairs (%s)%s" % (res["result"], label, ": " + res.get("msg", "") if res.get("msg") else "")))
        return "failed", fails
    try:
        after = norm_docstrings(ast.parse(res["after"]))
    except SyntaxError:
        fails.append((dict(region, kind="unparseable-output", **cause), "the rewritten output file is not valid Python"))
        return "failed", fails
    diffs = list(tree_diff(before, after))

    def within(d, c):
        return d[: len(c["path"])] == c["path"] or (c["dpath"] is not None and d[: len(c["dpath"])] == c["dpath"])

    claimed = []
    chosen = []
    for sp in specs:
        touched = [c for c in sp["out_cands"] if c["path"] not in claimed and any(within(d, c) for d in diffs)]
        c0 = touched[0] if touched else None
        chosen.append(c0)
        if c0 is not None:
            claimed.append(c0["path"])
    all_cands = [c for sp in specs for c in sp["out_cands"]]
    outside = [d for d in diffs if not any(c0 is not None and within(d, c0) for c0 in chosen)]
    # per pair: where the phantom default write of `visit_FunctionDef` is due (root-cause marker for a changed default)
    phantom = set()
    if not case["eval"]:
        for sp, c0 in zip(specs, chosen):
            phantom |= phantom_sites(before, in_tree, sp, c0)
    seen = set()
    for d in outside:
        if any(d[: len(ph)] == ph for ph in phantom):
            # the mechanism of C13-phantom-default, whatever the other pairs of the call select in that definition
            cl = {"where": "default", "of": "same-path-definition"}
        else:
            cl = classify_outside(before, after, d, all_cands)
        if cl["where"] in ("docstring", "module-docstring"):
            bo = black_only(case["out_src"])
            if bo is not None:
                try:
                    bt = norm_docstrings(ast.parse(bo))
                    cl["cause"] = "black-docstring-normalisation" if node_at(bt, d) == node_at(after, d) else "ast_parse-docstring-reindent"
                except Exception:  # noqa
                    pass
        elif cl["where"] == "default":
            if cl["of"] == "other-definition" or "stale" in str(cause.get("cause")) + str(cause.get("causes")):
                cl.update(cause)
        else:
            cl.update(cause)
        sig = dict(kind="frame", **cl)
        key = json.dumps(sig, sort_keys=True)
        if key not in seen:
            seen.add(key)
            fails.append((sig, "outside the selected slots (%s) the output changed at %s: %s → %s" % (label, "/".join(map(str, d)), safe_show(before, d), safe_show(after, d))))
    for k, (sp, c0) in enumerate(zip(specs, chosen)):
        slot_ok, why = False, []
        for c in ([c0] if c0 is not None else sp["out_cands"]):
            b_node = node_at(before, c["path"])
            try:
                a_node = node_at(after, c["path"])
            except Exception:  # noqa
                why.append("slot missing afterwards")
                continue
            for (nm, ann, val) in sp["exp"]:
                if c["kind"] == "param":
                    want = b_node.arg if nm is None else nm
                    if not isinstance(a_node, ast.arg) or a_node.arg != want:
                        why.append("name %r, expected %r" % (getattr(a_node, "arg", type(a_node).__name__), want))
                        continue
                    if dump(a_node.annotation) != dump(ann):
                        why.append("annotation %s, expected %s" % (show(a_node.annotation), show(ann)))
                        continue
                    if c["dpath"] is not None:
                        bd, ad = node_at(before, c["dpath"]), node_at(after, c["dpath"])
                        if dump(ad) != dump(bd) and not (val is not None and dump(ad) == dump(val)):
                            if c["dpath"] in phantom:
                                # the phantom default write of ANOTHER pair landed on the default of this pair's slot
                                sigp = {"kind": "frame", "where": "default", "of": "same-path-definition"}
                                if json.dumps(sigp, sort_keys=True) not in seen:
                                    seen.add(json.dumps(sigp, sort_keys=True))
                                    fails.append((sigp, "the default at %s changed (%s → %s) by the phantom write of another pair of the call (%s)" % (
                                        "/".join(map(str, c["dpath"])), show(bd), show(ad), label)))
                            else:
                                why.append("default %s, expected %s or the input's value" % (show(ad), show(bd)))
                                continue
                    slot_ok = True
                else:
                    own = b_node.target.id if isinstance(b_node, ast.AnnAssign) else b_node.targets[0].id
                    want = own if nm is None else nm
                    if not isinstance(a_node, ast.AnnAssign) or not isinstance(a_node.target, ast.Name) or a_node.target.id != want:
                        why.append("statement %s, expected annotated %r" % (show(a_node)[:60], want))
                        continue
                    if dump(a_node.annotation) != dump(ann):
                        why.append("annotation %s, expected %s" % (show(a_node.annotation), show(ann)))
                        continue
                    slot_ok = True
                if slot_ok:
                    break
            if slot_ok:
                break
        if not slot_ok:
            sig = dict(region, kind="slot", **cause)
            if case["eval"]:
                ev = res["probes"][k]["eval"]
                try:
                    got = dump(node_at(after, (c0 or sp["out_cands"][0])["path"]).annotation)
                except Exception:  # noqa
                    got = None
                if got is not None and got == dump(wrap_expr(case["wrap"], literal_expr(ev["items"], strip_quotes=True))):
                    sig["cause"] = "set_value-strips-quotes"
                    sig.pop("causes", None)
            if "cause" not in sig and c0 is None:
                sig["cause"] = "slot-not-updated"
            fails.append((sig, "pair %d of %d (%s → %s): the selected slot is not what the property describes: %s" % (
                k + 1, len(specs), case["ips"][k], case["ops"][k], "; ".join(why[:3]))))
    return ("failed" if fails else "ok"), fails


def model_request_multi(case, res):
    pairs = []
    for k, (ip, op) in enumerate(zip(case["ips"], case["ops"])):
        ev = res["probes"][k].get("eval", {}) if case["eval"] else {}
        pairs.append({"input_param": ip, "output_param": op, "eval_value": ev["items"] if ev.get("kind") == "seq" else None})
    return {"op": "c13.sync_multi", "input": pyast.module_to_json(case["in_src"]), "output": pyast.module_to_json(case["out_src"]),
            "pairs": pairs, "wrap": case["wrap"], "input_eval": case["eval"]}


def in_model_domain_multi(case, res):
    for pr in res["probes"]:
        if pr.get("clash"):
            return "location-clash-inside-opaque-node"
        if case["eval"] and pr.get("eval", {}).get("kind") in ("unsupported", "exec-raises"):
            return "eval-" + pr["eval"]["kind"]
    if case["wrap"] is not None and not template_ok(case["wrap"]):
        return "template-not-in-normal-form"
    return None


def compare_multi(case, res, m):
    if "error" in m and m["error"] in ("unsupported", "arg-in-statement-list"):
        return m["error"]
    if res["result"] != "ok":
        mv = m.get("error")
        if mv != res["result"]:
            return (res["result"], mv if mv else "ok")
        if res["result"] != "unparseable-output" and not res["out_same"]:
            return (res["result"] + " but the output file changed", mv)
        return None
    if "ok" not in m:
        return ("ok", m.get("error"))
    cm = canon_model(m["ok"])
    if cm != res["after_json"]:
        return (res["after_json"], cm)
    return None


def _compare_multi_star(t):
    return compare_multi(*t)


def gen_multi(r, k, stream="multi"):
    """2–4 pairs in one call: distinct inputs / one input for several outputs / one output twice; outputs preferably in
    one function or class"""
    ev = r.random() < 0.22
    for _ in range(80):
        inp = c13mod.gen_module(r, "input", 0.0, 0.1, safe=ev)
        out = c13mod.gen_module(r, "output", 0.0, 0.1)
        isl, osl = c13mod.slots(inp), c13mod.slots(out)
        n = r.choice([2, 2, 2, 3, 3, 4])
        mode = r.choices(["distinct", "same-input", "same-output"], [48, 44, 8])[0]
        outs = [s for s in osl if s["kind"] in OUT_KINDS]
        if len(outs) < 2:
            continue
        first = pick(r, outs, OUT_KINDS)
        same_home = [s for s in outs if s["pos"] == first["pos"] and s["path"] != first["path"]] if "list" in first else \
            [s for s in outs if "list" not in s and s["pos"][:-1] == first["pos"][:-1] and s["path"] != first["path"]]
        chosen_o = [first]
        while len(chosen_o) < n:
            pool = same_home if (same_home and r.random() < 0.6) else outs
            c = pick(r, pool, OUT_KINDS)
            if mode != "same-output" and any(c["path"] == x["path"] for x in chosen_o):
                if all(any(c2["path"] == x["path"] for x in chosen_o) for c2 in outs):
                    break
                continue
            chosen_o.append(c)
        if len(chosen_o) < 2:
            continue
        if mode == "same-output":
            chosen_o[r.randrange(1, len(chosen_o))] = chosen_o[0]
        n = len(chosen_o)
        if ev:
            cands = [s for s in isl if s["kind"] == "var-assign"]
            if not cands:
                continue
            chosen_i = [r.choice(cands)] * n if mode == "same-input" else [r.choice(cands) for _ in range(n)]
        else:
            i0 = pick(r, isl, IN_KINDS)
            if i0 is None:
                continue
            chosen_i = [i0] * n if mode == "same-input" else [pick(r, isl, IN_KINDS) for _ in range(n)]
            if mode == "same-input" and n > 2 and r.random() < 0.3:
                chosen_i[-1] = pick(r, isl, IN_KINDS)
        if not ev and mode != "same-output" and r.random() < 0.85:
            # keep the request meaningful: the renames must not give one signature two parameters of one name, and an attribute
            # needs an annotated input
            bad = False
            seen_names = {}
            for i, o in zip(chosen_i, chosen_o):
                it = c13mod.slot_item(inp, i)
                if "list" not in o and (i["kind"] in ("attr-assign", "var-assign") or ("list" in i and it.get("ann") is None)):
                    bad = True
                if i["kind"] in ("attr-assign", "var-assign"):
                    bad = True
                if "list" in o:
                    fn = c13mod.stmt_at(out, o["pos"])
                    names = seen_names.setdefault(tuple(o["pos"]), {(kk, j): x["name"] for kk in ("posonly", "args", "kwonly") for j, x in enumerate(fn["args"][kk])})
                    names[(o["list"], o["j"])] = i["path"][-1]
                    others = [fn["args"][kk]["name"] for kk in ("vararg", "kwarg") if fn["args"][kk]]
                    if len(set(names.values()) | set(others)) < len(names) + len(others):
                        bad = True
            if bad:
                continue
        ipaths = [list(i["path"]) for i in chosen_i]
        # a shared name now and then (default transfer, stale _idx of moved parameters)
        if not ev and r.random() < 0.3:
            k2 = r.randrange(n)
            np_ = c13mod.rename_slot(inp, chosen_i[k2], chosen_o[k2]["path"][-1])
            if np_:
                old = ipaths[k2]
                ipaths = [np_ if p_ == old else p_ for p_ in ipaths]
        if not ev:
            for i in chosen_i:
                if i["kind"] in ("attr", "var") and r.random() < 0.25:
                    c13mod.slot_item(inp, i)["value"] = r.choice(["5", "'new'", "[1]"])
        wrap = r.choice(c13mod.WRAPS) if r.random() < 0.4 else None
        try:
            in_src, out_src = render(inp), render(out)
            ast.parse(in_src), ast.parse(out_src)
        except (SyntaxError, ValueError):
            continue
        return {"id": k, "stream": stream, "mode": mode, "in_src": in_src, "out_src": out_src, "ips": [".".join(p_) for p_ in ipaths],
                "ops": [".".join(o["path"]) for o in chosen_o], "wrap": wrap, "eval": ev}
    raise core.HarnessError("c13: generator could not build a multi-pair case")


def _compare_star(t):
    return compare(*t)


def replay(path: str) -> int:
    core.repo_on_path()
    d = json.loads(Path(path).read_text())
    rp = d.get("replay") or {}
    if rp.get("fn") == "sync-multi":
        c = rp["case"]
        r = impl_multi(c)
        status, fails = r["oracle"]
        print("replay sync_properties(%s, wrap=%r, eval=%s): %s" % (", ".join("%s → %s" % x for x in zip(c["ips"], c["ops"])), c["wrap"], c["eval"], r["result"]))
        print("--- output before ---\n%s--- output after ---\n%s" % (c["out_src"], r["after"]))
        for sig, what in fails:
            print("FAILS: %s :: %s" % (json.dumps(sig, sort_keys=True), what))
        shutil.rmtree(TMP_ROOT, ignore_errors=True)
        want = rp.get("sig")
        if want is not None:
            want = {x: y for x, y in want.items() if x not in ("model",)}
            return 1 if any(all(sig.get(k) == v for k, v in want.items()) for sig, _ in fails) else 0
        return 1 if fails else 0
    if rp.get("fn") == "repeat":
        r = impl_repeat(rp["case"])
        bad = r["outs"][0] != r["outs"][1] or not r["input_same"]
        print("replay: the same call twice in one process: %s" % ("outputs differ" if bad else "same output"))
        print("--- first ---\n%s--- second ---\n%s" % tuple(r["outs"]))
        shutil.rmtree(TMP_ROOT, ignore_errors=True)
        return 1 if bad else 0
    if rp.get("fn") != "sync":
        print("replay: nothing to replay in %s" % path)
        return 2
    c = rp["case"]
    r = impl_case(c)
    status, fails = oracle(c, r)
    print("replay sync_properties(%s → %s, wrap=%r, eval=%s): %s" % (c["ip"], c["op"], c["wrap"], c["eval"], r["result"]))
    print("--- output before ---\n%s--- output after ---\n%s" % (c["out_src"], r["after"]))
    want = rp.get("sig")
    for sig, what in fails:
        print("FAILS: %s :: %s" % (json.dumps(sig, sort_keys=True), what))
    shutil.rmtree(TMP_ROOT, ignore_errors=True)
    if want is not None:
        return 1 if any(all(sig.get(k) == v for k, v in want.items()) for sig, _ in fails) else 0
    return 1 if fails else 0
