"""C08 — one conversion round reaches a fixpoint (DESIGN.md §4 C08)."""
from __future__ import annotations

import json
from pathlib import Path

from harness import core
from harness.gen import ir as G
from harness.impl import docir, hops

MODULE = "CddVerif.Properties.C08All"  # aggregator: C08 (normaliser idempotence), C08Whole (ReST fixpoint), C08Google, C08Numpy
GOOGLE = ["hop_round1_google", "round2_text_google", "typedUp_closed", "typedUp_in_domain", "hop_in_domain_edd_false", "round2_google", "hop_hop_google", "all_rounds_google",
          "all_rounds_google_ge", "noVictim_edd_false", "all_rounds_google_edd_false", "round2_text_differs_google", "hop_not_in_domain", "latch_round2_changes", "C08_google_full_false"]
NUMPY = ["hop_round1_numpy", "round2_text_numpy", "hop_in_domain_edd_false_numpy", "round2_numpy", "hop_hop_numpy", "all_rounds_numpy", "all_rounds_numpy_ok", "noVictim_edd_false",
         "all_rounds_numpy_edd_false", "round2_text_same_numpy", "hop_not_in_domain_numpy", "latch_round2_changes_numpy", "C08_numpy_full_false"]
WHOLE = ["round1", "round2", "round2_same_text", "hop_round1", "hop_fixpoint", "hop_hop", "all_rounds", "all_rounds_ok", "emit_answers_noWrap", "all_rounds_noWrap",
         "C08_full_on_domain", "round2_text_differs", "announce_variant_needed", "hop_hop_false_outside", "backtick_type_needed", "outside_domain_still_fixpoint"]
IFACE = "hop_hop_view all_rounds_view one_more_hop_view hop_closed_form hop_eq_hopIR norm_view hop_fields hop_keeps_inD02 closed_of_stable stable_of_closed chain_iface_stable all_rounds_view_stable docHyp_congr inD02_reads stable_of_laws chain_iface_laws envAll_stable closure_fails envBad_not_stable envBad_not_closed hop_self_IR rounds_self_IR hop_hop_IR argparse_hop_hop_IR argparse_hop_hop_IR_eq argparse_header_quotes_drift header_drift_class header_drift_function IRFix_proper".split()
THEOREMS = ["C02Rest.C08Rest_rounds", "C02Rest.C03Rest_docLayerStable"] + ["C08Iface." + t for t in IFACE] + ["C08Whole." + t for t in WHOLE] + ["C08.fixpoint_all_rounds", "C08.setDefaultDoc_idempotent", "C08.extract_keeps_line_when_carried", "C08.baseOf_idempotent",
            "C08.wrapOptional_idempotent", "C08.quote_idempotent", "C08.unquote_not_idempotent"] + ["C08Google." + t for t in GOOGLE] + ["C08Numpy." + t for t in NUMPY]
TRIGGER_DOCS = ["number of items to keep", "whether to shuffle the data", "list of layer names", "the path to the file", "true if verbose",
                "a string naming the thing", "integer count of epochs", "One of 'a' or 'b'", "dictionary of options", "the float value"]
JSON_KINDS = ("scalar", "optional", "literal")
SQL_KINDS = ("scalar", "optional", "literal")


def gen_ir(r, fmt):
    kinds = None
    if fmt == "json_schema":
        kinds = JSON_KINDS
    elif fmt.startswith("sqlalchemy"):
        kinds = SQL_KINDS
    suffix = not (fmt in ("docstring-rest", "json_schema") and r.random() < 0.4)  # defaults in non-suffix position where the format allows
    ir = G.gen_ir(r, nparams=r.randint(1, 4), suffix_defaults=suffix, kinds=kinds, none_ok=r.random() < 0.5)
    for n, p in ir["params"].items():
        k = r.random()
        if k < 0.25:
            p["doc"] = r.choice(TRIGGER_DOCS)
        elif k < 0.3 and p.get("typ") == "str":
            p["default"] = r.choice(["'a'", '"b"', "it's", "x y", "'\"N/A\"'", "\"'x'\""])  # incl. two layers of quote characters
        elif k < 0.38:
            p["doc"] = r.choice(["and so on...", "sizes, strides, etc..", "see above....", "the usual suspects, etc..."])  # several trailing dots
        elif k < 0.46:
            p["typ"] = r.choice(["str", "Optional[str]"])
            p["default"] = ""  # the empty string is a legal default
        elif k < 0.49:
            # a description that announces its default with one of the other DEFAULTS_TO_VARIANTS phrases
            p["doc"] = r.choice(["a count. Default value is 3", "the size. Default: 3", "a ratio. Default value is 0.5"])
            p.pop("default", None)
        elif k < 0.53:
            p["typ"] = r.choice(["float", "Optional[float]"])
            p["default"] = r.choice([1e+20, 2.5e+16, 1e-10, 123456789.125])  # floats whose repr uses exponent notation / many digits
        elif k < 0.58 and fmt not in ("json_schema",) and not fmt.startswith("sqlalchemy"):
            # container types without a default (dict / Optional[dict] / nested generics)
            p["typ"] = r.choice(["dict", "Optional[dict]", "Optional[List[int]]", "Dict[str, int]", "Tuple[int, str]"])
            p.pop("default", None)
        elif k < 0.64 and fmt not in ("json_schema",) and not fmt.startswith("sqlalchemy"):
            # code-quoted (non-literal) defaults under container / dotted types: they take the generic, not the scalar, emitter branch
            p["typ"] = r.choice(["List[int]", "Dict[int, float]", "Optional[List[int]]", "np.ndarray", "Callable[[int], int]"])
            p["default"] = r.choice(["```make_callbacks()```", "```np.zeros(3)```", "```[1, 2]```", "```lambda x: x```"])
    if fmt == "json_schema" or fmt.startswith("sqlalchemy"):
        for n, p in ir["params"].items():
            if p.get("typ", "").startswith("Literal[") and r.random() < 0.4:
                ms = r.sample(["en-GB", "a.b", "c++", "x y", "alpha", "v1.2"], r.randint(2, 3))  # members with characters that are special in a regular expression
                p["typ"] = "Literal[%s]" % ", ".join("'%s'" % m for m in ms)
                if "default" in p:
                    p["default"] = ms[0]
    if fmt in ("docstring-rest", "function", "class") and r.random() < 0.12:
        # a type so long that the emitter wraps its `:type:` line (members with blanks: a re-joined line must keep them)
        n = r.choice(list(ir["params"]))
        ir["params"][n]["typ"] = "Literal['centre left', 'centre right', 'upper left corner', 'upper right corner', 'lower left corner', 'lower right']"
        ir["params"][n]["default"] = "centre left"
    if fmt.startswith("sqlalchemy") and r.random() < 0.3:
        # key markers in descriptions: a foreign key, a primary key, and a column that is both
        n = r.choice(list(ir["params"]))
        ir["params"][n]["typ"] = "int"
        ir["params"][n].pop("default", None)
        ir["params"][n]["doc"] = r.choice(["[FK(users.id)] the owner", "[PK] the key", "[PK] [FK(users.id)] owner and key", "[FK(users.id)] [PK] owner and key"])
    for p in ir["params"].values():  # dictionary-guided search (inactive unless a constant table differs from the snapshot)
        if "doc" in p:
            p["doc"] = core.spice(r, p["doc"])
    if r.random() < 0.3:
        ir["doc"] = r.choice(["Summary line.\n\nLonger description\nover two lines.", "  Indented summary", "Summary"])
    if r.random() < 0.05:
        ir["doc"] = r.choice(["'Summary line'", "''x''", '"Quoted summary."'])  # a header that is itself wrapped in quote characters
    # descriptions that span several lines (a line break inside a parameter's or the return's description is legal input)
    if r.random() < 0.25:
        ml = r.choice(["the first line\nand a second line", "values computed so far\nwith their weights\nand the rest", "short\nlonger continuation line of the description"])
        if ir.get("returns") and r.random() < 0.6:
            ir["returns"]["return_type"]["doc"] = ml
            ir["returns"]["return_type"].pop("default", None)
        else:
            n = r.choice(list(ir["params"]))
            ir["params"][n]["doc"] = ml
    return ir


def _code_default(d):
    return isinstance(d, str) and len(d) > 6 and d.startswith("```") and d.endswith("```") and d != "```(None)```"


def _literal_code(d):
    import ast

    try:
        ast.literal_eval(d[3:-3])
        return True
    except Exception:  # noqa
        return False


def diff_kind(a, b):
    if a == b:
        return None
    if isinstance(a, str) and isinstance(b, str):
        if " ".join(a.split()) == " ".join(b.split()):
            return "whitespace"
        if b.startswith(a.rstrip(". ")) and "Defaults to" in b[len(a.rstrip(". ")):]:
            return "gains-default-prose"
        if a.startswith(b.rstrip(". ")) and "Defaults to" in a[len(b.rstrip(". ")):]:
            return "loses-default-prose"
    return "other"


def impl_rounds(case):
    ir, fmt, style, edd, n = case
    views = []
    cur = ir
    for k in range(n):
        try:
            cur = hops.hop(fmt, cur, docstring_format=style, emit_default_doc=edd)
        except Exception as e:  # noqa
            views.append({"raises": core.exc_name(e)})
            break
        v = docir.ir_view(cur)
        v["doc"] = cur.get("doc") or ""
        views.append(v)
    return views


def compare(chk, case, views):
    ir, fmt, style, edd, n = case
    rp = {"ir": docir.ir_to_model(ir), "format": fmt, "style": style, "edd": edd, "rounds": n}
    if not views or "raises" in views[0]:
        return False  # the format does not accept this interface: outside the statement
    for k in range(len(views) - 1):
        a, b = views[k], views[k + 1]
        base = {"format": fmt, "style": style, "round": min(k + 1, 2)}
        if any(("Default value is" in (p.get("doc") or "") or "Default:" in (p.get("doc") or "")) for p in ir["params"].values()):
            base["announce_variant_doc"] = True  # root-cause marker: a description announces a default with a phrase other than "defaults to"
        if any("\n" in (p.get("doc") or "") for p in list(ir["params"].values()) + list((ir.get("returns") or {}).values())):
            base["multiline_doc"] = True  # root-cause marker: some description of the input spans several lines
        if len(ir.get("doc") or "") > 2 and ir["doc"][0] == ir["doc"][-1] and ir["doc"][0] in "'\"":
            base["quoted_header"] = True  # root-cause marker: set_value strips one pair of enclosing quotes per round (theorem C08Iface.argparse_header_quotes_drift)
        if any(_code_default(p.get("default")) for p in ir["params"].values()):
            base["code_default"] = True  # root-cause marker: some parameter's default is a code-quoted (non-literal or literal-in-backticks) expression
        if "raises" in b:
            chk.failure({**base, "field": "raises", "exc": b["raises"], "trigger_doc": any(p.get("doc") in TRIGGER_DOCS for p in ir["params"].values())}, "%s: round %d parses, round %d raises %s" % (fmt, k + 1, k + 2, b["raises"]), rp)
            return True
        if a["doc"] != b["doc"]:
            chk.failure({**base, "field": "header", "change": diff_kind(a["doc"], b["doc"])}, "%s: header doc round %d %r -> round %d %r" % (fmt, k + 1, a["doc"], k + 2, b["doc"]), rp)
        na, nb = [x[0] for x in a["params"]], [x[0] for x in b["params"]]
        if na != nb:
            chk.failure({**base, "field": "names"}, "%s: names %s -> %s" % (fmt, na, nb), rp)
            continue
        ents = [(x[0], x[1], y[1]) for x, y in zip(a["params"], b["params"])]
        if a["returns"] is not None or b["returns"] is not None:
            e = {"typ": None, "doc": None, "default": None}
            ents.append(("return_type", a["returns"] or e, b["returns"] or e))
        for name, pa, pb in ents:
            ent = "return" if name == "return_type" else "param"
            for f in ("typ", "default", "doc"):
                if pa[f] != pb[f]:
                    sig = {**base, "field": f, "entry": ent}
                    if f == "doc":
                        sig["change"] = diff_kind(pa[f], pb[f])
                        sig["edd"] = edd
                        # root-cause marker (Google / NumPy "require_default" latch): the entry has no default in the input and follows one that has
                        if ent == "param" and name in ir["params"] and "default" not in ir["params"][name]:
                            names_ = list(ir["params"])
                            if any("default" in ir["params"][m] for m in names_[: names_.index(name)]):
                                sig["latch_candidate"] = True
                    elif f == "default":
                        sig["from"] = "absent" if pa[f] is None else pa[f][0]
                        sig["to"] = "absent" if pb[f] is None else pb[f][0]
                        sig["kind_change"] = sig["from"] != sig["to"]
                        # root cause marker: the type of this parameter is (re-)inferred from trigger words in its description
                        sig["trigger_doc"] = (ir["params"].get(name, {}).get("doc") in TRIGGER_DOCS) if ent == "param" else None
                        if any(x is not None and x[0] == "str" and x[1] in ("None", "(None)") for x in (pa[f], pb[f])):
                            sig["none_like"] = True
                    else:
                        sig["from_none"] = pa[f] is None
                        ta, tb = pa[f] or "", pb[f] or ""
                        if ta == "Optional[%s]" % tb or tb == "Optional[%s]" % ta:
                            sig["optional_toggle"] = True
                    d_in = ir["params"].get(name, {}).get("default") if ent == "param" else None
                    if f == "default" and isinstance(d_in, str) and len(d_in) > 2 and d_in[0] == d_in[-1] and d_in[0] in "'\"":
                        sig["quote_wrapped_default"] = True  # root cause: set_value / get_value strip one pair of enclosing quotes from a string default per round
                    if _code_default(d_in):
                        if f == "doc" and "." in d_in:
                            sig["code_default_dot"] = True  # root cause: extract_default stops at a '.' that is not followed by a digit, also inside the backticks
                        if f == "typ" and _literal_code(d_in):
                            sig["code_literal_default"] = True  # root cause: a code-quoted *literal* (```[1, 2]```) is evaluated by the argparse emitter and re-typed from its value
                    if ent == "param" and ir["params"].get(name, {}).get("typ") in ("dict", "Optional[dict]", "Optional[List[int]]", "Dict[str, int]", "Tuple[int, str]"):
                        sig["input_typ"] = ir["params"][name]["typ"]  # root-cause marker: container types take special paths (type=loads, required, None default)
                    chk.failure(sig, "%s/%s round %d -> %d: %s.%s %r -> %r" % (fmt, style, k + 1, k + 2, name, f, pa[f], pb[f]), rp)
    return True


def gn_stream(chk, rng):
    """C08Google / C08Numpy against the real code: the model's conversion round hopG / hopN (the object of round2_*, all_rounds_*) is run by the driver
    round after round and compared with the REAL emit -> parse hop on every interface in the theorems' decidable domain; on `NoVictim` the theorem's
    conclusion (round 2 = round 1) is thereby also observed on the real code; with a latch victim the drift is the model's too (latch_round2_changes)"""
    import copy

    from harness.props import c01

    n = 300 if chk.quick else 4000
    cases = []
    for _ in range(n):
        ir = c01.gen_whole(rng)
        ir["returns"] = None
        for p in ir["params"].values():
            if isinstance(p.get("default"), float):
                p["default"] = rng.choice([3, -7, True, False])
        edd = rng.random() < 0.6
        cases.append((ir, "docstring-google", "rest", edd, 3))
        ir2 = copy.deepcopy(ir)
        for p in ir2["params"].values():
            p.setdefault("typ", "int" if isinstance(p.get("default"), int) and not isinstance(p.get("default"), bool) else ("bool" if isinstance(p.get("default"), bool) else "Foo"))
        cases.append((ir2, "docstring-numpydoc", "rest", edd, 3))
    real = core.guarded_map(impl_rounds, cases, 30.0)
    mod = core.model_batch([{"op": "c08.google" if c[1] == "docstring-google" else "c08.numpy", "ir": docir.ir_to_model(c[0]), "edd": c[3], "rounds": c[4]} for c in cases])
    stat = {"google": {"in_domain": 0, "no_victim": 0, "rounds_compared": 0}, "numpy": {"in_domain": 0, "no_victim": 0, "rounds_compared": 0}}
    n_dis = n_fix = 0
    for case, views, m in zip(cases, real, mod):
        if not isinstance(views, list) or not m.get("indomain"):
            continue
        st = stat["google" if case[1] == "docstring-google" else "numpy"]
        st["in_domain"] += 1
        st["no_victim"] += bool(m.get("novictim"))
        chk.count(("c08gn", json.dumps(docir.ir_to_model(case[0]), sort_keys=True), case[1:]), len(case[0]["params"]) >= 2)
        for k, (v, mr) in enumerate(zip(views, m["rounds"])):
            if "outside" in mr:
                break
            st["rounds_compared"] += 1
            rv = {"raises": v["raises"]} if "raises" in v else {"doc": v["doc"], "params": v["params"], "returns": v["returns"]}
            mv = {"raises": mr["raises"]} if "raises" in mr else {"doc": mr["ir"]["doc"], "params": mr["ir"]["params"], "returns": mr["ir"]["returns"]}
            if rv != mv:
                n_dis += 1
                chk.disagreement("C08 correspondence: %s hop of the model (hopG / hopN) = real hop, round %d" % (case[1], k + 1), {"ir": docir.ir_to_model(case[0]), "edd": case[3], "format": case[1]}, rv, mv)
                break
        # the theorems' conclusion on the model's own rounds (evaluated; the proof covers every interface): without a victim round 2 = round 1
        if m.get("novictim") and len(m["rounds"]) >= 2 and all("ir" in x for x in m["rounds"][:2]) and m["rounds"][0] != m["rounds"][1]:
            n_fix += 1
    chk.coverage["google_numpy_fixpoint_tie"] = stat
    enough = all(st["in_domain"] > n // 20 and st["no_victim"] > n // 40 for st in stat.values())
    chk.oblige("correspondence: on InDomainG / InDomainN (decided by the driver) every round of the model's Google and NumPy hop (C08Google.hopG, C08Numpy.hopN) equals the "
               "real emit -> parse hop: %s" % json.dumps(stat, sort_keys=True), "correspondence", n_dis == 0 and n_fix == 0 and enough,
               "%d disagreements, %d no-victim interfaces whose model rounds differ" % (n_dis, n_fix))


def run(chk: core.Check) -> int:
    chk.lean(MODULE, THEOREMS)
    chk.trusted_base += [
        "Properties/C08Whole.lean: on C01Whole.InDomain the ReST hop emit->parse of the MODEL reaches its fixpoint after one round, for every number of parameters, all flags and every further round (all_rounds); "
        "the model omits parse_adhoc_doc_for_typ (prose type inference), so against the real code this is claimed for trigger-free descriptions only; the real hop is compared with the model's round by round below",
        "Properties/C08Google.lean, C08Numpy.lean: the same for the Google and NumPy styles on C01Google.InDomainG / C01Numpy.InDomainN, restricted to interfaces without a "
        "require_default latch victim (NoVictim, decidable); the unrestricted statement is proved FALSE of the model (C08_google_full_false, C08_numpy_full_false) and the real code "
        "reproduces the witness (known findings with latch_candidate); the model hop hopG / hopN is compared with the real hop round by round (driver ops c08.google / c08.numpy)",
        "Properties/C08Iface.lean: for the class / pydantic / function / argparse hops of the C02 interface model, one round is a fixpoint of the compared VIEW for every number of rounds "
        "(all_rounds_view) under the residual hypothesis DocLayerStable (the docstring layer's answers stay in the C02 hypothesis after a hop; shown necessary by closure_fails, shown sufficient "
        "together with hop_keeps_inD02, which is proved); as whole IRs a hop returns a closed form (hop_closed_form) whose fixed points are decidable (IRFix), with the header-whitespace drift of "
        "class / function and the quote loss of argparse headers proved as negations (= known findings); the docstring layer itself is a parameter there",
        "theorems are about the docstring-layer normalisers of lean/CddVerif/Model/Doc.lean (tied to the code by C01's correspondence); the per-format fixpoint itself is evaluated on the real emit -> render -> re-read -> parse pipeline for every format, rounds 1..4",
    ]
    rng = chk.rng
    cases = []
    per = 40 if chk.quick else 500
    for fmt in hops.FORMATS:
        styles = ("rest",)
        if fmt in ("class", "function"):
            styles = ("rest", "google", "numpydoc")
        k_fmt = per * 5 if fmt.startswith("docstring-") else per  # the docstring formats are cheap and carry most of the normalisers: explore them more
        for style in styles:
            for _ in range(k_fmt // len(styles)):
                cases.append((gen_ir(rng, fmt), fmt, style, rng.random() < 0.5, 3 if chk.quick else 4))
    # fixed corners (every seed): string defaults wrapped in two layers of quote characters, through every format that carries defaults in code
    from collections import OrderedDict as _OD

    for fmt in ("function", "class", "pydantic", "argparse", "docstring-rest", "sqlalchemy", "sqlalchemy_table", "sqlalchemy_hybrid", "json_schema", "docstring-google", "docstring-numpydoc"):
        for dflt in ("'\"N/A\"'", "\"'x'\""):
            for edd in (True, False):
                cases.append(({"name": "F", "doc": "Summary line.", "type": "static", "returns": None,
                               "params": _OD([("label", {"typ": "str", "doc": "the label", "default": dflt}), ("count", {"typ": "int", "doc": "a count", "default": 3})])},
                              fmt, "rest", edd, 3 if chk.quick else 4))
    res = core.guarded_map(impl_rounds, cases, 30.0)
    dist = {}
    for case, views in zip(cases, res):
        if not isinstance(views, list):
            if views and views.get("timeout"):
                chk.failure({"format": case[1], "field": "timeout"}, "repeated conversion does not terminate", {"ir": docir.ir_to_model(case[0]), "format": case[1]})
            continue
        accepted = compare(chk, case, views)
        chk.count(("c08", json.dumps(docir.ir_to_model(case[0]), sort_keys=True), case[1:]), accepted)
        if accepted:
            dist[case[1]] = dist.get(case[1], 0) + 1
    chk.coverage["accepted_cases_by_format"] = dist
    # model-level: the docstring-rest hop of the Lean model agrees with the real one round after round (trigger-free descriptions)
    if core.DRIVER.exists():
        sub = [(c, v) for c, v in zip(cases, res) if c[1] == "docstring-rest" and isinstance(v, list) and v and "raises" not in v[0]
               and not any(p.get("doc") in TRIGGER_DOCS for p in c[0]["params"].values())]
        n_dis = n_out = 0
        for (ir, fmt, style, edd, n), views in sub:
            cur = docir.ir_to_model(ir)
            for k, v in enumerate(views):
                if "raises" in v:
                    break
                e = core.model_batch([{"op": "c01.emit", "ir": cur, "style": "rest", "emit_types": True, "word_wrap": True, "edd": edd}], 1)[0]
                if "outside" in e:
                    n_out += 1
                    break
                p = core.model_batch([{"op": "c01.parse", "text": e["r"], "edd": edd}], 1)[0]
                if "outside" in p:
                    n_out += 1
                    break
                cur = p["ir"]
                mv = {"doc": cur["doc"], "params": cur["params"], "returns": cur["returns"]}
                rv = {"doc": v["doc"], "params": v["params"], "returns": v["returns"]}
                if mv != rv:
                    n_dis += 1
                    chk.disagreement("C08 correspondence: docstring-rest hop, round %d" % (k + 1), {"ir": docir.ir_to_model(ir), "edd": edd}, rv, mv)
                    break
        chk.oblige("correspondence: model docstring-rest hop = real hop on every round for %d interfaces (%d left the model's domain)" % (len(sub), n_out),
                   "correspondence", n_dis == 0, "%d disagreements" % n_dis)
        gn_stream(chk, rng)
    chk.sample({"interface": docir.ir_to_model(cases[0][0]), "format": cases[0][1], "views_per_round": res[0] if isinstance(res[0], list) else None})
    return chk.finish("interfaces incl. type-hint trigger words, non-suffix defaults (where legal) and quoted string defaults x 11 formats x styles x emit_default_doc x 3-4 rounds; "
                      "non-trivial = the format accepts the interface (round 1 parses)")


def replay(path: str) -> int:
    d = json.loads(Path(path).read_text())["replay"]
    from collections import OrderedDict

    ir = {"name": "F", "doc": d["ir"]["doc"], "type": "static",
          "params": OrderedDict((n, {k: (docir.from_tag(v) if k == "default" else v) for k, v in p.items() if v is not None}) for n, p in d["ir"]["params"]),
          "returns": None if d["ir"]["returns"] is None else OrderedDict([("return_type", {k: (docir.from_tag(v) if k == "default" else v) for k, v in d["ir"]["returns"].items() if v is not None})])}
    case = (ir, d["format"], d["style"], d["edd"], d.get("rounds", 3))
    views = impl_rounds(case)

    class C(core.Check):
        def failure(self, sig, what, replay):
            print("replay: FAILS:", what)
            self.n = getattr(self, "n", 0) + 1
            return True

    c = C("C08", "quick", 0)
    compare(c, case, views)
    if not getattr(c, "n", 0):
        print("replay: fixpoint holds on this input")
    return 1 if getattr(c, "n", 0) else 0
