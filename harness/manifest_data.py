"""Per-property MANIFEST entries (tools/gen_manifest.py writes MANIFEST.json from this)."""
HOOK_COMMITS: list = []
NOT_APPLICABLE: dict = {}
CHECKS = {
    "C09": {
        "text": "Lean 4 theorems over a faithful character-level model of cst_scanner/cst_parser: losslessness for every string "
                "(proved for arbitrary helper predicates, so it survives any change confined to is_triple_quoted/balanced_parentheses/strip), "
                "values kept verbatim, line ranges tile. Full strength for the statement; the model is tied to the code by exact "
                "comparison of chunk and node lists (exhaustive short token strings, repo files, mutants).",
        "note": "Trusted: Lean kernel + 3 standard axioms; the hand-written model matches the code only as far as the correspondence "
                "generator reaches; Python str modelled as a list of code points (no lone surrogates).",
        "technique": "Lean 4 proof (induction over the input string) + differential correspondence with the real scanner/parser",
    },
    "C18": {
        "text": "The module-level import events of every package module are regenerated from /repo on every run (translator) and "
                "`decide +kernel` re-proves over that table, on an abstract machine of CPython's import system, that every public module "
                "imports first in a fresh interpreter (quick) and that for all pairs both orders succeed and end in the same state (thorough, "
                "chunked kernel evaluation). The machine is tied to CPython by fresh-interpreter imports (verdict, loaded modules, bound names).",
        "note": "Trusted: Lean kernel (decide +kernel, no extra axioms), the ast-walking translator, the abstract import machine "
                "(validated against real imports of all singles and sampled/all ordered pairs). The quantifier is finite, so the table "
                "theorems are exhaustive; histories longer than two imports are not covered by a theorem.",
        "technique": "translator-regenerated table + Lean 4 kernel evaluation (decide +kernel) + fresh-interpreter correspondence",
    },
}
