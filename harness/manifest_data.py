"""Per-property MANIFEST entries (tools/gen_manifest.py writes MANIFEST.json from this)."""
HOOK_COMMITS: list = []
NOT_APPLICABLE: dict = {}
CHECKS = {
    "C09": {
        "text": "Lean 4 theorems over a faithful character-level model of cst_scanner/cst_parser: losslessness for every string "
                "(proved for arbitrary helper predicates, so it survives any change confined to is_triple_quoted/balanced_parentheses/strip), "
                "values kept verbatim, line ranges tile. Full strength for the statement; the model is tied to the code by exact "
                "comparison of chunk and node lists (exhaustive short token strings, repo files, mutants).",
        "note": "Trusted: Lean kernel + 3 standard axioms; the hand-written model matches the code only as far as the correspondence "
                "generator reaches; Python str modelled as a list of code points (no lone surrogates).",
        "technique": "Lean 4 proof (induction over the input string) + differential correspondence with the real scanner/parser",
    },
    "C18": {
        "text": "The module-level import events of every package module are regenerated from /repo on every run (translator) and "
                "`decide +kernel` re-proves over that table, on an abstract machine of CPython's import system, that every public module "
                "imports first in a fresh interpreter (quick) and that for all pairs both orders succeed and end in the same state (thorough, "
                "chunked kernel evaluation). The machine is tied to CPython by fresh-interpreter imports (verdict, loaded modules, bound names).",
        "note": "Trusted: Lean kernel (decide +kernel, no extra axioms), the ast-walking translator, the abstract import machine "
                "(validated against real imports of all singles and sampled/all ordered pairs). The quantifier over modules is finite, so the table "
                "theorems are exhaustive.",
        "technique": "translator-regenerated table + Lean 4 kernel evaluation (decide +kernel) + fresh-interpreter correspondence",
    },
    "C11": {
        "text": "Every `while` statement and directly recursive function of the non-test code is enumerated by a translator on every run; a "
                "table theorem says each is one of six modelled loops / four reviewed structural recursions. Each loop is a Lean step function "
                "with a measure proved to decrease (Lean accepts the loop only because of that proof) and a theorem bounding header "
                "evaluations by |input|+1. The models use the code's real index arithmetic and are tied to it by comparing while-header "
                "line-event counts (sys.settrace) and results on exhaustive short token strings, repo docstrings and mutants; every real call runs under a watchdog.",
        "note": "Partial: wall-clock time is proved as an iteration bound, not seconds; `for` loops and library calls are finite by "
                "construction/assumption; find_in_ast is modelled abstractly (any body). Trusted: Lean kernel + 3 axioms, the ast translator, sys.settrace counts.",
        "technique": "Lean 4 termination proofs (well-founded recursion with explicit measures) + translator table (decide) + trace-count correspondence",
    },
    "C10": {
        "text": "Lean theorems about merge_params with the Python set iteration order as an explicit oracle: the result is independent of the "
                "oracle (hash seed) and its key order is fully specified; a translator-regenerated table of every set expression in non-test "
                "code is proved (decide) to contain only membership/sorted/order-insensitive uses or reviewed sites. Tied to the code by "
                "comparing merged dicts, and the process-level claim is exercised by byte-for-byte differential runs across PYTHONHASHSEED "
                "values and in-process call histories (including re-use of one caller-owned AST across conversions).",
        "note": "Partial: the theorem covers merge_params and the syntactic site table (one hop of name tracking); determinism of every other "
                "function is by being a function in the model and is observed, not proved, at process level. Trusted: Lean kernel + 3 axioms, translator, differential harness.",
        "technique": "Lean 4 proof (permutation invariance of a fold) + translator table (decide) + hash-seed/history differential",
    },
    "C15": {
        "text": "Lean theorems: slice algebra (the three slices concatenate to the original for every string and every ordered index pair), "
                "header_args_footer_to_str keeps the header as a byte-exact prefix and the footer as a byte-exact suffix for all inputs, "
                "ensure_doc_args_whence_original returns the original or a string starting with the original header and ending with its footer. "
                "The models are faithful character-level ports (index walkers, split, re-assembly, num_of_nls, textwrap.indent) tied to the code "
                "by exact comparison on exhaustive short token strings, repo docstrings, mutants and generated header+section+footer documents; "
                "the conversion clauses (header lines kept in order, no prose absorbed into a type/default) are evaluated on the real parser/emitter.",
        "note": "Partial: the parse-side "
                "absorption clause is checked on the real code only. Reading: the split identity is stated on the index pair because the function "
                "returns the re-indented *current* section. Two known findings (ReST footer absorbed into the last :type/:rtype).",
        "technique": "Lean 4 proof (list prefix/suffix algebra over faithful string models) + exact differential correspondence",
    },
    "C01": {
        "text": "Lean theorems on character-level ports of set_default_doc / extract_default / _parse_out_default_and_doc: for every description in "
                "an explicit decidable domain and every integer (non-negative and negative) and boolean, the emitted 'Defaults to' prose is "
                "read back as the same value with the same Python type and the description is unchanged; with emit_default_doc=False nothing is "
                "added; quoting laws. The model also contains the full three-style emitter and a ReST reference parser, tied to the code by "
                "byte comparison of emitted docstrings and comparison of parsed views; the whole round trip is evaluated on the real code for "
                "every generated interface x style x flags, with 12 narrowly-signed known findings.",
        "note": "Partial: the whole-docstring round trip (C01_full) is observed, not proved; float/str/None/code defaults, Google and NumPy parsing "
                "are covered by correspondence/oracle only. Assumed: textwrap.fill, literal_eval, float/repr. Trusted: Lean kernel + 3 axioms, the harness.",
        "technique": "Lean 4 proof (substring-search and digit lemmas over faithful string models) + byte-exact differential correspondence + round-trip oracle",
    },
    "C08": {
        "text": "Lean theorems on the docstring-layer normalisers (ports of set_default_doc, extract_default, quote, the Optional[ wrap, the terminal "
                "full stop): each guard is idempotent for all inputs, defaults carried in the prose never change the description, one fixpoint "
                "round implies all further rounds (any n); unquote is proved NOT idempotent on a witness. The per-format fixpoint itself is "
                "evaluated on the real emit -> render -> re-read -> parse pipeline for all 11 formats, 3-4 rounds, on interfaces that include "
                "trigger words, non-suffix defaults and quoted strings; the model's docstring-rest hop is compared with the real one round by round.",
        "note": "Partial: hop(hop ir) = hop ir is not proved per format (only the normaliser guards are); 25 narrowly-signed known findings record "
                "where the unchanged code drifts (header whitespace in class/function/pydantic/sqlalchemy, Google/NumPy return entries, None defaults, ...). "
                "Trusted: Lean kernel + 3 axioms, C01's correspondence for the model, the harness.",
        "technique": "Lean 4 proof (idempotence lemmas over faithful string models) + multi-round differential oracle on the real pipeline",
    },
    "C03": {
        "text": "Lean theorem: for any family of hops, any observation and any domain closed under hops on which each single hop preserves the "
                "observation, every chain of hops of ANY length preserves it, and any two chains agree (commutation) - induction over the list of "
                "formats; chains compose. The single-hop premises are the per-format round trips (C01/C02); on the real code they are evaluated "
                "end-to-end for every chain of length <= 3 over the 5 formats (155 chains per interface, exhaustive) plus sampled chains of "
                "length 4-5, reporting each chain at its first diverging hop.",
        "note": "Partial: the theorem is parametric in the hops (its premises are observed on the real pipeline, not proved for the code); 11 known "
                "findings record where the unchanged code breaks a premise (parameters without default through function/argparse, None and complex "
                "defaults, long wrapped string defaults). Trusted: Lean kernel (no axioms needed), the harness.",
        "technique": "Lean 4 proof (induction over the conversion sequence, parametric in the hops) + exhaustive short-chain oracle on the real pipeline",
    },
    "C14": {
        "text": "Lean theorem over the ReST reference parser of the docstring model, for EVERY input text (structural recursion over chunks): whatever "
                "it returns has pairwise distinct parameter names, none with a leading asterisk; the clause 'names are non-empty' is proved FALSE "
                "of the model on a witness that the real parser reproduces (known finding). All other clauses and all other parsers (Google/NumPy "
                "docstrings, function with posonly/*args/kw-only/**kwargs signatures and several invocation modes, class, pydantic, argparse, "
                "JSON-schema, SQLAlchemy x3) are evaluated on the real parsers' outputs over grammar-generated inputs and arbitrary text.",
        "note": "Partial: only the ReST model parser is covered by a theorem; 'type parses as a Python expression' and 'every signature parameter occurs "
                "exactly once' are oracle-only. 16 known findings (*args/**kwargs/posonly missing, empty/absorbed types, empty name, server_default key). "
                "Trusted: Lean kernel + 3 axioms, C01's correspondence for the model, the harness.",
        "technique": "Lean 4 proof (invariant by induction over parsed chunks) + well-formedness oracle on every real parser",
    },
    "C06": {
        "text": "Lean theorems over a decision-by-decision port of the JSON-schema emitter and parser (type tables regenerated from the source on "
                "every run): required <=> not Optional for every interface; every emitted schema satisfies a decidable fragment of the 2020-12 "
                "meta-schema; every emitted default validates against its property; a Literal becomes the sorted pattern, which accepts exactly the "
                "strings CONTAINING a member (so 'exactly its members' is proved false on a witness); round trip modulo Literal members as a set, "
                "with the None-default and single-member-Literal negations. Tied to the code by dict equality, and the validity fragment is tied to "
                "jsonschema's Draft202012Validator (also on invalid mutants) and to re.search.",
        "note": "Partial where the statement is false of the code (4 known findings). Assumed: names unique (dict keys); description model on the "
                "trigger-free prose domain. Trusted: Lean kernel + 3 axioms, table translator, jsonschema 4.26 in python3-vt as oracle for the fragment.",
        "technique": "Lean 4 proof (induction over parameter lists on a faithful port) + regenerated tables + differential correspondence incl. real meta-schema",
    },
    "C12": {
        "text": "Lean theorems over a faithful port of _conform_filename / ground_truth / RewriteAtQuery / find_in_ast / cmp_ast on the shared flat AST, "
                "with the per-format emit/parse as parameters constrained by stated laws (C02 round trip): frame (statements outside the target unchanged, "
                "for every module and every run incl. failing ones), class targets and created files conform, truth unchanged, idempotence on the regions "
                "where it holds; the full statement is kept as a def and its negation is proved on witnesses for function/argparse targets (the pinned "
                "defect) and for dotted appends. Tied to the real CLI (python -m cdd sync, 1-3 runs in temp dirs) by comparing every file after every run.",
        "note": "Partial: emit/parse are parameters (laws assumed = C02/C08); compound statements are opaque; 8 known findings incl. the unrepairable "
                "'function/argparse targets are never rewritten'. Trusted: Lean kernel + 3 axioms, the correspondence harness.",
        "technique": "Lean 4 proof (frame/idempotence over a faithful rewrite model, parametric emitters) + CLI-history correspondence",
    },
    "C05": {
        "text": "Lean theorems over a decision-by-decision port of the SQLAlchemy emit/parse layer (param -> Column call, ensure_has_primary_key, "
                "Column -> param, class<->Table normalisation; type tables regenerated from the imported modules on every run): exactly one primary "
                "key in every emission for both force_pk_id values (full); the three variants parse to the same result for every interface (full); "
                "column round trip on the SQL-representable domain lifted to interfaces, with negations on witnesses where the code deviates "
                "(dict -> Optional[dict], one-member Literal, existing `id` column replaced). Tied to the code by AST skeleton + parsed IR comparison.",
        "note": "Partial for the round-trip clause (9 known findings). Header docstring machinery, x_typ details and the [schema=..] comment are not "
                "modelled. Trusted: Lean kernel + 3 axioms, the table translator, the correspondence harness.",
        "technique": "Lean 4 proof (induction over parameter lists on a faithful port) + regenerated type tables + AST/IR differential correspondence",
    },
    "C16": {
        "text": "Lean theorems over a port of components_paths_from_name_model_route_id_crud / emit.openapi / extract_entities / parse.openapi / "
                "gen_routes / upsert_routes / openapi_bulk on an own JSON type: every $ref resolves and every request body is defined for ANY list of "
                "models; operations are exactly those requested; every path template parameter is declared; (name+'Body').rpartition recovers the "
                "name; bulk closure under the title-key hypothesis with the negation proved on witnesses; routes -> bulk round trip. Tied to the code "
                "by whole-dict equality on generated documents through both pipelines.",
        "note": "Partial for openapi_bulk (4 known findings: title() key, key collision, undocumented column KeyError, appended batch lost). yaml.safe_load, "
                "the docstring parser and ast are parameters compared on every generated name. Trusted: Lean kernel + 3 axioms, the harness.",
        "technique": "Lean 4 proof (invariant by induction over the model list on a faithful port) + whole-document differential correspondence",
    },
    "C19": {
        "text": "Lean theorems over ports of gen_module / get_functions_and_classes / get_emit_kwarg / infer_imports / optimise_imports and main's gen guard "
                "as an effect trace (per-format parse/emit as a parameter fed by the real ones): __all__ = names.map tpl in order, defined names, module "
                "part order (__future__ first), guard => trace is exactly [isfile, raise IOError], never overwrites, imports cover every resolvable "
                "name at any depth; universal negations for the emit/parse kinds that always fail and for the import-gluing crashes. Tied to the real CLI "
                "(python -m cdd gen) by comparing exit status, exception class, file bytes under the guard and the written module as an AST.",
        "note": "Partial: per-symbol parse-back is oracle-only; 21 known findings (several emit kinds always fail, __all__ not passed through "
                "ensure_valid_identifier, import statements glued onto one line, ...). Trusted: Lean kernel + 3 axioms, the harness.",
        "technique": "Lean 4 proof (list/permutation lemmas and an effect-trace model) + CLI differential correspondence",
    },
    "C04": {
        "text": "Lean theorems over ports of the class/function/argparse emitters' decision logic (set_value, param2ast, _resolve_arg/_parse_node_for_arg, "
                "infer_type_and_default, param2argparse_param) and a small semantics (class attributes, signature, argparse actions, accepts, parse_args([])): "
                "class attributes carry the described annotations/defaults (full, incl. falsy defaults on compound types), one action per parameter with the "
                "described help/default, choices only from all-constant Literal subscripts, exact characterisations of `required` and of the signature, with "
                "negations where the code deviates. The semantics model is tied to CPython by exec of the real emitted source (in a scratch namespace) and "
                "comparison of __annotations__, inspect.signature, ArgumentParser._actions, parse_args([]) and legal-value probes.",
        "note": "Partial: 'unparse then re-parse gives an equal AST' and CPython/inspect/argparse themselves are observed, not proved; 11 known findings "
                "(required despite a default, Union converter, one-member Literal, ...). Trusted: Lean kernel + 3 axioms, the exec harness.",
        "technique": "Lean 4 proof (closed forms of the emitters on the executable domain + denotational semantics) + exec-based correspondence",
    },
    "C17": {
        "text": "A translator regenerates on every run the table of every dynamic-evaluation / dynamic-import / write / process / network / unsafe-deserialisation "
                "call site of the non-test code (digest covers the call, its guards and one hop of data flow); a decide table theorem says every site is "
                "literal-only, constant import, safe YAML, an explicit opt-in, the named output write, or the single doc-derived eval site. For that site a "
                "safe-by-type faithful port of parse_adhoc_doc_for_typ proves, for every doc/name/flag, that every character of the evaluated string is in an "
                "alphabet without parentheses, underscore, '=' or ':' (no call syntax, no dunder). Tied to the code by exact correspondence on adversarial "
                "descriptions and in-situ captured calls, and the property itself is observed under sys.addaudithook in child processes on hostile modules.",
        "note": "Partial: benignness of attribute access / operators on objects reachable from the module globals is observed, not proved. 1 known finding "
                "(sync rewrites the truth file). Trusted: Lean kernel + 3 axioms, the ast translator (one hop of data flow), the audit-hook oracle.",
        "technique": "translator-regenerated site table (decide) + Lean 4 proof by construction (subtype-carried alphabet invariant) + audit-hook oracle",
    },
    "C02": {
        "text": "Lean theorems over a structured-AST model of the four emitters (class, pydantic, function, argparse), the render/re-read step and the four "
                "parsers, with the docstring layer (C01) and CPython's expression parser as parameters: emit -> reparse -> parse returns the statement's "
                "normal form of the interface for every number of parameters and every configuration (style, emit_default_doc, type_annotations, kw-only, "
                "static/self/cls) on an explicit decidable domain inD02 under the decidable docstring-layer hypothesis docHyp; eleven negations proved on "
                "witnesses where the unchanged code normalises further than the statement allows. Tied to the code stage by stage (emitted AST, re-parsed AST, "
                "parsed IR, whole round trip) on generated interfaces x 42 configurations and hand-written sources.",
        "note": "Partial (C02_full kept as a def; 26 known findings, each replayed every run). The docstring layer is a parameter whose real answers are sent "
                "with every request; textwrap.fill on one-line descriptions and type strings as opaque strings are trusted. Lean kernel + 3 axioms.",
        "technique": "Lean 4 proof (induction over the parameter list, parametric in the docstring layer) + stage-wise differential correspondence",
    },
    "C07": {
        "text": "Lean theorems over a character-level port of the CST write-back (find_cst_at_ast, docstring / return-type / argument surgery, get_doc_str, "
                "reindent_block_with_pass_body, doctransify_cst), an AST-level model of DocTrans with the docstring machinery as an oracle, and doctrans as an "
                "effect trace: frame (every node that is not a matched header or its docstring is carried over unchanged and in order, for every node list, "
                "edit list and header-parse oracle - full), failure atomicity (a failed run writes nothing, the write is the last effect - full, with the "
                "early-open variant proved non-atomic), erase (partial, three negations), header re-synthesis (partial on plain-argument headers, seven negations). "
                "Tied to the code by exact comparison of spliced node lists, effect traces and written bytes, flat ASTs, ast.unparse(arguments) and re-indentation.",
        "note": "Partial for clauses (ii) and (iv) (34 known-finding lines: header re-synthesis keeps only name[: ann], stray arrows/parentheses, docstring-slot "
                "and indentation-sample mistakes, async). CPython's parse of a header is an oracle table. Trusted: Lean kernel + 3 axioms, the harness.",
        "technique": "Lean 4 proof (induction over node lists, effect-trace reasoning) + exact differential correspondence with doctrans / doctransify_cst",
    },
    "C20": {
        "text": "Lean theorems over an effect-trace model of exmod / exmod_single_folder / emit_file_on_hierarchy / _emit_symbol / _create_sqlalchemy_mod on an "
                "abstract file system (string-level posixpath port): with dry_run every effect is a print and the file system is unchanged, for every tree and "
                "configuration (full); a closed blacklist/whitelist gate yields an empty trace (full); confinement under the output directory is proved on an "
                "explicit decidable domain and proved FALSE outside it on three witnesses (known findings). Tied to the real CLI run under an audit hook in a "
                "forked child: ordered mkdir/open list, printed lines, exception class and final tree must equal the model's.",
        "note": "Partial for confinement (6 known findings: source __init__ overwritten, root escape, __init__ above output, blacklist spellings). find_spec, "
                "find_packages, the per-symbol emitters, black and the OS are parameters. Trusted: Lean kernel + 3 axioms, the audit-hook harness.",
        "technique": "Lean 4 proof (Hoare-style reasoning over an effect-trace monad) + audit-hook/snapshot correspondence with the real CLI",
    },
    "C13": {
        "text": "Lean theorems over a faithful port of annotate_ancestry / find_in_ast / RewriteAtQuery / emit_arg / it2literal / sync_property on the shared flat "
                "AST: frame (the rewritten module differs from the original in exactly one statement or one parameter - a one-hole context - for every module, "
                "path and replacement), slot (takes the input's name and annotation, wrapped by the template; under --input-eval keeps its name and gets the "
                "Literal), alignment (defaults keep their length, at most the right-aligned own entry changes, self/cls offset cancels), with negations proved on "
                "witnesses where the code deviates. Tied to the code by comparing the output file's AST after real sync_properties runs on temp files.",
        "note": "Partial where the statement is false of the code (10 defects / 13 finding lines: find_in_ast ignores the function name, phantom default, module "
                "docstring re-indent, ...). Docstrings compared modulo layout (ast.unparse+black). Trusted: Lean kernel + 3 axioms, the harness.",
        "technique": "Lean 4 proof (mutual structural induction with a one-hole-context invariant) + AST differential correspondence",
    },
}

# ---- additions of the second half of the build round (appended to the texts above) ------------------------------------------
EXTRA_TEXT = {
    "C01": "Added in the second half of the round (Properties/C01Whole.lean): the WHOLE-docstring round trip for ReST is proved on the model - on an explicit decidable "
           "domain InDomain, for any number of parameters, texts of any length and all flags, parseRest (emit ir) equals a predicted interface expIR ir (names, order, "
           "descriptions incl. the appended default prose, types, typed defaults, header, return entry), with 16 counterexamples showing which domain clauses are essential; "
           "the prediction is compared with what the REAL parse(emit ir) returns on every generated in-domain interface (the driver decides membership). "
           "Properties/C01Google.lean: the same for the GOOGLE style over the Google scan/parse model (Model/DocGN.lean) - google_roundtrip_full returns exactly expIRG ir, "
           "which includes the defaults that the require_default latch gives to parameters after a defaulted one - with 8 witnesses, tied to the real Google parse(emit ir) the same way; Properties/C01Numpy.lean: the same for the NumPy style with types emitted (numpy_roundtrip_full), "
           "tied the same way; lossy behaviours (names lost without types, return entries, the latch) are theorems about the model, replayed on the real code.",
    "C03": "Added later (Properties/C03Iface.lean): for the four code formats class/pydantic/function/argparse the single-hop premise is PROVED from the C02 theorems over the "
           "emitter/parser model (single), hence chain_iface / chains_commute_iface for chains of any length; the closure of the region under hops remains a hypothesis.",
    "C08": "Added later (Properties/C08Whole.lean): on C01Whole.InDomain the ReST hop emit->parse of the model is at its fixpoint after ONE round for every number of parameters "
           "and all flags (round2, hop_hop), hence for every further round (all_rounds), although the second text may differ from the first (inferred :type lines); two "
           "negations show where the domain is needed. Properties/C08Google.lean, C08Numpy.lean: the same for the Google and NumPy styles, derived from the C01Google / C01Numpy "
           "round trips - round2_*, hop_hop_*, all_rounds_* for interfaces of any size on InDomainG / InDomainN WITHOUT a require_default latch victim (NoVictim, decidable; always "
           "true with emit_default_doc=False); the unrestricted statement is proved FALSE of the model (C08_google_full_false, C08_numpy_full_false: round 2 documents the default "
           "the latch invented in round 1) and the real code reproduces that drift (known findings). The model hops hopG / hopN are run by the driver round after round and compared "
           "with the real emit->parse hop on every generated in-domain interface.",
    "C14": "Added later (Model/DocGN.lean, Properties/C14GN.lean): a character-level port of the Google and NumPy scan and parse phases with the same theorem for EVERY text "
           "and both styles (parseGN_wf, parseDocstring_wf: distinct names proved from the insertion discipline, no leading asterisk), tied to the real _scan_phase / "
           "_parse_phase / parse_docstring by exact comparison of results and exception classes (about 11 percent abstentions where literal_eval / float() / prose type "
           "inference is not modelled).",
    "C15": "Added later (Properties/C15Struct.lean): for structured docstrings of ANY size in ReST, Google and NumPy layout the walkers' index pair is computed exactly, hence "
           "start <= last or -1 and the partition without an ordering hypothesis (C15_split_structured, idx_ordered), the exact parts and the conversion corollaries; the "
           "statement is proved false for Raises-only docstrings; witnesses are evaluated in the kernel through a fuel twin proved equal to the model.",
    "C13": "Added later (Model/SyncPropertiesMulti.lean): multi-pair calls of sync_properties as a fold over the pair list on trees that keep their stored locations; loop "
           "theorems by induction over the pair list (every pair applied in order or nothing written; one hole per pair; frame chain), side conditions shown necessary on witnesses.",
    "C19": "Added later: infer is modelled with the list of plain-name bases and positional argument names (infer_class_any_base: a class goes to the SQLAlchemy parser iff some "
           "base is named Base); source entries are read independently with stdlib ast and infer is compared with the explicit --parse kind.",
    "C11": "Added later: a third regenerated table (infinite iterators, every use of the re module, for-loops that grow their own iterable) with its registry theorem; pumped "
           "inputs (long runs of one unit after scanner-relevant words) and a count of function transformations per doctrans application on deeply nested definitions.",
    "C10": "Added later: the translator treats literal_eval results as set-capable and sorted(..., key=...) as order-preserving; inputs with collections written as displays.",
}
NOTE_OVERRIDE = {
    "C01": "Partial: the ReST whole-docstring theorem is about the model, which omits the prose type inference parse_adhoc_doc_for_typ (descriptions on which the real function "
           "answers are excluded from the tie, checked per case); string/None/code defaults are outside its domain; the Google and NumPy theorems exclude return entries and non-int/bool defaults, the NumPy one also emit_types=False (where the unchanged "
           "code loses the names). 26 known findings. Assumed: textwrap.fill, literal_eval, float/repr. Trusted: Lean kernel + 3 axioms, the harness.",
    "C03": "Partial: for docstring / JSON-schema / SQLAlchemy hops the premises are observed on the real pipeline only; for the code formats the closure hypothesis (what the "
           "docstring layer answers for the next docstring) is not proved. 13 known findings record where the unchanged code breaks a premise. Trusted: Lean kernel + 3 axioms, "
           "the harness; the C02 model is tied to the code by the C02 check.",
    "C08": "Partial: the whole-docstring fixpoint is proved for the three docstring styles on the model only (which omits prose type inference; Google/NumPy without return entries, "
           "str/None defaults and latch victims); the other eight formats are oracle + correspondence. "
           "About 35 narrowly-signed known findings record where the unchanged code drifts (header whitespace, Google/NumPy latch and return entries, None defaults, announce "
           "variants, multi-line Google descriptions, container types through argparse, ...). Trusted: Lean kernel + 3 axioms, the harness.",
    "C14": "Partial: theorems cover the three docstring parsers' name discipline; 'type parses as a Python expression', 'description is a string' and 'every signature "
           "parameter occurs exactly once' are oracle-only, as are the function/class/argparse/JSON-schema/SQLAlchemy parsers (generated, hand-written and emitter-produced "
           "inputs). 23 known findings. Trusted: Lean kernel + 3 axioms, the harness.",
    "C15": "Partial: outside the structured domain (header lines that start with a section keyword, token words in the footer, ...) the ordering is observed only; the "
           "parse-side absorption clause and 'header lines survive as lines of the converted docstring' are checked on the real code only. 15 known findings. Trusted: Lean "
           "kernel + 3 axioms, the harness.",
    "C10": "Partial: the theorem covers merge_params and the syntactic site table (one hop of name tracking); determinism of every other function is observed, not proved, at "
           "process level. 1 known finding (defaults that are set displays are rendered in hash order). Trusted: Lean kernel + 3 axioms, translator, differential harness.",
}
for _pid, _t in EXTRA_TEXT.items():
    CHECKS[_pid]["text"] = CHECKS[_pid]["text"].rstrip() + " " + _t
for _pid, _t in NOTE_OVERRIDE.items():
    CHECKS[_pid]["note"] = _t


# ---- third session (2026-09-28): what each check proves in addition (appended to the texts above by tools/gen_manifest.py) ---------------------------------------------------
_CONSTS = (" Constants tie: the values of the module-level constants the models copy are regenerated from the source on every run (Gen/Consts.lean) and the "
           "tie theorems Gen.Consts.x = <model constant> of this property's models (Properties/ConstsTie/S*.lean) are obligations of this check.")
ADDENDA = {
    "C18": {"text": " Added: Properties/C18Hist.lean lifts the single-import theorem to EVERY finite import history of public modules, any length, repetitions allowed "
                    "(all_histories_ok), from a generic theorem (any table: static_ok and all singles imply all histories) proved by a monotone simulation on the import machine; "
                    "static_ok is a decidable condition on the regenerated table checked by kernel evaluation, shown necessary by a counterexample table.",
            "note": " The history theorem removes the earlier limit to one or two imports; its static side condition (no package body binds the short name of one of its own "
                    "submodules) is stronger than necessary, so a harmless `from . import sub` in an __init__ would break the obligation without a failing import. "
                    "The check also runs random real histories of 3-8 modules."},
    "C10": {"text": " Added: Model/JoinNonNone.lean + Properties/C10Join.lean model _join_non_none (the set iteration inside ir_merge) with the iteration order as an oracle: the result "
                    "as a mapping is order-independent, its key order is characterised exactly and can differ iff two fresh keys exist (witness); tied to the real function by forcing the "
                    "iteration order. The site digest of a set bound to a name now includes its order-preserving consumers; the differential also varies which package modules were "
                    "imported earlier in the process." + _CONSTS, "note": ""},
    "C15": {"text": " Added: Properties/C15All.lean — for EVERY string: index ranges of both walkers, the exact condition under which _get_token_last_idx raises, the three exits of "
                    "`last`, and a decidable condition Ordered that implies start <= last and hence the partition, each of its clauses shown necessary by a witness that also fails on the "
                    "real walkers." + _CONSTS,
            "note": " The ordering is now proved for every string satisfying the decidable condition Ordered (sufficient, not necessary; an exact characterisation is open); `last` may "
                    "exceed the length by up to 2 on the NumPy dashes exit (proved witnesses)."},
    "C14": {"text": " Added: Properties/C14Iface.lean and C14SqlJson.lean — for every input of the class / function / argparse / SQLAlchemy / JSON-schema MODEL parsers: exact key lists, "
                    "names pairwise distinct (given well-formed docstring-layer answers, which C14/C14GN prove for the docstring models, and CPython's distinct argument names), no leading "
                    "star, signature completeness and the exact order law, non-empty present types; the negation witnesses are replayed on the real parsers in every run." + _CONSTS,
            "note": " The clause 'a type parses as a Python expression' is still evaluated on real outputs only."},
    "C08": {"text": " Added: Properties/C08Iface.lean — for the class / pydantic / function / argparse hops of the C02 interface model one round is a fixpoint of the compared view for "
                    "every number of rounds under the residual hypothesis DocLayerStable (shown necessary), a hop has a closed form whose fixed points are decidable, and the header drifts "
                    "are proved as negations; Properties/C02Rest.lean discharges the residual hypothesis for the concrete ReST docstring layer on the region DomR (C08Rest_rounds)." + _CONSTS,
            "note": ""},
    "C12": {"text": " Added: Properties/C12Iface.lean instantiates the abstract emitters/parsers of the sync model with the C02 interface model: name/kind laws for every interface, the "
                    "round-trip law on the C02 domain from the C02 theorems; the congruence law is proved false for view equality and survives as one decidable instance needed only for "
                    "idempotence with a class truth. The check now also compares the descriptions of every written target with the truth's (both read with the stdlib).", "note": ""},
    "C02": {"text": " Added: Properties/C02Rest.lean — the docstring layer, so far a parameter, is instantiated by the character-level ReST model of C01 (restEnv): on the decidable "
                    "region InRest the four round-trip theorems hold with no hypothesis about the docstring layer (CPython's expression parser stays a parameter)." + _CONSTS,
            "note": " Outside InRest (Google/NumPy styles, emit_default_doc=True, multi-line headers, class return entries) the docstring layer remains a parameter whose answers the "
                    "harness evaluates per case; the composed model's emitter is compared with the real one on every run, its readers were compared by hand only."},
    "C03": {"text": " Added: closure of the region under hops is reduced to the docstring layer (C08Iface.hop_keeps_inD02 proved, residue DocLayerStable shown necessary) and discharged "
                    "for the concrete ReST layer on DomR (C02Rest.C03Rest_chain: every chain of class / pydantic / function / argparse hops of any length succeeds and preserves the view; "
                    "only hypothesis: the expression parser rejects code-quoted text)." + _CONSTS, "note": ""},
    "C01": {"text": _CONSTS + " A dictionary-guided search works strings by which the current constants differ from the snapshot of the unchanged tree into generated descriptions, so a "
                    "changed constant table usually yields a concrete failing input.", "note": ""},
    "C11": {"text": _CONSTS, "note": ""}, "C09": {"text": _CONSTS, "note": ""}, "C07": {"text": _CONSTS, "note": ""}, "C17": {"text": _CONSTS, "note": ""},
    "C04": {"text": _CONSTS, "note": ""}, "C05": {"text": _CONSTS, "note": ""}, "C06": {"text": _CONSTS, "note": ""}, "C19": {"text": _CONSTS, "note": ""},
    "C13": {"text": " The check also runs the same call twice in one process on the same unmodified input (the second output must equal the first).", "note": ""},
    "C20": {"text": " The check also calls exmod twice in one process (a dry-run preview, then a real run that blacklists part of the package): the second call must do what it does alone.", "note": ""},
}
for _k, _v in ADDENDA.items():
    CHECKS[_k]["text"] += _v["text"]
    CHECKS[_k]["note"] += _v["note"]
