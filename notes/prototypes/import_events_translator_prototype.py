"""Prototype: extract module-level import events for cdd.* and simulate CPython import machinery."""
import ast, os, sys, itertools, subprocess, json
ROOT="/repo"
def modname(path):
    rel=os.path.relpath(path,ROOT)[:-3].replace(os.sep,".")
    return rel[:-9] if rel.endswith(".__init__") else rel
files={}
for dp,dn,fn in os.walk(os.path.join(ROOT,"cdd")):
    for f in fn:
        if f.endswith(".py"):
            p=os.path.join(dp,f); files[modname(p)]=p
PKGS={m for m,p in files.items() if p.endswith("__init__.py")}
FLAGS={"PY_GTE_3_8":True,"PY_GTE_3_9":True,"PY_GTE_3_10":True,"PY_GTE_3_11":True,"PY_GTE_3_12":True,"PY3_8":False}
def static_cond(test):
    try:
        src=ast.unparse(test)
        env=dict(FLAGS); env["sys"]=sys; env["version_info"]=sys.version_info
        return bool(eval(src,{"__builtins__":{}},env))
    except Exception:
        return None
def chains(node):
    """attribute chains rooted at Name 'cdd' evaluated when `node` (an expr/stmt executed at import) runs; do not descend into function bodies/lambdas"""
    out=[]
    def visit(n):
        if isinstance(n,(ast.FunctionDef,ast.AsyncFunctionDef)):
            for d in n.decorator_list: visit(d)
            for d in n.args.defaults+[k for k in n.args.kw_defaults if k]: visit(d)
            return
        if isinstance(n,ast.Lambda): return
        if isinstance(n,ast.Attribute):
            parts=[]; cur=n
            while isinstance(cur,ast.Attribute): parts.append(cur.attr); cur=cur.value
            if isinstance(cur,ast.Name) and cur.id=="cdd":
                out.append(["cdd"]+parts[::-1]); return
        for c in ast.iter_child_nodes(n): visit(c)
    visit(node); return out
def events(mod):
    tree=ast.parse(open(files[mod]).read())
    ev=[]
    pkg = mod if mod in PKGS else mod.rpartition(".")[0]
    def do(stmts):
        for s in stmts:
            if isinstance(s,ast.Import):
                for a in s.names:
                    if a.name.split(".")[0]=="cdd": ev.append(("import",a.name))
            elif isinstance(s,ast.ImportFrom):
                m=s.module or ""
                if s.level: 
                    base=pkg.split("."); base=base[:len(base)-(s.level-1)]; m=".".join(base+([m] if m else []))
                if m.split(".")[0]=="cdd":
                    ev.append(("from",m,[a.name for a in s.names]))
                    for a in s.names: ev.append(("bind",a.asname or a.name))
            elif isinstance(s,ast.If):
                c=static_cond(s.test)
                for ch in chains(s.test): ev.append(("use",ch))
                if c is True: do(s.body)
                elif c is False: do(s.orelse)
                else: do(s.body); do(s.orelse)
            elif isinstance(s,ast.Try):
                do(s.body); do(s.orelse); do(s.finalbody)
            elif isinstance(s,(ast.FunctionDef,ast.AsyncFunctionDef,ast.ClassDef)):
                for ch in chains(s): ev.append(("use",ch))
                if isinstance(s,ast.ClassDef):
                    pass
                ev.append(("bind",s.name))
            else:
                for ch in chains(s): ev.append(("use",ch))
                for t in ast.walk(s):
                    if isinstance(t,ast.Name) and isinstance(t.ctx,ast.Store): ev.append(("bind",t.id))
    do(tree.body)
    return ev
EV={m:events(m) for m in files}
class ImpErr(Exception): pass
def simulate(seq):
    state={}   # mod -> "loading"/"done"
    names={}   # mod -> set of bound names (incl submodule attrs)
    def load(m):
        # ensure parents
        parts=m.split(".")
        for i in range(1,len(parts)+1):
            sub=".".join(parts[:i])
            if sub not in files: raise ImpErr(("ModuleNotFound",sub))
            if sub not in state:
                state[sub]="loading"; names[sub]=set()
                try:
                    run(sub)
                except ImpErr:
                    del state[sub]; raise
                state[sub]="done"
                if i>1: names[".".join(parts[:i-1])].add(parts[i-1])
    def run(m):
        for e in EV[m]:
            if e[0]=="import": load(e[1])
            elif e[0]=="from":
                load(e[1])
                for n in e[2]:
                    if n=="*" : continue
                    if n in names[e[1]]: continue
                    sub=e[1]+"."+n
                    if sub in files:
                        load(sub)
                        if state.get(sub)=="done" or sub in state: 
                            # from-import of a submodule in progress: CPython falls back to sys.modules lookup -> succeeds
                            continue
                    raise ImpErr(("ImportError",m,e[1],n))
            elif e[0]=="bind": names[m].add(e[1])
            elif e[0]=="use":
                ch=e[1]; cur=ch[0]
                for a in ch[1:]:
                    if a in names.get(cur,()): 
                        nxt=cur+"."+a
                        if nxt in files: cur=nxt; continue
                        break  # a non-module attribute: stop
                    else:
                        if cur+"."+a in files or cur in files and True:
                            raise ImpErr(("AttributeError",m,cur,a))
    try:
        for m in seq: load(m)
        return "ok"
    except ImpErr as e:
        return e.args[0][0]
mods=sorted(m for m in files if ".tests" not in m)
if __name__=="__main__":
    pred={m:simulate([m]) for m in mods}
    real={}
    for m in mods:
        r=subprocess.run(["/venv/bin/python","-c","import "+m],capture_output=True,text=True,cwd="/root/scratch")
        real[m]="ok" if r.returncode==0 else r.stderr.strip().splitlines()[-1].split(":")[0]
    bad=[(m,pred[m],real[m]) for m in mods if pred[m]!=real[m]]
    print(len(mods),"mismatches:",bad)
    print("failing:",[(m,real[m]) for m in mods if real[m]!="ok"])
