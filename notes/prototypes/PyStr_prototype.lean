/-! Prototype Python `str` semantics on `List Char` (subset needed by cst_utils) -/
namespace Py
abbrev Str := List Char

/-- `str.isspace()` for a single code point (CPython `_PyUnicode_IsWhitespace`) -/
def isSpaceC (c : Char) : Bool :=
  let n := c.toNat
  (0x09 ≤ n && n ≤ 0x0D) || (0x1C ≤ n && n ≤ 0x20) || n == 0x85 || n == 0xA0 || n == 0x1680 ||
  (0x2000 ≤ n && n ≤ 0x200A) || n == 0x2028 || n == 0x2029 || n == 0x202F || n == 0x205F || n == 0x3000

def lstrip (s : Str) : Str := s.dropWhile isSpaceC
def rstrip (s : Str) : Str := (s.reverse.dropWhile isSpaceC).reverse
def strip (s : Str) : Str := rstrip (lstrip s)
/-- `s.isspace()` : non-empty and all whitespace -/
def isspace (s : Str) : Bool := !s.isEmpty && s.all isSpaceC

def startsWith (s p : Str) : Bool := p.isPrefixOf s
def endsWith (s p : Str) : Bool := p.reverse.isPrefixOf s.reverse

/-- substring containment `p in s` -/
def contains (s p : Str) : Bool :=
  match s with
  | [] => p.isEmpty
  | c :: cs => p.isPrefixOf (c :: cs) || contains cs p

/-- `s.split(sep)` for a single-character separator -/
def splitOn1 (sep : Char) : Str → Str → List Str
  | [], acc => [acc.reverse]
  | c :: cs, acc => if c == sep then acc.reverse :: splitOn1 sep cs [] else splitOn1 sep cs (c :: acc)
def split1 (s : Str) (sep : Char) : List Str := splitOn1 sep s []

def count1 (s : Str) (c : Char) : Nat := s.count c

/-- `s.find(p)` as Option -/
def findFrom (p : Str) : Str → Nat → Option Nat
  | [], i => if p.isEmpty then some i else none
  | c :: cs, i => if p.isPrefixOf (c :: cs) then some i else findFrom p cs (i + 1)
def find (s p : Str) : Option Nat := findFrom p s 0
end Py
