/-! Prototype: generic cst scanner losslessness -/
namespace Cst

structure Preds where
  isComment : List Char → Bool
  tripleOrOther : List Char → Bool × Bool   -- (has_triple_quotes, is_other_statement)
  innerCut : List Char → Bool               -- whether add_and_clear fires for this expression prefix

/-- inner loop of `cst_scan` for `is_other_statement`: returns emitted chunks -/
def innerLoop (p : Preds) : List Char → List Char → List (List Char) → List (List Char)
  | [], expr, acc => if expr.isEmpty then acc.reverse else (expr :: acc).reverse
  | c :: cs, expr, acc =>
    let expr' := expr ++ [c]
    if p.innerCut expr' then innerLoop p cs [] (expr' :: acc)
    else innerLoop p cs expr' acc

theorem innerLoop_flatten (p : Preds) (cs expr : List Char) (acc : List (List Char)) :
    (innerLoop p cs expr acc).flatten = acc.reverse.flatten ++ expr ++ cs := by
  induction cs generalizing expr acc with
  | nil =>
    unfold innerLoop
    split
    · rename_i h; simp [List.isEmpty_iff.mp h]
    · simp
  | cons c cs ih =>
    unfold innerLoop
    simp only
    split
    · rw [ih]; simp
    · rw [ih]; simp

/-- `cst_scan`: returns (new scanned chunks to append, new stack) -/
def scan (p : Preds) (stack : List Char) : List (List Char) × List Char :=
  let isC := p.isComment stack
  let (tq, other) := p.tripleOrOther stack
  if isC || tq || other then
    if isC then ([stack], [])
    else if other then (innerLoop p stack [] [], [])
    else ([stack], [])
  else ([], stack)

theorem scan_flatten (p : Preds) (stack : List Char) :
    (scan p stack).1.flatten ++ (scan p stack).2 = stack := by
  unfold scan
  simp only
  split <;> (try split) <;> (try split) <;> simp [innerLoop_flatten]

def scannerLoop (p : Preds) : List Char → List (List Char) → List Char → List (List Char) × List Char
  | [], scanned, stack => (scanned, stack)
  | c :: cs, scanned, stack =>
    if c = '\n' then
      let r := scan p stack
      scannerLoop p cs (scanned ++ r.1) (r.2 ++ [c])
    else scannerLoop p cs scanned (stack ++ [c])

def scanner (p : Preds) (src : List Char) : List (List Char) :=
  let (scanned, stack) := scannerLoop p src [] []
  let r := scan p stack
  let scanned := scanned ++ r.1
  if r.2.isEmpty then scanned else scanned ++ [r.2]

theorem scannerLoop_flatten (p : Preds) (cs : List Char) (scanned : List (List Char)) (stack : List Char) :
    (scannerLoop p cs scanned stack).1.flatten ++ (scannerLoop p cs scanned stack).2
      = scanned.flatten ++ stack ++ cs := by
  induction cs generalizing scanned stack with
  | nil => simp [scannerLoop]
  | cons c cs ih =>
    unfold scannerLoop
    split
    · rw [ih]
      have := scan_flatten p stack
      simp only [List.flatten_append, List.append_assoc]
      rw [← List.append_assoc (scan p stack).1.flatten, this]; simp
    · rw [ih]; simp

theorem scanner_lossless (p : Preds) (src : List Char) : (scanner p src).flatten = src := by
  unfold scanner
  have h := scannerLoop_flatten p src [] []
  generalize scannerLoop p src [] [] = r at h
  obtain ⟨scanned, stack⟩ := r
  simp only at h ⊢
  have h2 := scan_flatten p stack
  simp only [List.flatten_nil, List.nil_append, List.append_nil] at h
  split
  · rename_i he
    have he' := List.isEmpty_iff.mp he
    rw [he', List.append_nil] at h2
    rw [List.flatten_append, h2]; exact h
  · rw [List.flatten_append, List.flatten_append]
    simp only [List.flatten_cons, List.flatten_nil, List.append_nil]
    rw [List.append_assoc, h2]; exact h

end Cst
#print axioms Cst.scanner_lossless
