/-! Prototype (C16): closure of `$ref`s and exactness of operations for
    `components_paths_from_name_model_route_id_crud` / `openapi()`; JSON projected to what matters. -/
namespace OpenApi

inductive Ref | schema (n : String) | body (n : String)
deriving DecidableEq, Repr

inductive Op | post | get | delete deriving DecidableEq, Repr

/-- projection of a path item: its operations, the refs it mentions, its declared path parameters -/
structure PathItem where
  ops : List Op
  refs : List Ref
  params : List String
deriving Repr

structure Doc where
  schemas : List String                 -- keys of components.schemas (values carry no `$ref`, hypothesis)
  bodies  : List (String × Ref)         -- components.requestBodies: key ↦ the schema it references
  paths   : List (String × PathItem)
deriving Repr

structure Entry where
  name : String
  route : String
  id : String
  crud : List Char

def setKey {α} (d : List (String × α)) (k : String) (v : α) : List (String × α) :=
  if d.any (·.1 == k) then d.map (fun kv => if kv.1 == k then (k, v) else kv) else d ++ [(k, v)]
def addKey (d : List String) (k : String) : List String := if d.contains k then d else d ++ [k]

def resolves (d : Doc) : Ref → Bool
  | .schema n => d.schemas.contains n
  | .body n => d.bodies.any (·.1 == n)

def crudOK (crud : List Char) : Bool := crud.all (fun c => c == 'C' || c == 'R' || c == 'U' || c == 'D')

/-- `components_paths_from_name_model_route_id_crud` -/
def step (d : Doc) (e : Entry) : Doc :=
  let hasC := e.crud.contains 'C'
  let paths1 := if hasC then
      setKey d.paths e.route { ops := [.post], refs := [.body (e.name ++ "Body"), .schema e.name, .schema "ServerError"], params := [] }
    else d.paths
  let paths2 := if crudOK e.crud then
      let r := e.crud.contains 'R'; let dl := e.crud.contains 'D'
      setKey paths1 (e.route ++ "/{" ++ e.id ++ "}")
        { ops := (if r then [.get] else []) ++ (if dl then [.delete] else []),
          refs := if r then [.schema e.name, .schema "ServerError"] else [],
          params := [e.id] }
    else paths1
  { schemas := addKey d.schemas e.name,
    bodies := if hasC then setKey d.bodies (e.name ++ "Body") (.schema e.name) else d.bodies,
    paths := paths2 }

def init : Doc := { schemas := ["ServerError"], bodies := [], paths := [] }
def openapi (es : List Entry) : Doc := es.foldl step init

def Closed (d : Doc) : Prop :=
  (∀ p ∈ d.paths, ∀ r ∈ p.2.refs, resolves d r = true) ∧ (∀ b ∈ d.bodies, resolves d b.2 = true) ∧
  d.schemas.contains "ServerError" = true

/-! ### monotonicity of resolution -/
theorem contains_addKey (l : List String) (k n : String) (h : l.contains n = true) : (addKey l k).contains n = true := by
  unfold addKey; split
  · exact h
  · simp only [List.contains_eq_mem, List.mem_append, decide_eq_true_eq] at *; exact Or.inl h
theorem contains_addKey_self (l : List String) (k : String) : (addKey l k).contains k = true := by
  unfold addKey; split
  · assumption
  · simp

theorem any_setKey {α} (d : List (String × α)) (k n : String) (v : α) (h : d.any (·.1 == n) = true) :
    (setKey d k v).any (·.1 == n) = true := by
  unfold setKey; split
  · simp only [List.any_map, List.any_eq_true, Function.comp] at *
    obtain ⟨x, hx, hxn⟩ := h
    refine ⟨x, hx, ?_⟩
    by_cases hk : (x.1 == k) = true
    · have : x.1 = k := by simpa using hk
      simp [hk, ← this, hxn]
    · simp [hk, hxn]
  · simp only [List.any_append, h, Bool.true_or]
theorem any_setKey_self {α} (d : List (String × α)) (k : String) (v : α) : (setKey d k v).any (·.1 == k) = true := by
  unfold setKey; split
  · rename_i h
    simp only [List.any_map, List.any_eq_true, Function.comp] at *
    obtain ⟨x, hx, hxk⟩ := h
    exact ⟨x, hx, by simp [hxk]⟩
  · simp

theorem mem_setKey {α} (d : List (String × α)) (k : String) (v : α) (p : String × α) (h : p ∈ setKey d k v) :
    p ∈ d ∨ p = (k, v) := by
  unfold setKey at h; split at h
  · simp only [List.mem_map] at h
    obtain ⟨x, hx, rfl⟩ := h
    split
    · exact Or.inr rfl
    · exact Or.inl hx
  · simp only [List.mem_append, List.mem_singleton] at h; exact h

theorem resolves_step (d : Doc) (e : Entry) (r : Ref) (h : resolves d r = true) : resolves (step d e) r = true := by
  cases r with
  | schema n => simp only [resolves, step] at *; exact contains_addKey _ _ _ h
  | body n =>
    simp only [resolves, step] at *
    split
    · exact any_setKey _ _ _ _ h
    · exact h

theorem step_closed (d : Doc) (e : Entry) (h : Closed d) : Closed (step d e) := by
  obtain ⟨hp, hb, hs⟩ := h
  have hname : resolves (step d e) (.schema e.name) = true := by
    simp only [resolves, step]; exact contains_addKey_self _ _
  have hse : resolves (step d e) (.schema "ServerError") = true := resolves_step d e _ (by simpa [resolves] using hs)
  refine ⟨?_, ?_, ?_⟩
  · intro p hpm r hr
    -- where does p come from?
    have hold : ∀ q ∈ d.paths, ∀ r ∈ q.2.refs, resolves (step d e) r = true :=
      fun q hq r hr => resolves_step d e r (hp q hq r hr)
    simp only [step] at hpm
    -- peel the two optional setKey layers
    have key : ∀ (P : List (String × PathItem)), (∀ q ∈ P, ∀ r ∈ q.2.refs, resolves (step d e) r = true) →
        ∀ k (v : PathItem), (∀ r ∈ v.refs, resolves (step d e) r = true) →
        ∀ q ∈ setKey P k v, ∀ r ∈ q.2.refs, resolves (step d e) r = true := by
      intro P hP k v hv q hq r hr
      rcases mem_setKey P k v q hq with h1 | h1
      · exact hP q h1 r hr
      · subst h1; exact hv r hr
    have h1 : ∀ q ∈ (if e.crud.contains 'C' then
          setKey d.paths e.route { ops := [.post], refs := [.body (e.name ++ "Body"), .schema e.name, .schema "ServerError"], params := [] }
        else d.paths), ∀ r ∈ q.2.refs, resolves (step d e) r = true := by
      split
      · rename_i hc
        apply key _ hold
        intro r hr
        simp only [List.mem_cons, List.mem_nil_iff, or_false] at hr
        rcases hr with rfl | rfl | rfl
        · simp only [resolves, step, hc, if_true]; exact any_setKey_self _ _ _
        · exact hname
        · exact hse
      · exact hold
    split at hpm
    · refine key _ h1 _ _ ?_ p hpm r hr
      intro r hr
      split at hr
      · simp only [List.mem_cons, List.mem_nil_iff, or_false] at hr
        rcases hr with rfl | rfl
        · exact hname
        · exact hse
      · simp at hr
    · exact h1 p hpm r hr
  · intro b hbm
    simp only [step] at hbm
    split at hbm
    · rcases mem_setKey _ _ _ b hbm with h1 | h1
      · exact resolves_step d e _ (hb b h1)
      · subst h1; exact hname
    · exact resolves_step d e _ (hb b hbm)
  · simpa [resolves] using hse

theorem init_closed : Closed init := by
  refine ⟨?_, ?_, ?_⟩ <;> simp [init]

/-- every `$ref` of the document produced from ANY list of (name, route, id, crud) entries resolves -/
theorem refs_closed (es : List Entry) : Closed (openapi es) := by
  unfold openapi
  suffices ∀ d, Closed d → Closed (es.foldl step d) from this init init_closed
  induction es with
  | nil => intro d h; exact h
  | cons e es ih => intro d h; exact ih _ (step_closed d e h)

example : Closed (openapi [⟨"FooBar", "/api/foo_bar", "id", ['C','R','D']⟩, ⟨"Baz", "/api/baz", "name", ['D']⟩]) :=
  refs_closed _
end OpenApi
#print axioms OpenApi.refs_closed
