import Find
/-! Prototype: round trip of one ReST `:param` line carrying a non-negative int default.
    Sizing experiment for C01 — how much proof does the value-level bijection cost? -/
namespace Line
open Py

def lower (c : Char) : Char := if 'A' ≤ c ∧ c ≤ 'Z' then Char.ofNat (c.toNat + 32) else c
def casefold (s : Str) : Str := s.map lower

def pParam : Str := [':', 'p', 'a', 'r', 'a', 'm', ' ']
def announce : Str := ['d', 'e', 'f', 'a', 'u', 'l', 't', 's', ' ', 't', 'o', ' ']
def sep : Str := ['.', ' ', 'D', 'e', 'f', 'a', 'u', 'l', 't', 's', ' ', 't', 'o', ' ']

def renderNat (n : Nat) : Str := Nat.toDigits 10 n

/-- emitted line: `:param {name}: {doc}. Defaults to {n}` -/
def emitLine (name doc : Str) (n : Nat) : Str :=
  pParam ++ name ++ [':', ' '] ++ doc ++ sep ++ renderNat n

/-- the scanning loop of `extract_default`: take chars until a '.' that is not followed by a digit
    (bracket depth is irrelevant for digit-only text and omitted in this sizing prototype) -/
def takeDefault : Str → Str
  | [] => []
  | c :: cs =>
    if c == '.' && (match cs with | [] => true | d :: _ => !d.isDigit) then []
    else c :: takeDefault cs

def parseNat? (s : Str) : Option Nat :=
  if !s.isEmpty && s.all Char.isDigit then some (Nat.ofDigitChars 10 s 0) else none

/-- value part of the line → (doc kept verbatim since emit_default_doc=True, default) -/
def extractDefault (val : Str) : Option (Str × Nat) :=
  match find announce (casefold val) with
  | none => none
  | some i =>
    let rest := val.drop (i + announce.length)
    (parseNat? (takeDefault rest)).map (fun n => (val, n))

def parseLine (line : Str) : Option (Str × Str × Nat) :=
  if isPrefix pParam line then
    let rest := line.drop pParam.length
    let name := rest.takeWhile (· != ':')
    let val := (rest.drop (name.length + 1)).dropWhile (· == ' ')
    (extractDefault val).map (fun (d, n) => (name, d, n))
  else none

/-! ### lemmas -/

theorem takeDefault_digits (s : Str) (h : ∀ c ∈ s, c.isDigit = true) : takeDefault s = s := by
  induction s with
  | nil => rfl
  | cons c cs ih =>
    have hc : c.isDigit = true := h c (by simp)
    have : (c == '.') = false := by
      cases hdot : (c == '.') with
      | false => rfl
      | true =>
        have : c = '.' := by simpa using hdot
        subst this; revert hc; decide
    simp only [takeDefault, this, Bool.false_and]
    rw [ih (fun d hd => h d (by simp [hd]))]
    rfl

theorem renderNat_digits (n : Nat) : ∀ c ∈ renderNat n, c.isDigit = true := by
  intro c hc
  exact Nat.isDigit_of_mem_toDigits (by decide) (by decide) hc

theorem parseNat_render (n : Nat) : parseNat? (renderNat n) = some n := by
  unfold parseNat?
  have hne : (renderNat n).isEmpty = false := by
    have := @Nat.toDigits_ne_nil n 10
    cases h : renderNat n with
    | nil => exact absurd h this
    | cons _ _ => rfl
  have hall : (renderNat n).all Char.isDigit = true := by
    rw [List.all_eq_true]; exact renderNat_digits n
  simp only [hne, hall, Bool.not_false, Bool.and_self, if_true]
  congr 1
  exact Nat.ofDigitChars_toDigits (by decide) (by decide)

/-- domain of names: no ':' -/
def NameOK (name : Str) : Prop := ∀ c ∈ name, c ≠ ':'
/-- domain of descriptions: does not start with a space, and the announce string does not occur
    early in the case-folded text that precedes the emitter's own announce -/
def DocOK (doc : Str) : Prop :=
  (∀ c, doc.head? = some c → c ≠ ' ') ∧ NoEarly announce (casefold doc ++ ['.', ' '])

theorem takeWhile_name (name rest : Str) (h : NameOK name) :
    (name ++ ':' :: rest).takeWhile (· != ':') = name := by
  induction name with
  | nil => simp
  | cons c cs ih =>
    have hc : c ≠ ':' := h c (by simp)
    simp only [List.cons_append, List.takeWhile_cons, bne_iff_ne, ne_eq, hc, not_false_eq_true, if_true]
    rw [ih (fun d hd => h d (by simp [hd]))]

theorem lower_digit (c : Char) (h : c.isDigit = true) : lower c = c := by
  unfold lower
  split
  · rename_i hc
    exfalso
    simp only [Char.isDigit, Bool.and_eq_true, decide_eq_true_eq, ge_iff_le, UInt32.le_iff_toNat_le] at h
    have h2 := hc.1
    simp only [Char.le_def, UInt32.le_iff_toNat_le] at h2
    have e1 : ('A' : Char).val.toNat = 65 := by decide
    have e2 : ('9' : Char).val.toNat = 57 := by decide
    have e3 : ('0' : Char).val.toNat = 48 := by decide
    omega
  · rfl

theorem casefold_digits (s : Str) (h : ∀ c ∈ s, c.isDigit = true) : casefold s = s := by
  induction s with
  | nil => rfl
  | cons c cs ih =>
    simp only [casefold, List.map_cons] at *
    rw [lower_digit c (h c (by simp)), ih (fun d hd => h d (by simp [hd]))]

theorem casefold_sep : casefold sep = ['.', ' '] ++ announce := by decide

theorem dropWhile_space (s : Str) (h : ∀ c, s.head? = some c → c ≠ ' ') :
    (' ' :: s).dropWhile (· == ' ') = s := by
  simp only [List.dropWhile_cons, beq_self_eq_true, if_true]
  cases s with
  | nil => rfl
  | cons c cs =>
    have : c ≠ ' ' := h c rfl
    simp [this]

theorem roundtrip (name doc : Str) (n : Nat) (hn : NameOK name) (hd : DocOK doc) :
    parseLine (emitLine name doc n) = some (name, doc ++ sep ++ renderNat n, n) := by
  unfold parseLine emitLine
  have hp : isPrefix pParam (pParam ++ name ++ [':', ' '] ++ doc ++ sep ++ renderNat n) = true := by
    simp only [List.append_assoc]; exact isPrefix_append _ _
  simp only [hp, if_true]
  have hdrop : (pParam ++ name ++ [':', ' '] ++ doc ++ sep ++ renderNat n).drop pParam.length
      = name ++ ':' :: ' ' :: (doc ++ sep ++ renderNat n) := by
    simp only [List.append_assoc, List.drop_left]
    rfl
  rw [hdrop, takeWhile_name name _ hn]
  have hdrop2 : (name ++ ':' :: ' ' :: (doc ++ sep ++ renderNat n)).drop (name.length + 1)
      = ' ' :: (doc ++ sep ++ renderNat n) := by
    rw [List.drop_append]
    simp
  rw [hdrop2]
  have hhead : ∀ c, (doc ++ sep ++ renderNat n).head? = some c → c ≠ ' ' := by
    intro c hc
    cases doc with
    | nil => simp [sep] at hc; subst hc; decide
    | cons d ds => exact hd.1 c (by simpa using hc)
  rw [dropWhile_space _ hhead]
  -- extract_default
  unfold extractDefault
  have hcf : casefold (doc ++ sep ++ renderNat n) = (casefold doc ++ ['.', ' ']) ++ announce ++ renderNat n := by
    simp only [casefold, List.map_append] at *
    have h1 := casefold_sep
    have h2 := casefold_digits (renderNat n) (renderNat_digits n)
    simp only [casefold] at h1 h2
    rw [h1, h2]; simp [List.append_assoc]
  have hfind : find announce (casefold (doc ++ sep ++ renderNat n)) = some (doc.length + 2) := by
    rw [hcf]; unfold find
    rw [findFrom_append announce _ _ 0 (by decide) hd.2]
    simp [casefold]
  rw [hfind]
  have hrest : (doc ++ sep ++ renderNat n).drop (doc.length + 2 + announce.length) = renderNat n := by
    have : doc.length + 2 + announce.length = (doc ++ sep).length := by simp [sep, announce]
    rw [this, List.drop_left]
  simp only [hrest, takeDefault_digits _ (renderNat_digits n), parseNat_render, Option.map_some]

end Line
#print axioms Line.roundtrip
