/-! Prototype (C10): `merge_params` over insertion-ordered dicts; the iteration order of Python sets
    is an explicit oracle (any permutation).  Shows: (1) the `&`-loop is order-insensitive,
    (2) the fixed (ordered) `-`-loop gives `target.keys ++ missing other.keys`,
    (3) the unfixed set-difference loop is order-sensitive (witness). -/
namespace Merge

structure Param where
  typ : Option String := none
  doc : Option String := none
  default : Option String := none     -- rendered default; `none` = absent
deriving DecidableEq, Repr

abbrev Dict := List (String × Param)

def get? (d : Dict) (k : String) : Option Param := (d.find? (·.1 == k)).map (·.2)
def has (d : Dict) (k : String) : Bool := d.any (·.1 == k)
/-- `d[k] = v` : keeps the position of an existing key, appends a new one -/
def set (d : Dict) (k : String) (v : Param) : Dict :=
  if has d k then d.map (fun kv => if kv.1 == k then (k, v) else kv) else d ++ [(k, v)]
def keys (d : Dict) : List String := d.map (·.1)

def simpleTypes : List String := ["int", "float", "complex", "str", "bool"]
def isNoneLike (o : Option String) : Bool := o == none || o == some "None" || o == some "```(None)```"

/-- `merge_present_params(other_param, target_param)` (mutates target) -/
def mergePresent (other target : Param) : Param :=
  let t1 := if (target.doc == none || target.doc == some "") && (other.doc != none && other.doc != some "")
            then { target with doc := other.doc } else target
  let t2 := if other.typ != none &&
               (t1.typ == none || (match t1.typ, other.typ with
                                   | some tt, some ot => simpleTypes.contains tt && !simpleTypes.contains ot
                                   | _, _ => false))
            then { t1 with typ := other.typ } else t1
  if isNoneLike t2.default && other.default != none then { t2 with default := other.default } else t2

/-- in-place update of the value stored under `k` (no-op if absent); keys and order unchanged -/
def modify (d : Dict) (k : String) (f : Param → Param) : Dict :=
  d.map (fun kv => if kv.1 == k then (kv.1, f kv.2) else kv)

/-- one iteration of `for name in other.keys() & target.keys(): merge_present_params(other[name], target[name])` -/
def stepCommon (other : Dict) (target : Dict) (k : String) : Dict :=
  match get? other k with
  | some o => modify target k (mergePresent o)
  | none => target

/-- one iteration of the second loop -/
def stepMissing (other : Dict) (target : Dict) (k : String) : Dict :=
  match get? other k with
  | some o => if has target k then target else set target k o
  | none => target

/-- code as FIXED: second loop iterates `other` in order; first loop iterates a set (order `common`) -/
def mergeFixed (common : List String) (other target : Dict) : Dict :=
  (keys other).foldl (stepMissing other) (common.foldl (stepCommon other) target)

/-- code as PINNED: second loop iterates the set difference in oracle order `missing` -/
def mergePinned (common missing : List String) (other target : Dict) : Dict :=
  missing.foldl (stepMissing other) (common.foldl (stepCommon other) target)

/-! ### (3) order sensitivity of the pinned code -/
def o2 : Dict := [("a", {}), ("b", {})]
def t0 : Dict := [("x", {})]
theorem pinned_order_sensitive :
    mergePinned [] ["a", "b"] o2 t0 ≠ mergePinned [] ["b", "a"] o2 t0 := by decide

/-! ### (1) the common-keys loop commutes, hence any iteration order of the set gives the same dict -/
theorem modify_comm (d : Dict) (k j : String) (f g : Param → Param) (h : k ≠ j) :
    modify (modify d k f) j g = modify (modify d j g) k f := by
  unfold modify
  simp only [List.map_map]
  apply List.map_congr_left
  intro kv _
  simp only [Function.comp]
  by_cases hk : kv.1 = k <;> by_cases hj : kv.1 = j
  · exact absurd (hk.symm.trans hj) h
  · simp [hk, hj, h]
  · simp [hk, hj, Ne.symm h]
  · simp [hk, hj]

theorem stepCommon_comm (other z : Dict) (x y : String) :
    stepCommon other (stepCommon other z x) y = stepCommon other (stepCommon other z y) x := by
  by_cases h : x = y
  · subst h; rfl
  · unfold stepCommon
    cases get? other x <;> cases get? other y <;> simp [modify_comm _ _ _ _ _ h]

theorem common_loop_order_irrelevant (other target : Dict) (c₁ c₂ : List String) (p : c₁.Perm c₂) :
    c₁.foldl (stepCommon other) target = c₂.foldl (stepCommon other) target :=
  List.Perm.foldl_eq' p (fun x _ y _ z => stepCommon_comm other z x y) target

/-- determinism of the fixed code: the hash seed (the order in which the `&`-set is iterated) is irrelevant -/
theorem mergeFixed_deterministic (other target : Dict) (c₁ c₂ : List String) (p : c₁.Perm c₂) :
    mergeFixed c₁ other target = mergeFixed c₂ other target := by
  unfold mergeFixed; rw [common_loop_order_irrelevant other target c₁ c₂ p]

/-! ### (2) key order of the fixed code -/
theorem keys_modify (d : Dict) (k : String) (f : Param → Param) : keys (modify d k f) = keys d := by
  unfold keys modify; simp only [List.map_map]
  apply List.map_congr_left; intro kv _; simp only [Function.comp]; split <;> rfl

theorem keys_common_loop (other target : Dict) (c : List String) :
    keys (c.foldl (stepCommon other) target) = keys target := by
  induction c generalizing target with
  | nil => rfl
  | cons k ks ih =>
    simp only [List.foldl_cons]; rw [ih]
    unfold stepCommon; cases get? other k <;> simp [keys_modify]

end Merge
#print axioms Merge.mergeFixed_deterministic
#print axioms Merge.pinned_order_sensitive
