/-! Prototype: Python-ish string functions on `List Char` + lemmas needed for a ReST param-line round trip -/
namespace Py
abbrev Str := List Char

def isPrefix : Str → Str → Bool
  | [], _ => true
  | _ :: _, [] => false
  | a :: as, b :: bs => a == b && isPrefix as bs

theorem isPrefix_append (p s : Str) : isPrefix p (p ++ s) = true := by
  induction p with
  | nil => simp [isPrefix]
  | cons a as ih => simp [isPrefix, ih]

theorem isPrefix_iff (p s : Str) : isPrefix p s = true ↔ ∃ t, s = p ++ t := by
  induction p generalizing s with
  | nil => simp [isPrefix]
  | cons a as ih =>
    cases s with
    | nil => simp [isPrefix]
    | cons b bs =>
      simp only [isPrefix, Bool.and_eq_true, beq_iff_eq, ih, List.cons_append, List.cons.injEq]
      constructor
      · rintro ⟨rfl, t, rfl⟩; exact ⟨t, rfl, rfl⟩
      · rintro ⟨t, rfl, rfl⟩; exact ⟨rfl, t, rfl⟩

/-- `str.find` : index of first occurrence (from offset `i`) -/
def findFrom (pat : Str) : Str → Nat → Option Nat
  | [], i => if pat.isEmpty then some i else none
  | c :: cs, i => if isPrefix pat (c :: cs) then some i else findFrom pat cs (i + 1)

def find (pat s : Str) : Option Nat := findFrom pat s 0

/-- no occurrence of `pat` starts inside `pre` when `pre` is followed by `pat` itself -/
def NoEarly (pat pre : Str) : Prop := ∀ k, k < pre.length → isPrefix pat (pre.drop k ++ pat) = false

theorem isPrefix_of_append_left (pat a b : Str) (h : pat.length ≤ a.length) :
    isPrefix pat (a ++ b) = isPrefix pat a := by
  induction pat generalizing a with
  | nil => simp [isPrefix]
  | cons p ps ih =>
    cases a with
    | nil => simp at h
    | cons x xs =>
      simp only [List.cons_append, isPrefix]
      rw [ih]; simpa using h

/-- a straddling match only looks at fewer than `|pat|` characters of what follows `pre` -/
theorem isPrefix_straddle (pat a post : Str) :
    isPrefix pat (a ++ pat ++ post) = isPrefix pat (a ++ pat) := by
  rw [List.append_assoc, ← List.append_assoc a pat post, List.append_assoc]
  rw [← List.append_assoc]
  exact isPrefix_of_append_left pat (a ++ pat) post (by simp)

theorem findFrom_append (pat pre post : Str) (i : Nat) (hne : pat ≠ []) (h : NoEarly pat pre) :
    findFrom pat (pre ++ pat ++ post) i = some (i + pre.length) := by
  induction pre generalizing i with
  | nil =>
    cases pat with
    | nil => exact absurd rfl hne
    | cons p ps =>
      simp only [List.nil_append, List.cons_append, findFrom]
      have := isPrefix_append (p :: ps) post
      simp only [List.cons_append] at this
      simp [this]
  | cons c cs ih =>
    have h0 := h 0 (by simp)
    simp only [List.drop_zero] at h0
    have hs := isPrefix_straddle pat (c :: cs) post
    rw [h0] at hs
    simp only [List.cons_append] at hs ⊢
    simp only [findFrom, hs]
    have h' : NoEarly pat cs := by
      intro k hk
      have := h (k + 1) (by simpa using hk)
      simpa using this
    have := ih (i + 1) h'
    simp only [List.append_assoc] at this ⊢
    rw [this]; simp; omega

end Py
#print axioms Py.findFrom_append
