import sys; sys.path.insert(0,"/root/scratch/repo_fix")
import random, copy, collections
from gen_ir import *; import ref_rest as M
import cdd.class_.parse
import cdd.docstring.emit as E, cdd.docstring.parse as P
def to_tag(d):
    if d=="```(None)```": return ("none",)
    if isinstance(d,bool): return ("bool",d)
    if isinstance(d,int): return ("int",d)
    if isinstance(d,float): return ("float",repr(d))
    if isinstance(d,str): return ("code",d) if d.startswith("```") else ("str",d)
    raise ValueError(d)
def to_model_ir(ir):
    def conv(p):
        q={k:v for k,v in p.items() if k!="default"}
        if "default" in p: q["default"]=to_tag(p["default"])
        return q
    return {"doc":ir["doc"],"params":[(n,conv(p)) for n,p in ir["params"].items()],"returns":conv(ir["returns"]["return_type"]) if ir["returns"] else None}
def real_view(ir):
    def conv(p):
        q={k:v for k,v in p.items() if k in("typ","doc") and v is not None}
        if "default" in p: q["default"]=to_tag(p["default"])
        return q
    return {"doc":ir["doc"],"params":[(n,conv(p)) for n,p in ir["params"].items()],"returns":conv(ir["returns"]["return_type"]) if ir.get("returns") else None}
r=random.Random(int(sys.argv[1])); N=int(sys.argv[2]); c=collections.Counter(); shown=0
for it in range(N):
    ir=gen_ir(r)
    for k,v in ir["params"].items():
        if "default" in v and r.random()<0.2 and isinstance(v["default"],int) and not isinstance(v["default"],bool): v["default"]=-abs(v["default"])-1
    for et in (True,False):
      for edd_e,edd_p in ((True,True),(True,False),(False,False),(False,True)):
        real_ds=E.docstring(copy.deepcopy(ir),docstring_format="rest",emit_types=et,emit_default_doc=edd_e)
        try: mod_ds=M.emit_rest(to_model_ir(copy.deepcopy(ir)),emit_types=et,edd=edd_e)
        except M.OutsideDomain as e: c[("emit-outside",str(e))]+=1; continue
        if real_ds!=mod_ds:
            c["EMIT-MISMATCH"]+=1
            if shown<3: shown+=1; print("EMIT",repr(real_ds)); print("    ",repr(mod_ds))
            continue
        c["emit-ok"]+=1
        real_ir=real_view(P.docstring(real_ds,emit_default_doc=edd_p))
        try: mod_ir=M.parse_rest(mod_ds,edd=edd_p)
        except M.OutsideDomain as e: c[("parse-outside",str(e))]+=1; continue
        if real_ir!=mod_ir:
            c["PARSE-MISMATCH"]+=1
            if shown<6: shown+=1; print("PARSE",repr(real_ds)); print("  real",real_ir); print("  mod ",mod_ir)
        else: c["parse-ok"]+=1
print(dict(c))
