namespace ImpB
inductive Ev where
  | imp (chain : List Nat)
  | frm (chain : List Nat) (names : List (Nat × Option (List Nat)))
  | bind (n : Nat)
  | use (steps : List (Nat × Nat × Option Nat))

/-- state: seen-mask (in sys.modules), names bitset (m*1024+n) -/
structure St where
  seen : Nat
  names : Nat

@[inline] def has (names m n : Nat) : Bool := Nat.testBit names (m * 1024 + n)
@[inline] def add (names m n : Nat) : Nat := names ||| (1 <<< (m * 1024 + n))

inductive Err | importError | attributeError | fuel deriving DecidableEq

def useOk (names : Nat) : List (Nat × Nat × Option Nat) → Bool
  | [] => true
  | (cur, a, nxt) :: rest =>
    if has names cur a then (match nxt with | some _ => useOk names rest | none => true) else false

mutual
def loadChain (tbl : List (List Ev)) (short : List Nat) : Nat → Nat → Nat → Option Nat → List Nat → Except Err (Nat × Nat)
  | 0, _, _, _, _ => .error .fuel
  | _, seen, names, _, [] => .ok (seen, names)
  | fuel+1, seen, names, parent, m :: rest =>
    if Nat.testBit seen m then loadChain tbl short fuel seen names (some m) rest
    else
      match runEvs tbl short fuel (seen ||| (1 <<< m)) names m (tbl.getD m []) with
      | .error e => .error e
      | .ok (seen2, names2) =>
        let names3 := match parent with | some p => add names2 p (short.getD m 0) | none => names2
        loadChain tbl short fuel seen2 names3 (some m) rest

def runEvs (tbl : List (List Ev)) (short : List Nat) : Nat → Nat → Nat → Nat → List Ev → Except Err (Nat × Nat)
  | 0, _, _, _, _ => .error .fuel
  | _, seen, names, _, [] => .ok (seen, names)
  | fuel+1, seen, names, m, ev :: evs =>
    match ev with
    | .bind n => runEvs tbl short fuel seen (add names m n) m evs
    | .imp chain =>
      match loadChain tbl short fuel seen names none chain with
      | .error e => .error e
      | .ok (s2, n2) => runEvs tbl short fuel s2 n2 m evs
    | .frm chain nms =>
      match loadChain tbl short fuel seen names none chain with
      | .error e => .error e
      | .ok (s2, n2) =>
        match fromNames tbl short fuel s2 n2 (chain.getLastD 0) nms with
        | .error e => .error e
        | .ok (s3, n3) => runEvs tbl short fuel s3 n3 m evs
    | .use steps =>
      if useOk names steps then runEvs tbl short fuel seen names m evs else .error .attributeError

def fromNames (tbl : List (List Ev)) (short : List Nat) : Nat → Nat → Nat → Nat → List (Nat × Option (List Nat)) → Except Err (Nat × Nat)
  | 0, _, _, _, _ => .error .fuel
  | _, seen, names, _, [] => .ok (seen, names)
  | fuel+1, seen, names, tgt, (n, sub) :: rest =>
    if n == 0 || has names tgt n then fromNames tbl short fuel seen names tgt rest
    else match sub with
      | none => .error .importError
      | some chain =>
        match loadChain tbl short fuel seen names none chain with
        | .error e => .error e
        | .ok (s2, n2) => fromNames tbl short fuel s2 n2 tgt rest
end

def importSeq (tbl : List (List Ev)) (short : List Nat) (fuel : Nat) : Nat → Nat → List (List Nat) → Bool
  | _, _, [] => true
  | seen, names, c :: cs => match loadChain tbl short fuel seen names none c with
    | .error _ => false
    | .ok (s2, n2) => importSeq tbl short fuel s2 n2 cs
end ImpB
