/-! Prototype (C17/C08): faithful port of cdd/docstring/utils/parse_utils.py `parse_adhoc_doc_for_typ`.
    Strings are `List Char`; Python exceptions are `Except String`. -/
namespace AdhocSafe
def isSpaceC (c : Char) : Bool :=
  let n := c.toNat
  (0x09 ≤ n && n ≤ 0x0D) || (0x1C ≤ n && n ≤ 0x20) || n == 0x85 || n == 0xA0 || n == 0x1680 ||
  (0x2000 ≤ n && n ≤ 0x200A) || n == 0x2028 || n == 0x2029 || n == 0x202F || n == 0x205F || n == 0x3000
def isAsciiDigit (c : Char) : Bool := '0' ≤ c && c ≤ '9'
def isAsciiLetter (c : Char) : Bool := ('a' ≤ c && c ≤ 'z') || ('A' ≤ c && c ≤ 'Z')
def wordChar (c : Char) : Bool := isAsciiDigit c || isAsciiLetter c || c == '`' || c == '\'' || c == '"' || c == '/' || c == '|'
def sepChar (c : Char) : Bool := c == '.' || c == ';' || c == ',' || isSpaceC c
/-- alphabet of everything `adhoc` can return: word characters (letters, digits, quotes, backtick,
    `/`, `|`), separators (`. ; ,` and whitespace) and the brackets of the fixed templates -/
def safeC (c : Char) : Bool := wordChar c || sepChar c || c == '[' || c == ']'
abbrev SC := { c : Char // safeC c = true }
abbrev Str := List SC          -- every string the model can ever build is safe BY TYPE
abbrev CStr := List Char
def v (s : Str) : CStr := s.map Subtype.val
/-- constants: unsafe characters cannot even be represented (they would be dropped, and the
    correspondence with the real code would show it) -/
def S (s : String) : Str := s.toList.filterMap (fun c => if h : safeC c = true then some ⟨c, h⟩ else none)
instance : Inhabited SC := ⟨⟨' ', by decide⟩⟩
instance : BEq SC := ⟨fun a b => a.val == b.val⟩

def isspace (s : CStr) : Bool := !s.isEmpty && s.all isSpaceC
/-- `str.isidentifier()` restricted to the ASCII alphabet these strings are made of -/
def isIdentifier (s : CStr) : Bool :=
  match s with
  | [] => false
  | c :: cs => (isAsciiLetter c || c == '_') && cs.all (fun d => isAsciiLetter d || isAsciiDigit d || d == '_')
def isdigitStr (s : CStr) : Bool := !s.isEmpty && s.all isAsciiDigit
def lowerC (c : Char) : Char := if 'A' ≤ c && c ≤ 'Z' then Char.ofNat (c.toNat + 32) else c
def lower (s : CStr) : CStr := s.map lowerC

def containsSub (l p : CStr) : Bool :=
  match l with
  | [] => p.isEmpty
  | c :: cs => p.isPrefixOf (c :: cs) || containsSub cs p
def findSub (p : CStr) : CStr → Nat → Option Nat
  | [], i => if p.isEmpty then some i else none
  | c :: cs, i => if p.isPrefixOf (c :: cs) then some i else findSub p cs (i + 1)
def rfindSub (p s : CStr) : Option Nat :=
  (List.range (s.length + 1)).reverse.find? (fun i => p.isPrefixOf (s.drop i))
def splitOn1 (sep : Char) : Str → Str → List Str
  | [], acc => [acc.reverse]
  | c :: cs, acc => if c.val == sep then acc.reverse :: splitOn1 sep cs [] else splitOn1 sep cs (c :: acc)
def joinWith (sep : Str) : List Str → Str
  | [] => []
  | [x] => x
  | x :: xs => x ++ sep ++ joinWith sep xs
def windows3 {α} : List α → List (α × α × α)
  | a :: b :: c :: rest => (a, b, c) :: windows3 (b :: c :: rest)
  | _ => []
def windows2 {α} : List α → List (α × α)
  | a :: b :: rest => (a, b) :: windows2 (b :: rest)
  | _ => []
/-- Python `l[a:b]` on lists with possibly negative `Int` bounds -/
def pySlice {α} (l : List α) (a b : Option Int) : List α :=
  let n : Int := l.length
  let cl (x : Int) : Nat := let y := if x < 0 then n + x else x; if y < 0 then 0 else if y > n then n.toNat else y.toNat
  let lo := match a with | none => 0 | some x => cl x
  let hi := match b with | none => l.length | some x => cl x
  (l.drop lo).take (hi - lo)

def lookup (tbl : List (String × String)) (k : CStr) : Option Str := (tbl.find? (fun p => p.1.toList == k)).map (fun p => S p.2)
def adhocTypeToType : List (String × String) := [("bool","bool"),("boolean","bool"),("dict","dict"),("dictionary","dict"),
  ("false","bool"),("filename","str"),("float","float"),("frequency","int"),("integer","int"),("int64","int"),
  ("`int64`castable","int"),("list","list"),("number","int"),("path","str"),("quantity","int"),("str","str"),
  ("string","str"),("true","bool"),("tuple","Tuple"),("whether","bool")]
def typeToName : List (String × String) := [("Int","int"),("int","int"),("Float","float"),("float","float"),("complex","complex"),
  ("str","str"),("String","str"),("Bool","bool"),("bool","bool"),("None","None")]
def simpleTypes : List String := ["int","float","complex","str","bool"]
def tuple3ToType : List ((String × String × String) × String) := [(("False"," ","if"),"bool"),(("False"," ","on"),"bool"),
  (("Filename"," ","of"),"str"),(("True"," ","if"),"bool"),(("True"," ","on"),"bool"),(("called"," ","at"),"collections.abc.Callable"),
  (("directory"," ","where"),"str"),(("floating"," ","point"),"float")]
def tuple3ToCollection : List ((String × String × String) × String) := [(("List"," ","of"),"List"),(("Tuple"," ","of"),"Tuple"),(("Dictionary"," ","of"),"Mapping")]
def lookup3 (tbl : List ((String × String × String) × String)) (w : Str × Str × Str) : Option Str :=
  (tbl.find? (fun p => p.1.1.toList == v w.1 && p.1.2.1.toList == v w.2.1 && p.1.2.2.toList == v w.2.2)).map (fun p => S p.2)
def firstSome {α β} (f : α → Option β) : List α → Option β
  | [] => none
  | x :: xs => match f x with | some y => some y | none => firstSome f xs
def kwlist : List String := ["False","None","True","and","as","assert","async","await","break","class","continue","def","del","elif","else",
  "except","finally","for","from","global","if","import","in","is","lambda","nonlocal","not","or","pass","raise","return","try","while","with","yield"]

/-! ### `_parse_adhoc_doc_for_typ_phase0` -/
theorem safe_of_word (c : Char) (h : (wordChar c || c == '.') = true) : safeC c = true := by
  rcases (Bool.or_eq_true _ _).mp h with h1 | h1
  · simp [safeC, h1]
  · simp [safeC, sepChar, h1]
theorem safe_of_sep (c : Char) (h : (c == '.' || c == ';' || c == ',' || isSpaceC c) = true) : safeC c = true := by
  have : sepChar c = true := h
  simp [safeC, this]

structure P0 where
  words : List Str
  cur : Str                   -- reversed
  sentenceEnds : Int := -1
  breakUnion : Bool := false

def phase0Loop (doc : Array Char) : Nat → Nat → P0 → P0
  | 0, _, st => st
  | fuel + 1, i, st =>
    if h : i < doc.size then
      let ch := doc[i]
      let nextOk := (i + 1 < doc.size) && wordChar (doc[i+1]!)
      let prevOk := (i == 1) || (let p := if i == 0 then doc[doc.size - 1]! else doc[i-1]!; p != '`')
      if hw : (wordChar ch || (ch == '.' && nextOk && prevOk)) = true then
        have hs : safeC ch = true := safe_of_word ch (by
          rcases Bool.or_eq_true _ _ |>.mp hw with h1 | h1
          · simp [h1]
          · simp only [Bool.and_eq_true] at h1; simp [h1.1.1])
        phase0Loop doc fuel (i + 1) { st with cur := ⟨ch, hs⟩ :: st.cur }
      else if hsep : (ch == '.' || ch == ';' || ch == ',' || isSpaceC ch) = true then
        let sc : SC := ⟨ch, safe_of_sep ch hsep⟩
        let words := st.words ++ [st.cur.reverse, [sc]]
        let se := if ch == '.' && st.sentenceEnds == -1 then (words.length : Int) else st.sentenceEnds
        let bu := if !(ch == '.' && st.sentenceEnds == -1) && ch == ';' then true else st.breakUnion
        phase0Loop doc fuel (i + 1) { words := words, cur := [], sentenceEnds := se, breakUnion := bu }
      else phase0Loop doc fuel (i + 1) st
    else st

def cOr : CStr := [' ', 'o', 'r', ' ']
def cOf : CStr := [' ', 'o', 'f', ' ']

def phase0 (doc : CStr) : List Str × Option Str × Str × Option Str :=
  let arr := doc.toArray
  let st := phase0Loop arr (arr.size + 1) 0 { words := [], cur := [] }
  let words := st.words ++ [st.cur.reverse]
  let cand := firstSome (fun w => lookup adhocTypeToType (v w)) words
  let lo : Int := if st.breakUnion && words.length > 2 then 2 else 0
  let fst := (pySlice words (some lo) (some st.sentenceEnds)).flatten
  if containsSub (v fst) cOr || containsSub (v fst) cOf then (words, cand, fst, some fst)
  else
    let starts := st.sentenceEnds
    let rec go (ws : List (Str × Str)) (ends : Int) : Int :=
      match ws with
      | [] => ends
      | (a, b) :: rest => if v a == ['.'] && !isIdentifier (v b) then ends + 1 else go rest (ends + 1)
    let ends := go (windows2 (pySlice words (some starts) none)) st.sentenceEnds
    let snd := (pySlice words (some starts) (some ends)).flatten
    if containsSub (v snd) cOr || containsSub (v snd) cOf then (words, cand, fst, some snd)
    else (words, cand, fst, none)

/-! ### `_parse_adhoc_doc_for_typ_phase1` -/
def pySplitWs (s : Str) : List Str :=
  let rec go : Str → Str → List Str
    | [], acc => if acc.isEmpty then [] else [acc.reverse]
    | c :: cs, acc => if isSpaceC c.val then (if acc.isEmpty then go cs [] else acc.reverse :: go cs []) else go cs (c :: acc)
  go s []

def phase1 (sentence : Str) (words : List Str) : Str × Option Str :=
  let sentence := match rfindSub ", default".toList (v sentence) with | some i => sentence.take i | none => sentence
  if ((v sentence).count '`') % 2 == 0 then
    let fstTick := findSub ['`'] (v sentence) 0
    let pre := match fstTick with | some i => sentence.take i | none => sentence
    let coll := match firstSome (lookup3 tuple3ToCollection) (windows3 (pySplitWs pre)) with
      | some c => some c
      | none => firstSome (lookup3 tuple3ToCollection) (windows3 words)
    let sentence := match fstTick with
      | some i => (match rfindSub ['`'] (v sentence) with | some j => (sentence.take j).drop i | none => sentence)
      | none => sentence
    (sentence, coll)
  else (sentence, none)

/-! ### `_union_literal_from_sentence_phase0` -/
inductive U | str (s : Str) | lst (l : Str)

structure UL where
  caller : List U
  loc : List U
  aliased : Bool := true
  q1 : Nat := 0
  q2 : Nat := 0

def UL.cur (st : UL) : List U := if st.aliased then st.caller else st.loc
def UL.put (st : UL) (l : List U) : UL := if st.aliased then { st with caller := l } else { st with loc := l }
def setLast (l : List U) (u : U) : List U := l.dropLast ++ [u]
def isOrWord (w : CStr) : Bool := w == "or".toList || w == "or,".toList || w == "or;".toList || w == "or:".toList
def isOfWord (w : CStr) : Bool := w == "of".toList || w == "of,".toList || w == "of;".toList || w == "of:".toList

def unionLoop (sent : Array SC) : Nat → Nat → UL → Except String UL
  | 0, _, st => .ok st
  | fuel + 1, i, st =>
    if h : i < sent.size then do
      let sc := sent[i]
      let ch := sc.val
      let sp := isSpaceC ch
      let mut st := st
      let mut i := i
      if !sp && ch != '`' then
        match st.cur.getLast? with
        | some (.lst l) => st := st.put (setLast st.cur (.lst (l ++ [sc])))
        | _ => throw "AttributeError"
      else if sp then
        match st.cur.getLast? with
        | some (.lst l) =>
          match l.getLast?, l.head? with
          | some lastc, some first =>
            let strip := (lastc.val == ',' || lastc.val == ';') && (isAsciiDigit first.val || first.val == '\'' || first.val == '"' || first.val == '`' || isIdentifier [first.val])
            let w := if strip then l.dropLast else l
            st := st.put (setLast st.cur (.str w))
            if isOrWord (v w) then
              st := st.put (setLast st.cur (.lst []))
            else if isOfWord (v w) then
              let asStrs := st.cur.map (fun u => match u with | .str s => s | .lst l => l)
              let coll := match asStrs with
                | [a, b, c] => lookup3 tuple3ToCollection (a, b, c)
                | _ => none
              match coll with
              | none => st := st.put (setLast st.cur (.lst []))
              | some _ => st := { st with aliased := false, loc := [] }
            else st := st.put (st.cur ++ [.lst []])
          | _, _ => pure ()
        | some (.str _) => throw "TypeError"
        | none => pure ()
        let j := i
        let run := ((sent.toList.drop i).takeWhile (fun c => isSpaceC c.val)).length
        i := i + run - 1
        let ws : List U := ((sent.toList.drop j).take (i + 1 - j)).map (fun c => U.str [c])
        let cur := st.cur
        st := st.put ((if cur.isEmpty then [] else cur.dropLast) ++ ws ++ [.lst []])
      if ch == '\'' || ch == '"' then
        let prevBs := i != 0 && (sent[i-1]!).val == '\\'
        if !prevBs then st := if ch == '\'' then { st with q1 := st.q1 + 1 } else { st with q2 := st.q2 + 1 }
        if i + 2 < sent.size && (st.q1 + st.q2) % 2 == 0 && (sent[i+1]!).val == ',' then i := i + 1
      unionLoop sent fuel (i + 1) st
    else .ok st

def trimLast (l : Str) : Str :=
  match l.getLast? with
  | some lc => if lc.val == '.' || lc.val == ',' then l.dropLast else l
  | none => l

def unionPhase0 (sentence : Str) : Except String (List U) := do
  let arr := sentence.toArray
  let st ← unionLoop arr (arr.size + 1) 0 { caller := [.lst []], loc := [] }
  let cur := st.cur
  let cur' ← match cur.getLast? with
    | some (.lst l) => pure (if l.isEmpty then cur.dropLast else setLast cur (.str (trimLast l)))
    | some (.str s) => pure (if s.isEmpty then cur.dropLast else setLast cur (.str (trimLast s)))
    | none => throw "IndexError"
  return if st.aliased then cur' else st.caller

/-! ### `_union_literal_from_sentence` -/
def unionLiteral (sentence : Str) : Except String (Option Str) := do
  let us ← unionPhase0 sentence
  let strs ← us.mapM (fun u => match u with | .str s => pure s | .lst _ => throw "TypeError")
  if strs.length > 1 then
    match firstSome (lookup3 tuple3ToType) (windows3 strs) with
    | some t => return some t
    | none => if (firstSome (lookup3 tuple3ToCollection) (windows3 strs)).isSome then return none
  let mapped := (strs.filter (fun s => !isspace (v s))).map (fun k => (lookup adhocTypeToType (lower (v k))).getD k)
  let union := mapped.foldl (fun acc x => if acc.any (fun y => v y == v x) then acc else acc ++ [x]) []
  let bad := union.any (fun e => (lookup typeToName (v e)).isNone &&
      (kwlist.any (fun k => k.toList == v e) || isdigitStr (v e) || ((v e).count '\'' % 2 == 1) || ((v e).count '"' % 2 == 1)))
  if bad then return none
  let valid (c : Char) : Bool := isAsciiDigit c || c == '\'' || c == '"' || c == '`'
  let rec countLits : List Str → Except String Nat
    | [] => pure 0
    | [] :: _ => throw "IndexError"
    | (c :: _) :: rest => if valid c.val then (do let k ← countLits rest; pure (k + 1)) else pure 0
  let literals ← match union with
    | (c :: _) :: _ => if valid c.val then countLits union else pure 0
    | _ => pure 0
  let (union, optional) := match union.findIdx? (fun u => v u == "None".toList) with
    | some i => (union.eraseIdx i, true)
    | none => (union, false)
  let union := union.map (fun t => (lookup typeToName (v t)).getD t)
  let wrap (s : Str) : Str := if optional then S "Optional[" ++ s ++ S "]" else s
  let comma := S ", "
  if literals > 0 && union.length > literals then
    return some (wrap (S "Union[" ++ (S "Literal[" ++ joinWith comma (union.take literals) ++ S "]") ++ comma ++ joinWith comma (union.drop literals) ++ S "]"))
  else if literals > 0 then
    return some (wrap (S "Literal[" ++ joinWith comma (union.take literals) ++ S "]"))
  else match union with
    | [] => return none
    | [x] => return some (wrap x)
    | _ => return some (wrap (S "Union[" ++ joinWith comma union ++ S "]"))

/-! ### `parse_adhoc_doc_for_typ` -/
def rstripDots (s : CStr) : CStr := (s.reverse.dropWhile (· == '.')).reverse

/-- The result type says it all: whatever this function returns is a `List SC`, i.e. every
    character satisfies `safeC` — no parenthesis, underscore, colon or `=` can reach `eval`. -/
def adhoc (doc : CStr) (defaultIsNone : Bool) : Except String (Option Str) := do
  if doc.isEmpty then return none
  let wrapOpt (s : Str) : Str := if defaultIsNone then S "Optional[" ++ s ++ S "]" else s
  let (words, cand0, fst, sentence?) := phase0 doc
  let mut cand := cand0
  if let some sentence := sentence? then
    let (sentence, coll) := phase1 sentence words
    let mut wrapHead : Option Str := coll
    let mut unionWith : Option Str := none
    match ← unionLiteral sentence with
    | some nct =>
      if "Literal[".toList.isPrefixOf (v nct) && (match cand with | some c => simpleTypes.any (fun t => t.toList == v c) | none => false) then
        unionWith := cand; wrapHead := none
      cand := if (wrapHead.map v) == some "Mapping".toList && unionWith.isNone then some ((nct.drop 6).dropLast) else some nct
    | none => pure ()
    if let some c := cand then
      match unionWith, wrapHead with
      | some t, _ => return some (S "Union[" ++ c ++ S ", " ++ t ++ S "]")
      | none, some h => return some (h ++ S "[" ++ c ++ S "]")
      | none, none => return some c
  match lookup typeToName (rstripDots (v fst)) with
  | some w => return some w
  | none => pure ()
  if let some c := cand then return some c
  if words.length > 2 then
    let w2 := words[2]!
    if (v w2).contains '/' then
      let parts := splitOn1 '/' w2 []
      let ded := parts.foldl (fun acc x => if acc.any (fun y => v y == v x) then acc else acc ++ [x]) []
      return some (S "Union[" ++ joinWith (S ",") ded ++ S "]")
    match firstSome (lookup3 tuple3ToType) (windows3 words) with
    | some t => return some (wrapOpt t)
    | none => return none
  return none

/-- `eval_arg_safe`, by construction -/
theorem eval_arg_safe (doc : CStr) (b : Bool) (t : Str) (_h : adhoc doc b = .ok (some t)) :
    ∀ c ∈ v t, safeC c = true := by
  intro c hc
  simp only [v, List.mem_map] at hc
  obtain ⟨sc, _, rfl⟩ := hc
  exact sc.property

/-- and the safe alphabet has no call syntax, no underscore, no colon, no `=` -/
theorem safe_excludes : safeC '(' = false ∧ safeC ')' = false ∧ safeC '_' = false ∧ safeC ':' = false ∧ safeC '=' = false := by decide
end AdhocSafe
#print axioms AdhocSafe.eval_arg_safe
