import PyStr
/-! Prototype faithful model of cdd/shared/cst_utils.py: cst_scanner, cst_scan, cst_parser -/
namespace Cst
open Py

def tq1 : Str := "'''".toList
def tq2 : Str := "\"\"\"".toList

def isTripleQuoted (s : Str) : Bool :=
  s.length > 5 && ((startsWith s tq1 && endsWith s tq1) || (startsWith s tq2 && endsWith s tq2))

/-- `balanced_parentheses` -/
structure BP where
  o1 : Nat := 0  -- (
  o2 : Nat := 0  -- [
  o3 : Nat := 0  -- {
  c1 : Nat := 0
  c2 : Nat := 0
  c3 : Nat := 0
  quote : Option Char := none

def bpStep (st : BP) (prev : Option Char) (ch : Char) : BP :=
  match st.quote with
  | some q =>
    if ch == q && (prev != some '\\') then { st with quote := none } else st
  | none =>
    if ch == '\'' || ch == '"' then { st with quote := some ch }
    else if ch == '(' then { st with o1 := st.o1 + 1 }
    else if ch == '[' then { st with o2 := st.o2 + 1 }
    else if ch == '{' then { st with o3 := st.o3 + 1 }
    else if ch == ')' then { st with c1 := st.c1 + 1 }
    else if ch == ']' then { st with c2 := st.c2 + 1 }
    else if ch == '}' then { st with c3 := st.c3 + 1 }
    else st

def bpLoop : BP → Option Char → Str → BP
  | st, _, [] => st
  | st, prev, c :: cs => bpLoop (bpStep st prev c) (some c) cs

def balanced (s : Str) : Bool :=
  let st := bpLoop {} none s
  st.o1 == st.c1 && st.o2 == st.c2 && st.o3 == st.c3

/-- words = tuple(filter(None, map(str.strip, stripped.split(" ")))) -/
def wordsOf (stripped : Str) : List Str := ((split1 stripped ' ').map strip).filter (fun w => !w.isEmpty)

def sDef : Str := "def".toList
def sClass : Str := "class".toList

/-- inner-loop decision of `cst_scan`: should `add_and_clear` fire for this expression prefix? -/
def innerCut (expr : Str) : Bool :=
  let st := strip expr
  if isTripleQuoted st || (startsWith st ['#'] && endsWith expr ['\n']) then true
  else if balanced st then
    if endsWith expr ['\n'] && !endsWith st ['\\']
        && (!endsWith st [':'] || (!contains st sClass && !contains st sDef))
        && !isspace expr && !startsWith st ['@'] then true
    else
      let ws := wordsOf st
      if ws.contains sDef || ws.contains sClass then
        (match ws.getLast? with | some w => endsWith w [':'] | none => false) && balanced st
      else false
  else false

def innerLoop : Str → Str → List Str → List Str
  | [], expr, acc => if expr.isEmpty then acc.reverse else (expr.reverse :: acc).reverse
  | c :: cs, expr, acc =>
    let expr' := c :: expr   -- reversed accumulator
    if innerCut expr'.reverse then innerLoop cs [] (expr'.reverse :: acc) else innerLoop cs expr' acc

/-- `cst_scan`: (chunks appended, new stack) -/
def scan (stack : Str) : List Str × Str :=
  let st := strip stack
  let isComment := startsWith st ['#']
  let (hasTQ, isOther) :=
    if endsWith st ['\\'] then (false, false)
    else (isTripleQuoted st,
          !st.isEmpty && balanced st && (!startsWith st ['@'] || endsWith st [':'])
            && !startsWith st tq1 && !startsWith st tq2)
  if isComment || hasTQ || isOther then
    if isComment then ([stack], [])
    else if isOther then (innerLoop stack [] [], [])
    else ([stack], [])
  else ([], stack)

def scannerLoop : Str → List Str → Str → List Str × Str
  | [], scanned, stack => (scanned, stack.reverse)
  | c :: cs, scanned, stack =>
    if c == '\n' then
      let r := scan stack.reverse
      scannerLoop cs (scanned ++ r.1) (c :: r.2.reverse)
    else scannerLoop cs scanned (c :: stack)

def scanner (src : Str) : List Str :=
  let (scanned, stack) := scannerLoop src [] []
  let r := scan stack
  let scanned := scanned ++ r.1
  if r.2.isEmpty then scanned else scanned ++ [r.2]
end Cst
