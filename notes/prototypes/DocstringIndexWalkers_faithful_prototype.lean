/-! Prototype (C11/C15): faithful port of the index walkers of cdd/shared/docstring_utils.py.
    Python ints are `Int`, `None` is `Option`, IndexError is `Except`.  While loops carry fuel
    (`size + 2`); the framework version replaces fuel by `termination_by` measures. -/
namespace Walk
abbrev S := Array Char

def isSpaceC (c : Char) : Bool :=
  let n := c.toNat
  (0x09 ≤ n && n ≤ 0x0D) || (0x1C ≤ n && n ≤ 0x20) || n == 0x85 || n == 0xA0 || n == 0x1680 ||
  (0x2000 ≤ n && n ≤ 0x200A) || n == 0x2028 || n == 0x2029 || n == 0x202F || n == 0x205F || n == 0x3000

def n (s : S) : Int := s.size

/-- Python `s[i]` -/
def at? (s : S) (i : Int) : Except String Char :=
  let len := n s
  let j := if i < 0 then len + i else i
  if 0 ≤ j ∧ j < len then (match s[j.toNat]? with | some c => .ok c | none => .error "IndexError") else .error "IndexError"

def clamp (s : S) (x : Int) : Nat :=
  let len := n s
  let y := if x < 0 then len + x else x
  if y < 0 then 0 else if y > len then len.toNat else y.toNat

/-- Python `s[a:b]` -/
def slice (s : S) (a b : Option Int) : List Char :=
  let lo := match a with | none => 0 | some x => clamp s x
  let hi := match b with | none => s.size | some x => clamp s x
  if lo ≥ hi then [] else (s.extract lo hi).toList

def leadingWs (l : List Char) : Nat := (l.takeWhile isSpaceC).length
def isspace (l : List Char) : Bool := !l.isEmpty && l.all isSpaceC
def lstrip (l : List Char) : List Char := l.dropWhile isSpaceC

def restTokens : List String := [":param", ":cvar", ":ivar", ":var", ":type", ":raises", ":return", ":rtype"]
def googleTokens : List String := ["Args:", "Kwargs:", "Raises:", "Returns:"]
def numpyFull : List String := ["Parameters\n----------", "Returns\n-------"]
def numpySet : List String := ["Parameters", "Returns"]
def tokensSet : List String := restTokens ++ googleTokens ++ numpySet

def inSet (set : List String) (l : List Char) : Bool := set.any (fun t => t.toList == l)
def startsWithAny (set : List String) (l : List Char) : Bool := set.any (fun t => t.toList.isPrefixOf l)
def containsSub (l p : List Char) : Bool :=
  match l with
  | [] => p.isEmpty
  | c :: cs => p.isPrefixOf (c :: cs) || containsSub cs p
def allDashes (l : List Char) : Bool := l.all (· == '-')     -- count("-") == len

/-- `str.find("\n", i)` → index or -1 -/
def findNl (s : S) (i : Nat) : Int :=
  match (List.range (s.size - i)).find? (fun k => s[i + k]? == some '\n') with
  | some k => (i + k : Nat)
  | none => -1

inductive Style | rest | google | numpydoc deriving DecidableEq
def deriveFormat (s : S) : Style :=
  let l := s.toList
  if restTokens.any (fun t => containsSub l t.toList) then .rest
  else if googleTokens.any (fun t => containsSub l t.toList) then .google
  else .numpydoc

/-- `_get_token_start_idx` -/
def tokenStartIdx (s : S) : Int := Id.run do
  let mut stack : Array Char := #[]
  for idx in [0:s.size] do
    let ch := s[idx]!
    if ch == '\n' then
      let st := stack.toList
      let ind := leadingWs st
      let line := st.drop ind
      if inSet numpySet line then
        let i := ind + idx + 1
        let nl := findNl s i
        let nextLine := slice s (some (i : Int)) (some nl)
        if allDashes nextLine then return (idx : Int) - stack.size
      else if startsWithAny tokensSet line then return (idx : Int) - stack.size
      stack := #[]
    else stack := stack.push ch
  return -1

/-- `_last_doc_str_token` -/
def lastDocStrToken (s : S) : Option Int := Id.run do
  let mut lastFound : Option Int := none
  let mut pen : Array Char := #[]
  let mut stack : Array Char := #[]
  for i in [0:s.size] do
    let ch := s[i]!
    if isSpaceC ch then
      if !stack.isEmpty then
        if allDashes stack.toList then
          if inSet numpySet pen.toList then lastFound := some ((i : Int) - stack.size + pen.size)
        else if inSet tokensSet stack.toList then lastFound := some ((i : Int) - stack.size)
        pen := stack
        stack := #[]
    else stack := stack.push ch
  return lastFound

/-- `for v in range(hi, 0, -1): if s[v] == "\n": v += 1; break` → final value of the loop variable (None if empty) -/
def scanBackNl (s : S) (hi : Int) : Except String (Option Int) := do
  let mut v : Option Int := none
  let mut k := hi
  let mut fuel := s.size + 2
  while k > 0 && fuel > 0 do
    fuel := fuel - 1
    v := some k
    if (← at? s k) == '\n' then
      return some (k + 1)
    k := k - 1
  return v

def startOfLastFound (s : S) (lastFound : Int) : Except String (Option Int) := scanBackNl s (lastFound - 1)

/-- `_get_end_of_last_found_numpydoc` -/
def endOfLastFoundNumpydoc (s : S) (lastFound lastFoundStarts : Int) : Except String (Option Int) := do
  let countdownFrom := lastFoundStarts - 1
  let nls ← scanBackNl s (countdownFrom - 1)
  if inSet numpySet (slice s nls (some countdownFrom)) then
    let mut lastTok : Option Int := none
    let mut stack : Array Char := #[]
    for idx in [lastFound.toNat:s.size] do
      let c := s[idx]!
      if c == '\n' then
        if stack.any (· == ':') then lastTok := some idx
        stack := #[]
      else stack := stack.push c
    match lastTok with
    | none => return none
    | some lta =>
      let mut res := lta
      let mut i := lta
      let mut fuel := s.size + 2
      while i > 0 && fuel > 0 do
        fuel := fuel - 1
        if (← at? s i) == '\n' then
          res := i + 1
          break
        i := i - 1
      return some res
  else return none

/-- `_get_end_of_last_found` -/
def endOfLastFound (s : S) (lastFound : Int) (lastFoundStarts : Option Int) (fmt : Style) : Except String (Option Int) := do
  -- for e in range(last_found, len): if s[e] == "\n": break
  let mut e : Option Int := none
  for k in [lastFound.toNat:s.size] do
    e := some k
    if s[k]! == '\n' then break
  let ends ← match e with | some v => pure (v + 1) | none => throw "TypeError"
  let seg := slice s lastFoundStarts (some lastFound)
  if fmt == .numpydoc && allDashes seg then
    endOfLastFoundNumpydoc s lastFound (lastFoundStarts.getD 0)
  else return some ends

/-- `_find_end_of_args_returns` -/
def findEndOfArgsReturns (s : S) (lastFoundEnds : Option Int) : Int :=
  let smallest := leadingWs (slice s lastFoundEnds none)
  match lastFoundEnds with
  | some e => if smallest == 0 then e - 1 else n s - 1
  | none => n s - 1

def countUntilNl (l : List Char) : Nat := (l.takeWhile (· != '\n')).length

/-- `_get_token_last_idx_if_no_next_token` -/
def lastIdxIfNoNextToken (s : S) (lfs : Int) : Except String (Option Int) := do
  let nextNl : Int := lfs + countUntilNl (slice s (some lfs) none)
  let nextLine := slice s (some lfs) (some nextNl)
  if !nextLine.isEmpty && allDashes nextLine then
    let mut lineStart : Int := nextNl + 1
    let mut lineEnd : Int := nextNl + 1
    let mut lineNo : Int := 0
    let mut prevNo : Option Int := none
    let mut prevIndent : Nat := 0
    let mut prevEnd : Int := lineEnd
    let mut fuel := s.size + 2
    while lineEnd < n s && fuel > 0 do
      fuel := fuel - 1
      lineEnd := lineEnd + countUntilNl (slice s (some lineStart) none)
      let line := slice s (some lineStart) (some lineEnd)
      lineNo := lineNo + 1
      if isspace line then pure ()
      else if some (lineNo - 2) == prevNo then
        let sw := leadingWs line
        if sw ≥ prevIndent then
          prevNo := some lineNo; prevIndent := sw; prevEnd := lineEnd
      else if line.contains ':' then
        prevNo := some lineNo; prevIndent := leadingWs line; prevEnd := lineEnd
      lineStart := lineEnd
      lineEnd := lineEnd + 1
    return some (prevEnd + 1)
  if lstrip (slice s (some lfs) (some nextNl)) == "Raises:".toList then return some (lfs - 1)
  return none

/-- `_get_token_last_idx` -/
def tokenLastIdx (s : S) : Except String Int := do
  match lastDocStrToken s with
  | none => return -1
  | some lastFound =>
    let fmt := deriveFormat s
    let lfs ← startOfLastFound s lastFound
    let lfe ← endOfLastFound s lastFound lfs fmt
    let mut idx := findEndOfArgsReturns s lfe
    let mut fuel := 2 * s.size + 4
    while fuel > 0 do
      fuel := fuel - 1
      if idx == 0 then break
      if (← at? s idx) == '\n' then break
      idx := idx - 1
    let ind := leadingWs (slice s (some (idx + 1)) none)
    let started : Int := ind + idx + 1
    let mut i := started
    if startsWithAny tokensSet (slice s (some i) none) then
      i := i + 1
      let mut fuel2 := s.size + 2
      while i < n s && fuel2 > 0 do
        fuel2 := fuel2 - 1
        if (← at? s i) == '\n' then break
        i := i + 1
    if started == i then
      match ← lastIdxIfNoNextToken s (lfs.getD 0) with
      | some r => return r
      | none => pure ()
    return i

end Walk
