/-! Prototype (C11): the leading-blank-line skip loop of `cdd.docstring.emit.docstring`,
    (a) as pinned — the loop state never changes: no fuel suffices on "  \nfoo";
    (b) as fixed — terminates (measure `size - prev`), with a linear iteration bound. -/
namespace Skip
abbrev S := List Char
def isSpaceC (c : Char) : Bool := c == ' ' || c == '\t' || c == '\n' || c == '\r'   -- ASCII subset for the prototype
/-- `s[a:b].isspace()` -/
def isspaceRange (s : S) (a b : Nat) : Bool := a < b && ((s.drop a).take (b - a)).all isSpaceC && b ≤ s.length

/-- `s.find("\n", i)` : structural on the suffix -/
def findNlFrom : S → Nat → Option Nat
  | [], _ => none
  | c :: cs, i => if c == '\n' then some i else findNlFrom cs (i + 1)
def findNl (s : S) (i : Nat) : Option Nat := findNlFrom (s.drop i) i

theorem findNlFrom_spec (l : S) (i j : Nat) (h : findNlFrom l i = some j) : i ≤ j ∧ j < i + l.length := by
  induction l generalizing i with
  | nil => simp [findNlFrom] at h
  | cons c cs ih =>
    simp only [findNlFrom] at h
    split at h
    · simp only [Option.some.injEq] at h; subst h; simp
    · have := ih (i + 1) h; simp only [List.length_cons]; omega

theorem findNl_spec (s : S) (i j : Nat) (h : findNl s i = some j) : i ≤ j ∧ j < s.length := by
  have := findNlFrom_spec (s.drop i) i j h
  simp only [List.length_drop] at this; omega

/-- (a) pinned loop with fuel: `next_nl` is never updated -/
def pinnedGo (s : S) (next : Nat) : Nat → Option (Nat × Nat)
  | 0 => none
  | f + 1 => if !isspaceRange s 0 next then some (0, next) else pinnedGo s next f
def pinned (s : S) (fuel : Nat) : Option (Nat × Nat) :=
  match findNl s 0 with
  | none => some (0, 0)
  | some next => pinnedGo s next fuel

def witness : S := [' ', ' ', '\n', 'f', 'o', 'o']
theorem pinned_never_returns (fuel : Nat) : pinned witness fuel = none := by
  have h : findNl witness 0 = some 2 := by decide
  have hs : isspaceRange witness 0 2 = true := by decide
  unfold pinned; simp only [h]
  induction fuel with
  | zero => rfl
  | succ f ih => simp only [pinnedGo, hs, Bool.not_true, Bool.false_eq_true, if_false]; exact ih

/-- (b) fixed loop: returns ((prev, next?), iterations) -/
def fixed (s : S) (prev : Nat) (iters : Nat) : (Nat × Option Nat) × Nat :=
  match h : findNl s prev with
  | none => ((prev, none), iters)
  | some next =>
    if !isspaceRange s prev next then ((prev, some next), iters + 1)
    else fixed s (next + 1) (iters + 1)
termination_by s.length - prev
decreasing_by
  have := findNl_spec s prev next h
  omega

theorem fixed_iters_le (s : S) (prev it : Nat) : (fixed s prev it).2 ≤ it + (s.length - prev) + 1 := by
  induction hk : s.length - prev using Nat.strongRecOn generalizing prev it with
  | _ k ih =>
    unfold fixed
    split
    · simp only; omega
    · rename_i next hn
      have hs := findNl_spec s prev next hn
      split
      · simp only; omega
      · have := ih (s.length - (next + 1)) (by omega) (next + 1) (it + 1) rfl
        omega

/-- the fix is conservative: when the first line is not whitespace-only both loops stop at once with the same state -/
theorem fix_conservative (s : S) (next : Nat) (h : findNl s 0 = some next) (hns : isspaceRange s 0 next = false) (fuel : Nat) :
    pinned s (fuel + 1) = some (0, next) ∧ (fixed s 0 0).1 = (0, some next) := by
  constructor
  · unfold pinned; simp only [h, pinnedGo, hns, Bool.not_false, if_true]
  · unfold fixed
    split
    · rename_i hn; rw [h] at hn; cases hn
    · rename_i n hn; rw [h] at hn; cases hn
      simp only [hns, Bool.not_false, if_true]
end Skip
#print axioms Skip.pinned_never_returns
#print axioms Skip.fixed_iters_le
#print axioms Skip.fix_conservative
