import random, copy
from collections import OrderedDict
NAMES=["a","b","foo","bar_baz","x1","dataset_name","K","as_numpy","lr","epochs","alpha","beta","n_items","path_to","verbose_flag"]
SCALARS=["int","float","str","bool"]
DOCS=["the alpha thing","dataset name","learning rate used","a thing","some text here","flag for verbosity","batch count here","Random seed"]
def gen_typ(r, depth=0):
    k=r.random()
    if k<0.5: return r.choice(SCALARS)
    if k<0.65: return "Optional[%s]"%r.choice(SCALARS)
    if k<0.8:
        n=r.randint(2,3); ms=r.sample(["alpha","beta","gamma","delta","eps"],n)
        return "Literal[%s]"%", ".join("'%s'"%m for m in ms)
    if k<0.9: return "List[%s]"%r.choice(SCALARS)
    if k<0.95: return "Union[%s, %s]"%tuple(r.sample(SCALARS,2))
    return r.choice(["np.ndarray","tf.data.Dataset","collections.OrderedDict"])
def gen_default(r, typ):
    base=typ
    if typ.startswith("Optional["):
        if r.random()<0.5: return "```(None)```"
        base=typ[9:-1]
    if base=="int": return r.choice([0,1,5,-3,42,100])
    if base=="float": return r.choice([0.5,1.0,-2.5,0.001,3.14])
    if base=="str": return r.choice(["mnist","foo","bar baz","a_b","~/data"])
    if base=="bool": return r.choice([True,False])
    if base.startswith("Literal["):
        import ast
        return ast.literal_eval(base[8:-1].split(",")[0].strip())
    return None
def gen_ir(r, nparams=None, suffix_defaults=True, with_return=None, with_doc=True, p_default=0.5):
    n = r.randint(0,5) if nparams is None else nparams
    names=r.sample(NAMES,n)
    params=OrderedDict()
    first_default = r.randint(0,n) if suffix_defaults else None
    for i,nm in enumerate(names):
        typ=gen_typ(r)
        p={"typ":typ}
        if with_doc: p["doc"]=r.choice(DOCS)
        has_def = (i>=first_default) if suffix_defaults else (r.random()<p_default)
        if has_def:
            d=gen_default(r,typ)
            if d is not None: p["default"]=d
            elif suffix_defaults: 
                p["typ"]="int"; p["default"]=7
        params[nm]=p
    ret=None
    if with_return is None: with_return = r.random()<0.5
    if with_return:
        rt={"typ":gen_typ(r)}
        if with_doc: rt["doc"]=r.choice(DOCS)
        ret=OrderedDict((("return_type",rt),))
    return {"name":"F","doc":r.choice(["","Summary line.","Summary line.\n\nLonger description here."]),"params":params,"returns":ret,"type":"static"}
