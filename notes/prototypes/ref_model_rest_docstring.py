"""Reference (Tier-B) model of ReST docstring emit/parse, written in the shape the Lean model will take.
Pure functions over: ir = {doc:str, params:[(name,{typ?,doc?,default?})], returns:{...}|None}
Defaults are tagged values: ("int",i) ("float",repr) ("bool",b) ("str",s) ("none",) ("code",src)
Only ASCII; domain D01 (see DESIGN.md). Anything outside -> raise OutsideDomain."""
NONE_STR="```(None)```"
class OutsideDomain(Exception): pass
SIMPLE={"int","float","complex","str","bool"}
ANNOUNCE=["defaults to ","defaults to\n","Default value is ","Default:","defaults\n to ","defaults\n to\n","Default value\n is ","Defaults\n            to"]
# ---------- value rendering (what `"{}".format(default)` gives in Python)
def render_val(v):
    k=v[0]
    if k=="int": return str(v[1])
    if k=="float": return v[1]
    if k=="bool": return "True" if v[1] else "False"
    if k=="str": return v[1]
    if k=="none": return NONE_STR
    if k=="code": return v[1]
def needs_quoting(typ):   # structural on type strings of the Typ grammar
    if typ is None: return False
    if typ in ("str","Optional[str]"): return True
    import re
    # any Name `str` or string constant inside the type expression
    return bool(re.search(r"(?<![A-Za-z0-9_.])str(?![A-Za-z0-9_])",typ)) or ("'" in typ or '"' in typ)
def quote(s):
    if len(s)==0 or (len(s)>1 and s[0]==s[-1] and s[0] in "'\""): return s
    return '"%s"'%s
def unquote(s):
    if len(s)>1 and (s[0]=='"'==s[-1] or s[0]=="'"==s[-1]): return s[1:-1]
    return s
# ---------- emit
def set_default_doc(name,p,edd):
    doc=p.get("doc")
    if doc is None: return doc
    has_defaults="Defaults" in doc or "defaults" in doc
    if has_defaults and not edd: raise OutsideDomain("doc mentions defaults")
    if "default" in p and not has_defaults and edd:
        v=p["default"]
        if v[0]=="str":
            s=v[1]
            d = quote(s) if (needs_quoting(p.get("typ")) and (len(s)<2 or not s.startswith("`") or not s.endswith("`"))) else s
        elif v[0] in ("none","code"):
            s=render_val(v)
            d = quote(s) if (needs_quoting(p.get("typ")) and (len(s)<2 or not s.startswith("`") or not s.endswith("`"))) else s
        else: d=render_val(v)
        doc="%s Defaults to %s"%(doc if doc[-1] in ".," else doc+".", d)
    return doc
def emit_param_rest(name,p,emit_type,edd,is_ret=False):
    key,key_typ=("return","rtype") if is_ret else ("param "+name,"type "+name)
    lines=[]
    if p.get("doc"): lines.append(":%s: %s"%(key,set_default_doc(name,p,edd).lstrip()))
    if emit_type and p.get("typ"): lines.append(":%s: ```%s```"%(key_typ,p["typ"]))
    for l in lines:
        if len(l)>=100 or "\n" in l: raise OutsideDomain("needs fill")
    return "\n".join(lines)
def num_nls_end(s):
    n=0
    for ch in reversed(s[1:]):      # range(len-1, 0, -1): index 0 is never inspected
        if ch=="\n": n+=1
        elif not ch.isspace(): break
    return n
def num_nls_start(s):
    n=0
    for ch in s:
        if ch=="\n": n+=1
        elif not ch.isspace(): break
    return n
def header_args_footer_to_str(header,args_returns):
    header_end_nls=num_nls_end(header) if header else 0
    if args_returns:
        st=num_nls_start(args_returns); en=num_nls_end(args_returns)
        args_returns=("\n"*(st or 2) if st<2 and header and not header_end_nls else "")+args_returns+("\n" if not en else "")
        st=num_nls_start(args_returns)
        # indent matching: header indent must equal args indent, else outside domain (indent 0 only here)
        lead=len(header)-len(header.lstrip()) if header else 0
        if header and (lead-header[:lead].count("\n"))!=0: raise OutsideDomain("indented header")
        if args_returns[0].isspace() and args_returns.lstrip("\n")[:1].isspace(): raise OutsideDomain("indented args")
    else: st=0
    after=header_end_nls+st
    need=0 if (after>1 or not header or not args_returns) else (1 if after==1 else 2)
    return header+"\n"*need+args_returns
def emit_rest(ir,emit_types=True,edd=True):
    blocks=[emit_param_rest(n,p,emit_types,edd) for n,p in ir["params"]]
    params="\n\n".join(blocks)
    returns=""
    if ir.get("returns") is not None:
        line=emit_param_rest("return_type",ir["returns"],emit_types,edd,is_ret=True)
        if line: returns=("" if not params or params[-1]=="\n" else "\n")+line
    pe=num_nls_end(params); re_=num_nls_end(returns)
    cand=params+("\n" if pe<2 and returns else "")+returns+("\n" if (not returns and pe>0) or (returns and re_==0) else "")
    out=header_args_footer_to_str(ir["doc"], "" if cand.isspace() else cand)
    if not out or out.isspace(): return ""
    if "\n" not in out: return out if out[0]=="\n" else "\n"+out
    first=out[:out.find("\n")]
    if first.isspace(): raise OutsideDomain("whitespace-only first line")
    return out
# ---------- parse
def find_ci(line,pat):
    l=line.casefold(); p=pat.casefold()
    return l.find(p)
def parse_default_text(default,typ):
    """_parse_out_default_and_doc's value cascade; returns tagged value"""
    if typ is not None and typ in SIMPLE and default not in ("None",NONE_STR):
        if typ!="str" and any(c in default for c in "*^&|$@!"): return ("code","```%s```"%default)
        lit=py_literal("(%s)"%default)
        if lit is None: raise OutsideDomain("literal_eval fails")
        k=lit[0]
        if typ=="int":
            if k=="int": return lit
            if k=="bool": return ("int",int(lit[1]))
            raise OutsideDomain("int() of non-int")
        if typ=="float":
            if k=="float": return lit
            if k=="int": return ("float",repr(float(lit[1])))
            if k=="bool": return ("float",repr(float(lit[1])))
            raise OutsideDomain("float() of str")
        if typ=="bool":
            if k=="bool": return lit
            if k=="int": return ("bool",lit[1]!=0)
            if k=="str": return ("bool",len(lit[1])>0)
            if k=="float": return ("bool",float(lit[1])!=0.0)
        if typ=="str":
            if k=="str": return lit
            return ("str",render_val(lit))
        raise OutsideDomain("complex")
    if default.isdecimal(): return ("int",int(default))
    if default[:1] in "-+" and default[1:].isdecimal(): return ("int",int(default))   # after fix C01-negint
    if default in ("True","False"): return ("bool",default=="True")
    f=py_float(default)
    if f is not None: return ("float",f)
    return ("str",default)
def py_float(s):
    try: return repr(float(s))
    except ValueError: return None
def py_literal(s):
    """literal_eval for the domain: parenthesised int/float/bool/quoted str"""
    import ast
    try: v=ast.literal_eval(s)
    except Exception: return None
    if isinstance(v,bool): return ("bool",v)
    if isinstance(v,int): return ("int",v)
    if isinstance(v,float): return ("float",repr(v))
    if isinstance(v,str): return ("str",v)
    return None
def extract_default(line,typ=None,edd=True):
    """returns (doc, default|None) ; default tagged"""
    if line is None: return None,None
    # paren variants first
    for v in ANNOUNCE:
        if find_ci(line,"("+v)>-1: raise OutsideDomain("paren default")
    idx=-1; end=-1
    for v in ANNOUNCE:
        i=find_ci(line,v)
        if i>-1: idx=i; end=i+len(v); break
    if idx<0: return line,None
    sub=line[end:]; default=""; depth=0
    for i,ch in enumerate(sub):
        if ch=="." and (i==len(sub)-1 or not sub[i+1].isdigit()) and depth==0: break
        if ch in "{[()]}": depth+=1
        default+=ch
    start_rest=end+len(default)
    default=default.strip(" \t`")
    val=parse_default_text(default,typ)
    if edd: return line,val
    stop=" \t\n."
    endpart=line[:idx-1]
    extra=1 if (endpart and endpart[-1] in " \t\n") else 0
    off=0
    while start_rest+off<len(line) and line[start_rest+off] in stop: off+=1
    start_rest+=off
    fst=line[:idx-1-extra]
    rest=line[start_rest:(-extra if extra>0 else None)]
    return fst+rest,val
def interpolate_defaults(p,edd):
    if "doc" in p:
        doc,d=extract_default(p["doc"],typ=p.get("typ"),edd=edd)
        p["doc"]=doc
        if d is not None: p["default"]=("str",unquote(d[1])) if d[0]=="str" else d
    return p
def is_none_val(v): return v is not None and (v==("none",) or v==("str","None"))
def set_name_and_type(name,p,infer_type=False):
    was_none=is_none_val(p.get("default"))
    if "doc" in p:
        doc2,d2=extract_default(p["doc"])
        if not p.get("doc") and doc2: p["doc"]=doc2
        if is_none_val(p.get("default")) or "default" not in p:
            if d2 is not None: p["default"]=d2
    if name.endswith("kwargs") or name.startswith("*"): raise OutsideDomain("star/kwargs")
    if "default" in p:
        v=p["default"]
        if is_none_val(v): v=("none",)
        if infer_type and p.get("typ") is None and v!=("none",): p["typ"]=tyname(v)
        if needs_quoting(p.get("typ")) or v[0] in ("str","code","none"):
            if v[0]=="str": v=("str",unquote(v[1]))
        if p.get("typ") is None and v!=("none",): p["typ"]=tyname(v)
        if v[0]=="code" and "[" not in (p.get("typ") or ""): p.pop("typ",None)
        p["default"]=v
    if p.get("typ") and p["typ"].endswith(", optional"): p["typ"]="Optional[%s]"%p["typ"][:-10]
    if "doc" in p and not p["doc"]: del p["doc"]
    if "doc" in p:
        p["doc"]=" ".join(s.strip() for s in p["doc"].split("\n")).rstrip()
        # adhoc typ: outside domain if triggers (not modelled here)
        if (p["doc"].startswith(("(Optional)","Optional")) or was_none) and "typ" in p and not p["typ"].startswith("Optional["):
            p["typ"]="Optional[%s]"%p["typ"]
    return name,p
def tyname(v): return {"int":"int","float":"float","bool":"bool","str":"str","code":"str","none":"str"}[v[0]]
TOKENS=(":param",":type",":return",":rtype")
def parse_rest(text,edd=True):
    """line/token oriented: tokens only at line starts (domain)"""
    ir={"doc":"","params":[],"returns":None}
    # split into header + token chunks
    chunks=[]; cur=None; header=[]
    for line in text.split("\n"):
        if line.startswith(TOKENS):
            cur=[line]; chunks.append(cur)
        elif cur is None: header.append(line)
        else: cur.append(line)
        if any(t in line[1:] for t in (":param",":cvar",":ivar",":var",":type",":raises",":return",":rtype")): raise OutsideDomain("token inside line")
    ir["doc"]="\n".join(header).strip()
    params={}; order=[]; cur_name=None
    for ch in chunks:
        line="\n".join(ch)
        if line.startswith((":return",":rtype")):
            nxt=line.find(":",1); val=line[nxt+1:].strip()
            if ir["returns"] is None: ir["returns"]={}
            kv=("typ",val.replace("```","")) if line.startswith(":rtype") else ("doc",val)
            d=interpolate_defaults(dict([kv]),edd)
            ir["returns"].update(d)
        else:
            fs=line.find(" "); nc=line.find(":",fs); name=line[fs+1:nc]
            val=line[nc+1:].strip()
            if name not in params:
                params[name]={}; order.append(name)
            p=params[name]
            if line.startswith(":type"): p["typ"]=val.replace("```","")
            else: p["doc"]=val
            p=interpolate_defaults(p,edd)
            _,p=set_name_and_type(name,p)
            params[name]=p
    ir["params"]=[(n,params[n]) for n in order]
    return ir
