/-! Prototype (C17/C08): faithful port of cdd/docstring/utils/parse_utils.py `parse_adhoc_doc_for_typ`.
    Strings are `List Char`; Python exceptions are `Except String`. -/
namespace Adhoc
abbrev Str := List Char
def S (s : String) : Str := s.toList

def isSpaceC (c : Char) : Bool :=
  let n := c.toNat
  (0x09 ≤ n && n ≤ 0x0D) || (0x1C ≤ n && n ≤ 0x20) || n == 0x85 || n == 0xA0 || n == 0x1680 ||
  (0x2000 ≤ n && n ≤ 0x200A) || n == 0x2028 || n == 0x2029 || n == 0x202F || n == 0x205F || n == 0x3000
def isspace (s : Str) : Bool := !s.isEmpty && s.all isSpaceC
def isAsciiDigit (c : Char) : Bool := '0' ≤ c && c ≤ '9'
def isAsciiLetter (c : Char) : Bool := ('a' ≤ c && c ≤ 'z') || ('A' ≤ c && c ≤ 'Z')
def wordChar (c : Char) : Bool := isAsciiDigit c || isAsciiLetter c || c == '`' || c == '\'' || c == '"' || c == '/' || c == '|'
/-- `str.isidentifier()` restricted to the ASCII alphabet these strings are made of -/
def isIdentifier (s : Str) : Bool :=
  match s with
  | [] => false
  | c :: cs => (isAsciiLetter c || c == '_') && cs.all (fun d => isAsciiLetter d || isAsciiDigit d || d == '_')
def isdigitStr (s : Str) : Bool := !s.isEmpty && s.all isAsciiDigit
def lowerC (c : Char) : Char := if 'A' ≤ c && c ≤ 'Z' then Char.ofNat (c.toNat + 32) else c
def lower (s : Str) : Str := s.map lowerC

def containsSub (l p : Str) : Bool :=
  match l with
  | [] => p.isEmpty
  | c :: cs => p.isPrefixOf (c :: cs) || containsSub cs p
def findSub (p : Str) : Str → Nat → Option Nat
  | [], i => if p.isEmpty then some i else none
  | c :: cs, i => if p.isPrefixOf (c :: cs) then some i else findSub p cs (i + 1)
def rfindSub (p s : Str) : Option Nat :=
  (List.range (s.length + 1)).reverse.find? (fun i => p.isPrefixOf (s.drop i))
def splitOn1 (sep : Char) : Str → Str → List Str
  | [], acc => [acc.reverse]
  | c :: cs, acc => if c == sep then acc.reverse :: splitOn1 sep cs [] else splitOn1 sep cs (c :: acc)
def joinWith (sep : Str) : List Str → Str
  | [] => []
  | [x] => x
  | x :: xs => x ++ sep ++ joinWith sep xs
def dedup (l : List Str) : List Str := l.foldl (fun acc x => if acc.contains x then acc else acc ++ [x]) []
def windows3 {α} : List α → List (α × α × α)
  | a :: b :: c :: rest => (a, b, c) :: windows3 (b :: c :: rest)
  | _ => []
def windows2 {α} : List α → List (α × α)
  | a :: b :: rest => (a, b) :: windows2 (b :: rest)
  | _ => []
/-- Python `l[a:b]` on lists with possibly negative `Int` bounds -/
def pySlice {α} (l : List α) (a b : Option Int) : List α :=
  let n : Int := l.length
  let cl (x : Int) : Nat := let y := if x < 0 then n + x else x; if y < 0 then 0 else if y > n then n.toNat else y.toNat
  let lo := match a with | none => 0 | some x => cl x
  let hi := match b with | none => l.length | some x => cl x
  (l.drop lo).take (hi - lo)

def lookup (tbl : List (String × String)) (k : Str) : Option Str := (tbl.find? (fun p => S p.1 == k)).map (fun p => S p.2)
def adhocTypeToType : List (String × String) := [("bool","bool"),("boolean","bool"),("dict","dict"),("dictionary","dict"),
  ("false","bool"),("filename","str"),("float","float"),("frequency","int"),("integer","int"),("int64","int"),
  ("`int64`castable","int"),("list","list"),("number","int"),("path","str"),("quantity","int"),("str","str"),
  ("string","str"),("true","bool"),("tuple","Tuple"),("whether","bool")]
def typeToName : List (String × String) := [("Int","int"),("int","int"),("Float","float"),("float","float"),("complex","complex"),
  ("str","str"),("String","str"),("Bool","bool"),("bool","bool"),("None","None")]
def simpleTypes : List String := ["int","float","complex","str","bool"]
def tuple3ToType : List ((String × String × String) × String) := [(("False"," ","if"),"bool"),(("False"," ","on"),"bool"),
  (("Filename"," ","of"),"str"),(("True"," ","if"),"bool"),(("True"," ","on"),"bool"),(("called"," ","at"),"collections.abc.Callable"),
  (("directory"," ","where"),"str"),(("floating"," ","point"),"float")]
def tuple3ToCollection : List ((String × String × String) × String) := [(("List"," ","of"),"List"),(("Tuple"," ","of"),"Tuple"),(("Dictionary"," ","of"),"Mapping")]
def lookup3 (tbl : List ((String × String × String) × String)) (w : Str × Str × Str) : Option Str :=
  (tbl.find? (fun p => S p.1.1 == w.1 && S p.1.2.1 == w.2.1 && S p.1.2.2 == w.2.2)).map (fun p => S p.2)
def firstSome {α β} (f : α → Option β) : List α → Option β
  | [] => none
  | x :: xs => match f x with | some y => some y | none => firstSome f xs
def kwlist : List String := ["False","None","True","and","as","assert","async","await","break","class","continue","def","del","elif","else",
  "except","finally","for","from","global","if","import","in","is","lambda","nonlocal","not","or","pass","raise","return","try","while","with","yield"]

/-! ### `_parse_adhoc_doc_for_typ_phase0` -/
structure P0 where
  words : List Str            -- completed words/separators, in order
  cur : Str                   -- words[-1] under construction (reversed)
  sentenceEnds : Int := -1
  breakUnion : Bool := false

def phase0Loop (doc : Array Char) : Nat → Nat → P0 → P0
  | 0, _, st => st
  | fuel + 1, i, st =>
    if h : i < doc.size then
      let ch := doc[i]
      let nextOk := (i + 1 < doc.size) && wordChar (doc[i+1]!)
      let prevOk := (i == 1) || (let p := if i == 0 then doc[doc.size - 1]! else doc[i-1]!; p != '`')
      if wordChar ch || (ch == '.' && nextOk && prevOk) then
        phase0Loop doc fuel (i + 1) { st with cur := ch :: st.cur }
      else if ch == '.' || ch == ';' || ch == ',' || isSpaceC ch then
        let words := st.words ++ [st.cur.reverse, [ch]]
        let se := if ch == '.' && st.sentenceEnds == -1 then (words.length : Int) else st.sentenceEnds
        let bu := if !(ch == '.' && st.sentenceEnds == -1) && ch == ';' then true else st.breakUnion
        phase0Loop doc fuel (i + 1) { words := words, cur := [], sentenceEnds := se, breakUnion := bu }
      else phase0Loop doc fuel (i + 1) st
    else st

/-- returns (words, candidate_type, fst_sentence, sentence) -/
def phase0 (doc : Str) : List Str × Option Str × Str × Option Str :=
  let arr := doc.toArray
  let st := phase0Loop arr (arr.size + 1) 0 { words := [], cur := [] }
  let words := st.words ++ [st.cur.reverse]
  let cand := firstSome (fun w => lookup adhocTypeToType w) words
  let lo : Int := if st.breakUnion && words.length > 2 then 2 else 0
  let fst := (pySlice words (some lo) (some st.sentenceEnds)).flatten
  if containsSub fst (S " or ") || containsSub fst (S " of ") then (words, cand, fst, some fst)
  else
    let starts := st.sentenceEnds
    -- for a, b in sliding_window(words[starts:], 2): ends += 1; if a == "." and not b.isidentifier(): break
    let rec go (ws : List (Str × Str)) (ends : Int) : Int :=
      match ws with
      | [] => ends
      | (a, b) :: rest => if a == ['.'] && !isIdentifier b then ends + 1 else go rest (ends + 1)
    let ends := go (windows2 (pySlice words (some starts) none)) st.sentenceEnds
    let snd := (pySlice words (some starts) (some ends)).flatten
    if containsSub snd (S " or ") || containsSub snd (S " of ") then (words, cand, fst, some snd)
    else (words, cand, fst, none)

/-! ### `_parse_adhoc_doc_for_typ_phase1` -/
def pySplitWs (s : Str) : List Str :=
  let rec go : Str → Str → List Str
    | [], acc => if acc.isEmpty then [] else [acc.reverse]
    | c :: cs, acc => if isSpaceC c then (if acc.isEmpty then go cs [] else acc.reverse :: go cs []) else go cs (c :: acc)
  go s []

def phase1 (sentence : Str) (words : List Str) : Str × Option Str :=   -- (sentence, wrapper head: none = "{}")
  let sentence := match rfindSub (S ", default") sentence with | some i => sentence.take i | none => sentence
  if (sentence.count '`') % 2 == 0 then
    let fstTick := findSub ['`'] sentence 0
    let pre := match fstTick with | some i => sentence.take i | none => sentence
    let coll := match firstSome (lookup3 tuple3ToCollection) (windows3 (pySplitWs pre)) with
      | some c => some c
      | none => firstSome (lookup3 tuple3ToCollection) (windows3 words)
    let sentence := match fstTick with
      | some i => (match rfindSub ['`'] sentence with | some j => (sentence.take j).drop i | none => sentence)
      | none => sentence
    (sentence, coll)
  else (sentence, none)

/-! ### `_union_literal_from_sentence_phase0` — elements are strings or lists under construction -/
inductive U | str (s : Str) | lst (l : Str)   -- `lst` holds chars in order
deriving BEq

structure UL where
  caller : List U             -- the list object the caller sees
  loc : List U                -- the list bound to the local name `union`
  aliased : Bool := true      -- local name still refers to the caller's list
  q1 : Nat := 0
  q2 : Nat := 0

def UL.cur (st : UL) : List U := if st.aliased then st.caller else st.loc
def UL.put (st : UL) (l : List U) : UL := if st.aliased then { st with caller := l } else { st with loc := l }
def setLast (l : List U) (u : U) : List U := l.dropLast ++ [u]

def unionLoop (sent : Array Char) : Nat → Nat → UL → Except String UL
  | 0, _, st => .ok st
  | fuel + 1, i, st =>
    if h : i < sent.size then do
      let ch := sent[i]
      let sp := isSpaceC ch
      let mut st := st
      let mut i := i
      if !sp && ch != '`' then
        match st.cur.getLast? with
        | some (.lst l) => st := st.put (setLast st.cur (.lst (l ++ [ch])))
        | _ => throw "AttributeError"
      else if sp then
        match st.cur.getLast? with
        | some (.lst l) =>
          if !l.isEmpty then
            let lastc := l.getLast!
            let first := l.head!
            let strip := (lastc == ',' || lastc == ';') && (isAsciiDigit first || first == '\'' || first == '"' || first == '`' || isIdentifier [first])
            let w := if strip then l.dropLast else l
            st := st.put (setLast st.cur (.str w))
            if w == S "or" || w == S "or," || w == S "or;" || w == S "or:" then
              st := st.put (setLast st.cur (.lst []))
            else if w == S "of" || w == S "of," || w == S "of;" || w == S "of:" then
              -- adhoc_3_tuple_to_collection.get(tuple(union))
              let asStrs := st.cur.map (fun u => match u with | .str s => s | .lst l => l)
              let coll := match asStrs with
                | [a, b, c] => lookup3 tuple3ToCollection (a, b, c)
                | _ => none
              match coll with
              | none => st := st.put (setLast st.cur (.lst []))
              | some _ => st := { st with aliased := false, loc := [] }
            else st := st.put (st.cur ++ [.lst []])
        | some (.str _) => throw "TypeError"   -- truthiness of a str then indexing: not reachable in practice
        | none => pure ()
        -- eat until next non-space
        let j := i
        let run := ((sent.toList.drop i).takeWhile isSpaceC).length
        i := i + run - 1
        let ws : List U := ((sent.toList.drop j).take (i + 1 - j)).map (fun c => U.str [c])
        let cur := st.cur
        st := st.put ((if cur.isEmpty then [] else cur.dropLast) ++ ws ++ [.lst []])
      if ch == '\'' || ch == '"' then
        let prevBs := i != 0 && sent[i-1]! == '\\'
        if !prevBs then st := if ch == '\'' then { st with q1 := st.q1 + 1 } else { st with q2 := st.q2 + 1 }
        if i + 2 < sent.size && (st.q1 + st.q2) % 2 == 0 && sent[i+1]! == ',' then i := i + 1
      unionLoop sent fuel (i + 1) st
    else .ok st

def unionPhase0 (sentence : Str) : Except String (List U) := do
  let arr := sentence.toArray
  let st ← unionLoop arr (arr.size + 1) 0 { caller := [.lst []], loc := [] }
  -- final clean-up acts on the local binding
  let cur := st.cur
  let cur' ← match cur.getLast? with
    | some (.lst l) => pure (if l.isEmpty then cur.dropLast else
        (let lc := l.getLast!; setLast cur (.str (if lc == '.' || lc == ',' then l.dropLast else l))))
    | some (.str s) => pure (if s.isEmpty then cur.dropLast else
        (let lc := s.getLast!; setLast cur (.str (if lc == '.' || lc == ',' then s.dropLast else s))))
    | none => throw "IndexError"
  return if st.aliased then cur' else st.caller

/-! ### `_union_literal_from_sentence` -/
def unionLiteral (sentence : Str) : Except String (Option Str) := do
  let us ← unionPhase0 sentence
  let strs ← us.mapM (fun u => match u with | .str s => pure s | .lst _ => throw "TypeError")
  if strs.length > 1 then
    match firstSome (lookup3 tuple3ToType) (windows3 strs) with
    | some t => return some t
    | none => if (firstSome (lookup3 tuple3ToCollection) (windows3 strs)).isSome then return none
  let union := dedup ((strs.filter (fun s => !isspace s)).map (fun k => (lookup adhocTypeToType (lower k)).getD k))
  let bad := union.any (fun e => (lookup typeToName e).isNone &&
      (kwlist.any (fun k => S k == e) || isdigitStr e || (e.count '\'' % 2 == 1) || (e.count '"' % 2 == 1)))
  if bad then return none
  let valid (c : Char) : Bool := isAsciiDigit c || c == '\'' || c == '"' || c == '`'
  -- count_iter_items(takewhile(valid.__contains__, map(itemgetter(0), union))) : lazy, so `""[0]` raises only if reached
  let rec countLits : List Str → Except String Nat
    | [] => pure 0
    | [] :: _ => throw "IndexError"
    | (c :: _) :: rest => if valid c then (do let k ← countLits rest; pure (k + 1)) else pure 0
  let literals ← match union with
    | (c :: _) :: _ => if valid c then countLits union else pure 0
    | _ => pure 0
  let (union, optional) := match union.findIdx? (· == S "None") with
    | some i => (union.eraseIdx i, true)
    | none => (union, false)
  let union := union.map (fun t => (lookup typeToName t).getD t)
  let wrap (s : Str) : Str := if optional then S "Optional[" ++ s ++ S "]" else s
  let comma := S ", "
  if literals > 0 && union.length > literals then
    return some (wrap (S "Union[" ++ (S "Literal[" ++ joinWith comma (union.take literals) ++ S "]") ++ comma ++ joinWith comma (union.drop literals) ++ S "]"))
  else if literals > 0 then
    return some (wrap (S "Literal[" ++ joinWith comma (union.take literals) ++ S "]"))
  else match union with
    | [] => return none
    | [x] => return some (wrap x)
    | _ => return some (wrap (S "Union[" ++ joinWith comma union ++ S "]"))

/-! ### `parse_adhoc_doc_for_typ` -/
def rstripDots (s : Str) : Str := (s.reverse.dropWhile (· == '.')).reverse

def adhoc (doc : Str) (defaultIsNone : Bool) : Except String (Option Str) := do
  if doc.isEmpty then return none
  let wrapOpt (s : Str) : Str := if defaultIsNone then S "Optional[" ++ s ++ S "]" else s
  let (words, cand0, fst, sentence?) := phase0 doc
  let mut cand := cand0
  if let some sentence := sentence? then
    let (sentence, coll) := phase1 sentence words
    let mut wrapHead : Option Str := coll       -- "X[{}]"
    let mut unionWith : Option Str := none      -- "Union[{}, T]"
    match ← unionLiteral sentence with
    | some nct =>
      if (S "Literal[").isPrefixOf nct && (match cand with | some c => simpleTypes.any (fun t => S t == c) | none => false) then
        unionWith := cand; wrapHead := none
      cand := if wrapHead == some (S "Mapping") && unionWith.isNone then some ((nct.drop 6).dropLast) else some nct
    | none => pure ()
    if let some c := cand then
      match unionWith, wrapHead with
      | some t, _ => return some (S "Union[" ++ c ++ S ", " ++ t ++ S "]")
      | none, some h => return some (h ++ S "[" ++ c ++ S "]")
      | none, none => return some c
  match lookup typeToName (rstripDots fst) with
  | some w => return some w
  | none => pure ()
  if let some c := cand then return some c
  if words.length > 2 then
    let w2 := words[2]!
    if w2.contains '/' then
      return some (S "Union[" ++ joinWith [','] (dedup (splitOn1 '/' w2 [])) ++ S "]")
    match firstSome (lookup3 tuple3ToType) (windows3 words) with
    | some t => return some (wrapOpt t)
    | none => return none
  return none
end Adhoc
