#!/venv/bin/python
"""Regenerate every translator-produced Lean table under lean/CddVerif/Gen from /repo's working tree."""
import os
import sys

sys.path.insert(0, os.path.dirname(os.path.dirname(os.path.abspath(__file__))))
from harness import core  # noqa: E402

core.repo_on_path()
from harness import translators  # noqa: E402

for name, changed in translators.regen_all():
    print("%s: %s" % (name, "updated" if changed else "unchanged"))
