#!/bin/bash
# usage: tools/validate_seed.sh <prop id> <A|B>   — confirm a sub-agent's seeded change in its scratch worktree
# (suite result unchanged, demo fails with the change and passes without), then file it under /verif/seeded/.
ID="$1"; X="$2"; ROOT="${3:-/tmp/mut}"; LABEL="${4:-$X}"; WT=$ROOT/$ID; OUT=$WT/_out
BASE="cdd/tests/test_compound/test_doctrans_utils.py::TestDocTransUtils::test_doctransify_cst cdd/tests/test_compound/test_exmod.py::TestExMod::test_exmod cdd/tests/test_compound/test_exmod.py::TestExMod::test_exmod_blacklist cdd/tests/test_compound/test_exmod.py::TestExMod::test_exmod_dry_run cdd/tests/test_compound/test_exmod.py::TestExMod::test_exmod_output__create_sqlalchemy_mod cdd/tests/test_compound/test_exmod.py::TestExMod::test_exmod_whitelist cdd/tests/test_shared/test_ast_cst_utils.py::TestAstCstUtils::test_find_cst_at_ast_finds_all_functions cdd/tests/test_shared/test_cst.py::TestCst::test_cstify_file cdd/tests/test_utils_for_tests.py::TestUtilsForTests::test_unittest_main"
cd $WT || exit 2
git checkout -q -- cdd
git apply $OUT/patch_$X.diff || { echo "$ID-$X: PATCH DOES NOT APPLY"; exit 1; }
FAILS=$(/venv/bin/python -m pytest -q -p no:cacheprovider --timeout=900 --continue-on-collection-errors -q 2>&1 | grep -E "^FAILED" | sed 's/ - .*//; s/^FAILED //' | sort | tr '\n' ' ')
PASSED=$(/venv/bin/python -m pytest -q -p no:cacheprovider --timeout=900 --continue-on-collection-errors 2>&1 | tail -1)
PYTHONPATH=$WT timeout 600 /venv/bin/python $OUT/demo_$X.py > $OUT/demo_${X}_with.log 2>&1; RC_WITH=$?
git checkout -q -- cdd
PYTHONPATH=$WT timeout 600 /venv/bin/python $OUT/demo_$X.py > $OUT/demo_${X}_without.log 2>&1; RC_WITHOUT=$?
EXP=$(echo $BASE | tr ' ' '\n' | sort | tr '\n' ' ')
OK=1
[ "$FAILS" = "$EXP" ] || { OK=0; echo "$ID-$X: suite differs: $FAILS"; }
[ $RC_WITH -ne 0 ] || { OK=0; echo "$ID-$X: demo passes WITH the change"; }
[ $RC_WITHOUT -eq 0 ] || { OK=0; echo "$ID-$X: demo fails WITHOUT the change (rc=$RC_WITHOUT)"; }
echo "$ID-$X: suite='$PASSED' demo_with=$RC_WITH demo_without=$RC_WITHOUT ok=$OK"
if [ $OK = 1 ]; then
  D=/verif/seeded/$ID-$LABEL; mkdir -p $D
  cp $OUT/patch_$X.diff $D/patch.diff; cp $OUT/demo_$X.py $D/demo.py; cp $OUT/notes_$X.md $D/notes.md 2>/dev/null
  /venv/bin/python - "$ID" "$LABEL" "$PASSED" "$RC_WITH" <<'PY'
import json, sys, re
pid, x, passed, rc = sys.argv[1:5]
d = "/verif/seeded/%s-%s" % (pid, x)
notes = open(d + "/notes.md").read() if __import__("os").path.exists(d + "/notes.md") else ""
files = sorted(set(re.findall(r"^\+\+\+ b/(\S+)", open(d + "/patch.diff").read(), re.M)))
json.dump({"property": pid, "variant": x, "files_touched": files,
           "needs_to_manifest": "see notes.md (written by the sub-agent that produced the change)",
           "validated": {"suite_with_change": passed.strip(), "suite_failures": "the same 9 baseline failures", "demo_with_change_rc": int(rc), "demo_without_change_rc": 0,
                         "how": "tools/validate_seed.sh %s %s in scratch worktree /tmp/mut/%s (PYTHONPATH=worktree)" % (pid, x, pid)},
           "detected_by": None}, open(d + "/meta.json", "w"), indent=1)
PY
fi
