#!/bin/sh
# usage: tools/try_seed.sh <patch.diff> <check id> [tier]  — apply a seeded change to /repo, run the check, undo.
set -u
P="$1"; ID="$2"; TIER="${3:-quick}"
cd /repo && git apply "$P" || { echo "patch does not apply"; exit 3; }
cd /verif && timeout 1500 ./check "$ID" --tier "$TIER" 2>&1 | tail -4
RC=$?
cd /repo && git checkout -- . && git status --short | head -3
exit $RC
