#!/venv/bin/python
"""Run every kept seeded change (seeded/<id>-<label>/patch.diff) against the check of its property and record the outcome
in its meta.json (`detected_by`).  The change is applied to a scratch worktree of /repo (never to /repo itself); the check
reads the code through CDD_REPO; evidence and replays of these runs go to a scratch directory, not to /verif/evidence.

usage: tools/seed_matrix.py [--only C01-A,C03-C] [--tier quick|thorough|both] [--seed N] [--missing]
"""
import argparse
import json
import os
import re
import shutil
import subprocess
import sys
import time
from pathlib import Path

VERIF = Path(__file__).resolve().parent.parent
WT = Path(os.environ.get("SEEDRUN_WT", "/tmp/seedrun/wt"))  # a second instance may run beside the first with another scratch path
OUT = Path(str(WT) + ".out")


def sh(*a, **k):
    return subprocess.run(a, text=True, capture_output=True, **k)


def main():
    ap = argparse.ArgumentParser()
    ap.add_argument("--only", default="")
    ap.add_argument("--tier", default="both")
    ap.add_argument("--seed", default="0")
    ap.add_argument("--missing", action="store_true", help="only seeds whose meta.json has no detected_by yet")
    ap.add_argument("--no-write", action="store_true", help="print the outcome only (e.g. sweeps over other VERIF_SEED values); meta.json is left as it is")
    a = ap.parse_args()
    only = set(x for x in a.only.split(",") if x)
    if WT.exists():
        sh("git", "-C", "/repo", "worktree", "remove", "--force", str(WT))
    WT.parent.mkdir(parents=True, exist_ok=True)
    r = sh("git", "-C", "/repo", "worktree", "add", "--detach", str(WT), "HEAD")
    if r.returncode:
        print(r.stderr)
        return 2
    rows = []
    try:
        for d in sorted((VERIF / "seeded").iterdir()):
            if not (d / "patch.diff").exists() or (only and d.name not in only):
                continue
            meta = json.loads((d / "meta.json").read_text())
            if a.missing and meta.get("detected_by"):
                continue
            prop = meta["property"]
            if not (VERIF / "harness" / "props" / (prop.lower() + ".py")).exists():
                print(d.name, "no check for", prop)
                continue
            ap_ = sh("git", "-C", str(WT), "apply", str(d / "patch.diff"))
            if ap_.returncode:
                print(d.name, "patch does not apply:", ap_.stderr.strip()[:200])
                rows.append((d.name, "patch-does-not-apply"))
                continue
            res = None
            for tier in (["quick", "thorough"] if a.tier == "both" else [a.tier]):
                env = dict(os.environ, CDD_REPO=str(WT), VERIF_SEED=a.seed, VERIF_EVIDENCE_DIR=str(OUT / "evidence"), VERIF_REPLAY_DIR=str(OUT / "replays" / d.name))
                t0 = time.time()
                try:
                    r = subprocess.run([str(VERIF / "check"), prop, "--tier", tier], text=True, capture_output=True, env=env, timeout=3600, cwd=str(VERIF))
                    rc, out = r.returncode, r.stdout + r.stderr
                except subprocess.TimeoutExpired:
                    rc, out = 2, "timeout"
                vio = [l for l in out.splitlines() if l.startswith("VIOLATION")]
                res = {"check": prop, "tier": tier, "seed": int(a.seed), "exit_code": rc, "violation_lines": len(vio),
                       "first_violation": (re.sub(r"replay=\S+", "replay=<scratch>", vio[0]) if vio else None),
                       "with_failing_input": bool(vio) and not all(l.rstrip().endswith("no-failing-input-found") for l in vio),
                       "wall_s": round(time.time() - t0, 1)}
                # what the first replay says
                m = re.search(r"replay=(\S+)", vio[0]) if vio else None
                if m and Path(m.group(1)).exists():
                    try:
                        rp = json.loads(Path(m.group(1)).read_text())
                        res["what"] = str(rp.get("what") or rp.get("no_longer_checks") or "")[:300]
                    except Exception:  # noqa
                        pass
                print(d.name, tier, "exit", rc, "violations", len(vio), "%.0fs" % (time.time() - t0), flush=True)
                if rc == 1:
                    break
            sh("git", "-C", str(WT), "checkout", "--", ".")
            sh("git", "-C", str(WT), "clean", "-fdq")
            if a.no_write:
                rows.append((d.name, "DETECTED %s" % res["tier"] if res["exit_code"] == 1 else "MISSED (exit %s)" % res["exit_code"]))
                continue
            meta["detected_by"] = res if res and res["exit_code"] == 1 else None
            if res and res["exit_code"] != 1:
                meta["not_detected"] = res
            else:
                meta.pop("not_detected", None)
            (d / "meta.json").write_text(json.dumps(meta, indent=1) + "\n")
            rows.append((d.name, "DETECTED %s" % res["tier"] if res["exit_code"] == 1 else "MISSED (exit %s)" % res["exit_code"]))
    finally:
        sh("git", "-C", "/repo", "worktree", "remove", "--force", str(WT))
        shutil.rmtree(OUT, ignore_errors=True)
        # the generated tables were rebuilt from the scratch tree: put them back to /repo's
        subprocess.run([str(VERIF / "tools" / "regen.py")], capture_output=True, env={k: v for k, v in os.environ.items() if k != "CDD_REPO"})
    print()
    for n, v in rows:
        print("%-8s %s" % (n, v))
    return 0


if __name__ == "__main__":
    sys.exit(main())
