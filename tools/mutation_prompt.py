#!/venv/bin/python
"""Write the prompts for one round of independent seeded changes (one sub-agent per property).

usage: tools/mutation_prompt.py <round dir, e.g. /tmp/mut6>      — creates <dir>/<id>/ worktrees of /repo HEAD and
                                                                   <dir>/prompt_<id>.txt

The sub-agent gets ONLY the property text, its own scratch worktree and the one-line descriptions of the changes already
tried for that property (so that it looks elsewhere) — nothing about the machinery in /verif.  Its results go to
<worktree>/_out/{patch_A.diff,demo_A.py,notes_A.md,patch_B.diff,demo_B.py,notes_B.md}; `tools/validate_seed.sh <id> A <dir> <label>`
then confirms and files them under /verif/seeded/.
"""
import json
import subprocess
import sys
from pathlib import Path

VERIF = Path(__file__).resolve().parent.parent


def earlier(pid):
    out = []
    for d in sorted((VERIF / "seeded").glob(pid + "-*")):
        files = ""
        try:
            files = ", ".join(Path(f).name for f in json.loads((d / "meta.json").read_text()).get("files_touched", []))
        except Exception:  # noqa
            pass
        first = ""
        n = d / "notes.md"
        if n.exists():
            for line in n.read_text().splitlines():
                s = line.strip().lstrip("#").strip()
                if s and not s.lower().startswith(("seeded", "notes")):
                    first = s[:160]
                    break
        out.append("  - %s: %s" % (files, first))
    return "\n".join(out)


def main():
    root = Path(sys.argv[1])
    root.mkdir(parents=True, exist_ok=True)
    for line in (VERIF / "properties.jsonl").read_text().splitlines():
        p = json.loads(line)
        pid = p["id"]
        wt = root / pid
        if not wt.exists():
            subprocess.run(["git", "-C", "/repo", "worktree", "add", "--detach", str(wt), "HEAD"], check=True, capture_output=True)
        (wt / "_out").mkdir(exist_ok=True)
        prompt = f"""You are helping to test a verification effort by producing realistic *breaking changes* to a Python project.

The project is offscale/cdd-python (a source-to-source transpiler between docstrings, classes, functions, argparse,
SQLAlchemy, pydantic, JSON-schema and OpenAPI through a shared intermediate representation). You have your own scratch git
worktree of it at {wt} — work ONLY there (never touch /repo, never look at /verif). Python is /venv/bin/python; run things with
`cd {wt} && PYTHONPATH={wt} /venv/bin/python …` so that `import cdd` resolves to your worktree. The test suite is
`cd {wt} && /venv/bin/python -m pytest -q -p no:cacheprovider --timeout=900 --continue-on-collection-errors` (≈50 s; on the
unchanged tree 352 pass and the same 9 tests fail: test_doctransify_cst, five test_exmod*, test_find_cst_at_ast_finds_all_functions,
test_cstify_file, test_unittest_main — that is the baseline). There is no network.

Here is a semantic property the project is meant to satisfy:

  id: {pid}
  title: {p['title']}
  statement: {p['statement']}
  quantifier: {p['quantifier']['text']}
  anchors (where the code that makes it hold lives): {json.dumps(p.get('anchors'))}

TASK. Produce TWO independent changes (A and B) to the project's non-test source, each of which
  1. BREAKS this property (for some input / configuration / sequence of operations in the property's domain),
  2. still compiles/imports, and leaves the test suite result EXACTLY at the baseline (352 passed, the same 9 failing),
  3. looks like something a maintainer could plausibly commit (a refactor, an "optimisation", a bug fix gone slightly wrong, a
     helper re-used in a place it does not quite fit) — not sabotage, no dead giveaway comments,
  4. needs something SPECIFIC to manifest: an unusual but legal input, a particular combination of flags, a multi-step sequence,
     a second call on the same object, a particular hash seed / import order / existing file, or two cooperating sites that each
     look fine alone. Ordinary use (the project's own mocks, a simple 2–3 parameter example with common types) must NOT expose it.
  5. A and B must be in different functions (preferably different files) and rely on different triggers.

Changes already tried for this property by others — choose DIFFERENT code sites and DIFFERENT triggers:
{earlier(pid) or '  (none)'}

For each change X in {{A, B}} write into {wt}/_out/ :
  * patch_X.diff  — `git diff` of the change alone against the unchanged worktree (apply-able with `git apply` from the worktree root;
                    it must touch only files under cdd/ that are not tests),
  * demo_X.py     — a small stand-alone program (run as `PYTHONPATH={wt} /venv/bin/python demo_X.py`) that exits 0 on the UNCHANGED
                    tree and exits non-zero (assertion / exception) WITH the change, by exhibiting the property violation on the real code,
  * notes_X.md    — first line: a one-sentence description of the change; then: why it breaks the property, what exactly it needs
                    in order to manifest, and what you ran.
Before finishing, verify for each change yourself: apply it alone, run the whole suite (must equal the baseline), run the demo (must fail);
revert (`git checkout -- cdd`), run the demo (must pass). Leave the worktree reverted (no change applied) at the end.
If you genuinely cannot find a second change, deliver one. Final message: two or three lines saying what A and B are.
"""
        (root / f"prompt_{pid}.txt").write_text(prompt)
    print("prompts in", root)


if __name__ == "__main__":
    main()
