#!/venv/bin/python
"""Print the markdown table of kept seeded changes and the check that catches each (from seeded/*/meta.json, written by
tools/seed_matrix.py); `--write` replaces the block between the SEED-TABLE markers in DESIGN.md."""
import json
import re
import sys
from pathlib import Path

VERIF = Path(__file__).resolve().parent.parent


def first_words(d: Path) -> str:
    meta = json.loads((d / "meta.json").read_text())
    if meta.get("summary"):
        return meta["summary"]
    n = d / "notes.md"
    if not n.exists():
        return ""
    txt = [l.strip() for l in n.read_text().split("\n")]
    head = next((l.lstrip("# ").strip() for l in txt if l.startswith("#")), "")
    head = re.sub(r"^(Change|Seeded change|Mutation)\s+[AB]\s*[—:\-–(]*\s*", "", head, flags=re.I)
    head = re.sub(r"^C\d\d\s*[—:\-–]*\s*(seeded\s+)?(change|mutation)\s+[AB]\s*[—:\-–]*\s*", "", head, flags=re.I)
    return head[:170].replace("|", "/")


rows = []
for d in sorted((VERIF / "seeded").iterdir()):
    if not (d / "meta.json").exists():
        continue
    meta = json.loads((d / "meta.json").read_text())
    det = meta.get("detected_by")
    files = ", ".join(Path(f).name for f in meta.get("files_touched", []))
    if det:
        how = "%s %s, %s" % (det["check"], det["tier"], "failing input" if det.get("with_failing_input") else "broken proof/correspondence, no-failing-input-found")
    elif meta.get("not_detected"):
        how = "**missed** (%s exit %s)" % (meta["not_detected"]["tier"], meta["not_detected"]["exit_code"])
    else:
        how = "not run yet"
    rows.append("| %s | %s | %s | %s |" % (d.name, files, first_words(d), how))
table = "\n".join(["| change | file(s) | what it is (first line of the author's notes) | outcome of `tools/seed_matrix.py` |", "|---|---|---|---|"] + rows)
if "--write" in sys.argv:
    p = VERIF / "DESIGN.md"
    s = p.read_text()
    a, b = "<!-- SEED-TABLE:BEGIN -->", "<!-- SEED-TABLE:END -->"
    if a in s:
        s = s[: s.index(a) + len(a)] + "\n" + table + "\n" + s[s.index(b):]
        p.write_text(s)
        print("DESIGN.md updated (%d rows)" % len(rows))
    else:
        print("markers not found")
else:
    print(table)
