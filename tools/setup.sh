#!/bin/sh
# MANIFEST.setup_cmd: regenerate the translator tables from /repo, then build models, proofs and the driver (offline).
set -e
cd "$(dirname "$0")/.."
/venv/bin/python tools/regen.py
cd lean
lake build
