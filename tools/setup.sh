#!/bin/sh
# MANIFEST.setup_cmd: regenerate the translator tables from /repo, then build the driver, every property module and
# finally everything else (offline).  A module that does not build affects only the property that needs it: the
# per-property builds continue, and the exit code is non-zero only if the driver or a property module failed.
cd "$(dirname "$0")/.."
/venv/bin/python tools/regen.py || exit 2
cd lean
rc=0
flock .build.lock lake build cdd_model || rc=1
for f in CddVerif/Properties/C[0-9][0-9].lean; do
  m=$(echo "$f" | sed 's#/#.#g; s#\.lean$##')
  flock .build.lock lake build "$m" || { echo "setup: $m does not build"; rc=1; }
done
flock .build.lock lake build || echo "setup: some module outside the property modules does not build (see above)"
exit $rc
