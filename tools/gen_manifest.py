#!/venv/bin/python
"""Regenerate /verif/MANIFEST.json from the table below (keeps it schema-valid at all times)."""
import json
import os
import sys

HERE = os.path.dirname(os.path.dirname(os.path.abspath(__file__)))
sys.path.insert(0, HERE)
from harness.manifest_data import CHECKS, NOT_APPLICABLE, HOOK_COMMITS  # noqa: E402

props = [json.loads(l)["id"] for l in open(os.path.join(HERE, "properties.jsonl"))]
checks = []
for pid in props:
    if pid not in CHECKS:
        continue
    c = CHECKS[pid]
    checks.append({
        "property_id": pid,
        "quick_cmd": "./check %s --tier quick" % pid,
        "thorough_cmd": "./check %s --tier thorough" % pid,
        "evidence_file": "evidence/%s.json" % pid,
        "replay_cmd_template": "./check %s --replay {path}" % pid,
        "engine": "lean4-model+correspondence",
        "level_claimed": {"category": "proof", "text": c["text"], "design_ref": "DESIGN.md §4 %s" % pid},
        "level_note": c["note"],
        "technique": c["technique"],
    })
na = [{"property_id": p, "reason": NOT_APPLICABLE.get(p, "check not built yet in this round; no claim is made")} for p in props if p not in CHECKS]
m = {
    "version": 1,
    "setup_cmd": "./tools/setup.sh",
    "hooks": {
        "guard": "CDD_VERIF",
        "enable": "no source hooks are needed: tracing/audit hooks are installed from the harness process (sys.settrace, sys.addaudithook)",
        "baseline_off_cmd": "cd /repo && /venv/bin/python -m pytest -ra -q -p no:cacheprovider --timeout=900 --continue-on-collection-errors",
        "source_commits": HOOK_COMMITS,
        "add_only": True,
    },
    "engines": [{
        "name": "lean4-model+correspondence",
        "path": "lean/ (Lean 4 models, proofs, driver) + harness/ (translators, correspondence, search) + check (CLI)",
        "serves_properties": [c["property_id"] for c in checks],
        "kind_free_text": "machine-checked proof in Lean 4 about executable models; models tied to /repo by regenerated tables (translators) and by differential correspondence through a compiled line-protocol driver",
    }],
    "checks": checks,
    "not_applicable": na,
    "notes": "All checks: ./check <id> [--tier quick|thorough] [--replay path]; VERIF_SEED / VERIF_TIER honoured. Known findings: known_findings.txt. See DESIGN.md.",
}
json.dump(m, open(os.path.join(HERE, "MANIFEST.json"), "w"), indent=1)
print("MANIFEST.json: %d checks, %d not claimed" % (len(checks), len(na)))
try:
    import jsonschema  # type: ignore
except ImportError:
    jsonschema = None
if jsonschema:
    jsonschema.validate(m, json.load(open("/root/.vp/MANIFEST.schema.json")))
