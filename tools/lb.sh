#!/bin/sh
# lake build under the shared lock: tools/lb.sh <targets…>   (default: everything)
cd "$(dirname "$0")/../lean" && exec flock .build.lock lake build "$@"
