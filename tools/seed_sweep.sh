#!/bin/bash
# usage: tools/seed_sweep.sh "<ids>" "<seeds>" [tier]  — run checks over several seeds on the unchanged tree; print non-OK lines
TIER="${3:-quick}"
for id in $1; do for s in $2; do
  OUT=$(VERIF_SEED=$s timeout 2400 ./check $id --tier $TIER 2>/dev/null | grep -v KNOWN | tail -2)
  RC=$?
  echo "$id seed=$s: $(echo "$OUT" | tail -1)"
done; done
