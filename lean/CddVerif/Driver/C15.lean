import CddVerif.Driver.Basic
/-! Driver ops for C15 (line protocol; see Main.lean). Only Mathlib-free imports here. -/
namespace Driver.C15
open Lean Driver

def ops : List (String × Handler) := []
end Driver.C15
