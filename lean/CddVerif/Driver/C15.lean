import CddVerif.Driver.Basic
import CddVerif.Model.DocSplit
/-! Driver ops for C15 (line protocol; see Main.lean). Only Mathlib-free imports here. -/
namespace Driver.C15
open Lean Driver DocSplit

def ops : List (String × Handler) := [
  ("c15.haf", fun j => do
    let cur ← getChars j "current"; let org ← getChars j "original"
    match parseHAF cur org with
    | .ok (h, a, f) => return Json.mkObj [("h", optStr h), ("a", optStr a), ("f", optStr f)]
    | .error e => return Json.mkObj [("raises", Json.str e)]),
  ("c15.tostr", fun j => do
    let h ← getChars j "h"; let a ← getChars j "a"; let f ← getChars j "f"
    return Json.mkObj [("r", str (hafToStr h a f))]),
  ("c15.whence", fun j => do
    let cur ← getChars j "current"; let org ← getChars j "original"
    match whence cur org with
    | .ok r => return Json.mkObj [("r", str r)]
    | .error e => return Json.mkObj [("raises", Json.str e)])
]
end Driver.C15
