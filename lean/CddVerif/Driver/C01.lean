import CddVerif.Driver.Basic
/-! Driver ops for C01 (line protocol; see Main.lean). Only Mathlib-free imports here. -/
namespace Driver.C01
open Lean Driver

def ops : List (String × Handler) := []
end Driver.C01
