import CddVerif.Driver.Basic
import CddVerif.Model.Doc
import CddVerif.Proofs.DocRoundTripDomain
import CddVerif.Proofs.DocGNRoundTripDomain
import CddVerif.Proofs.DocNPRoundTripDomain
import CddVerif.Driver.C14GN
/-! Driver ops for C01 (line protocol; see Main.lean). Only Mathlib-free imports here. -/
namespace Driver.C01
open Lean Driver Doc

def optChars (j : Json) (k : String) : Option (List Char) :=
  match j.getObjVal? k with | .ok (.str s) => some s.toList | _ => none

def defaultOf (j : Json) : Option Default :=
  match j with
  | .arr a =>
    let tag : String := match a[0]? with | some (Json.str t) => t | _ => ""
    if tag == "int" then (a[1]? >>= fun x => x.getInt?.toOption).map Default.int
    else if tag == "float" then (a[1]? >>= fun x => x.getStr?.toOption).map (fun s => Default.float s.toList)
    else if tag == "bool" then (a[1]? >>= fun x => x.getBool?.toOption).map Default.bool
    else if tag == "str" then (a[1]? >>= fun x => x.getStr?.toOption).map (fun s => Default.str s.toList)
    else if tag == "none" then some Default.none
    else if tag == "code" then (a[1]? >>= fun x => x.getStr?.toOption).map (fun s => Default.code s.toList)
    else none
  | _ => none

def paramOf (j : Json) : Param :=
  { typ := optChars j "typ", doc := optChars j "doc", default := (j.getObjVal? "default").toOption >>= defaultOf }

def irOf (j : Json) : Except String IR := do
  let doc := (optChars j "doc").getD []
  let ps ← (← getArr j "params").toList.mapM (fun kv => do
    let a ← kv.getArr?
    let n ← a[0]!.getStr?
    return (n.toList, paramOf a[1]!))
  let rt := match j.getObjVal? "returns" with | .ok (.obj o) => some (paramOf (.obj o)) | _ => none
  return { doc := doc, params := ps, returns := rt }

def defaultJ : Default → Json
  | .int i => Json.arr #[Json.str "int", int i]
  | .float r => Json.arr #[Json.str "float", str r]
  | .bool b => Json.arr #[Json.str "bool", Json.bool b]
  | .str s => Json.arr #[Json.str "str", str s]
  | .none => Json.arr #[Json.str "none"]
  | .code s => Json.arr #[Json.str "code", str s]

def paramJ (p : Param) : Json :=
  Json.mkObj [("typ", optStr p.typ), ("doc", optStr p.doc), ("default", match p.default with | some d => defaultJ d | none => Json.null)]

def irJ (ir : IR) : Json :=
  Json.mkObj [("doc", str ir.doc), ("params", Json.arr (ir.params.map (fun kv => Json.arr #[str kv.1, paramJ kv.2])).toArray),
              ("returns", match ir.returns with | some r => paramJ r | none => Json.null)]

def styleOf (s : String) : Style := if s == "google" then .google else if s == "numpydoc" then .numpydoc else .rest

def ops : List (String × Handler) := [
  ("c01.emit", fun j => do
    let ir ← irOf (← j.getObjVal? "ir")
    let style := styleOf ((getStr j "style").toOption.getD "rest")
    let et := (getBool j "emit_types").toOption.getD true
    let ww := (getBool j "word_wrap").toOption.getD true
    let edd := (getBool j "edd").toOption.getD true
    match emit ir style et ww edd with
    | .ok s => return Json.mkObj [("r", str s)]
    | .outside w => return Json.mkObj [("outside", Json.str w)]),
  ("c01.parse", fun j => do
    let text ← getChars j "text"
    let edd := (getBool j "edd").toOption.getD true
    match parseRest text edd with
    | .ok ir => return Json.mkObj [("ir", irJ ir)]
    | .outside w => return Json.mkObj [("outside", Json.str w)]),
  ("c01.extract", fun j => do
    let line ← getChars j "line"
    let typ := optChars j "typ"
    let edd := (getBool j "edd").toOption.getD true
    match extractDefault line typ edd with
    | .ok (d, v) => return Json.mkObj [("doc", str d), ("default", match v with | some x => defaultJ x | none => Json.null)]
    | .outside w => return Json.mkObj [("outside", Json.str w)]),
  -- the whole-docstring theorems' domain test and predicted interface (Properties/C01Whole.lean): `rest_roundtrip_full`
  -- says parseRest (emit ir) = expIR ir on InDomain; the harness compares expIR with what the REAL parser returns
  ("c01.whole", fun j => do
    let ir ← irOf (← j.getObjVal? "ir")
    let et := (getBool j "emit_types").toOption.getD true
    let edd := (getBool j "edd").toOption.getD true
    return Json.mkObj [("indomain", Json.bool (C01Whole.inDomainB ir)), ("exp", irJ (DocRT.expIR ir et edd))]),
  -- the Google whole-docstring theorem's domain test and predicted interface (Properties/C01Google.lean: google_roundtrip_full)
  ("c01.google", fun j => do
    let ir ← irOf (← j.getObjVal? "ir")
    let edd := (getBool j "edd").toOption.getD true
    return Json.mkObj [("indomain", Json.bool (C01Google.inDomainGB ir)), ("exp", Driver.C14GN.irJ (DocGNRT.expIRG ir edd))]),
  -- the NumPy whole-docstring theorem (Properties/C01Numpy.lean: numpy_roundtrip_full, types emitted)
  ("c01.numpy", fun j => do
    let ir ← irOf (← j.getObjVal? "ir")
    let edd := (getBool j "edd").toOption.getD true
    return Json.mkObj [("indomain", Json.bool (C01Numpy.inDomainNB ir)), ("exp", Driver.C14GN.irJ (C01Numpy.expIRN ir true edd))]),
  -- the two quoting primitives on their own (exhaustive short strings over the quote alphabet are compared with pure_utils.quote / unquote)
  ("c01.quote", fun j => do let s ← getChars j "s"; return Json.mkObj [("r", str (quote s))]),
  ("c01.unquote", fun j => do let s ← getChars j "s"; return Json.mkObj [("r", str (unquote s))]),
  ("c01.needs_quoting", fun j => do
    return Json.mkObj [("r", Json.bool (needsQuoting (optChars j "typ")))])
]
end Driver.C01
