import CddVerif.Driver.Basic
/-! Driver ops for C08 (line protocol; see Main.lean). Only Mathlib-free imports here. -/
namespace Driver.C08
open Lean Driver

def ops : List (String × Handler) := []
end Driver.C08
