import CddVerif.Driver.Basic
import CddVerif.Driver.C01
import CddVerif.Properties.C08Google
import CddVerif.Properties.C08Numpy
/-! Driver ops for C08 (line protocol; see Main.lean). Only Mathlib-free imports here.

`c08.google` / `c08.numpy` run the very `hopG` / `hopN` the fixpoint theorems of `Properties/C08Google.lean` and
`Properties/C08Numpy.lean` are about, round after round, and report the theorems' decidable hypotheses
(`InDomainG` / `InDomainN`, `NoVictim`); the harness compares every round with the real emit → parse hop. -/
namespace Driver.C08
open Lean Driver Doc DocGN

def rJ : R IR → Json
  | .ok ir => Json.mkObj [("ir", Driver.C01.irJ ir)]
  | .raises e => Json.mkObj [("raises", Json.str e)]
  | .outside w => Json.mkObj [("outside", Json.str w)]

/-- the results of rounds 1..n (stops after the first round that does not answer with an interface) -/
def runRounds (hop : IR → R IR) : Nat → IR → List (R IR)
  | 0, _ => []
  | n + 1, ir => match hop ir with
    | .ok ir' => .ok ir' :: runRounds hop n ir'
    | x => [x]

def ops : List (String × Handler) := [
  ("c08.google", fun j => do
    let ir ← Driver.C01.irOf (← j.getObjVal? "ir")
    let et := (getBool j "emit_types").toOption.getD true
    let ww := (getBool j "word_wrap").toOption.getD true
    let edd := (getBool j "edd").toOption.getD true
    let n := (j.getObjValAs? Nat "rounds").toOption.getD 3
    return Json.mkObj [("indomain", Json.bool (C01Google.inDomainGB ir)),
                       ("novictim", Json.bool (decide (C08Google.NoVictim edd ir))),
                       ("rounds", Json.arr ((runRounds (C08Google.hopG et ww edd) n ir).map rJ).toArray)]),
  ("c08.numpy", fun j => do
    let ir ← Driver.C01.irOf (← j.getObjVal? "ir")
    let ww := (getBool j "word_wrap").toOption.getD true
    let edd := (getBool j "edd").toOption.getD true
    let n := (j.getObjValAs? Nat "rounds").toOption.getD 3
    return Json.mkObj [("indomain", Json.bool (C01Numpy.inDomainNB ir)),
                       ("novictim", Json.bool (decide (C08Numpy.NoVictim edd ir))),
                       ("rounds", Json.arr ((runRounds (C08Numpy.hopN ww edd) n ir).map rJ).toArray)])
]
end Driver.C08
