import CddVerif.Driver.Basic
import CddVerif.Model.Loops
namespace Driver.C11
open Lean Driver Py Loop Loops DocUtils

def exitName : Exit → String | .cond => "cond" | .brk => "break" | .raise => "raise"

def ops : List (String × Handler) := [
  ("c11.walk", fun j => do
    let doc := (← getChars j "doc").toArray
    let start := tokenStartIdx doc
    match tokenLastIdxCount doc with
    | .ok (last, c) => return Json.mkObj [("start", int start), ("last", int last), ("a", nat c.a), ("b", nat c.b), ("c", nat c.c)]
    | .error e => return Json.mkObj [("start", int start), ("last", Json.str ("raises:" ++ e))]),
  ("c11.skip", fun j => do
    let s ← getChars j "s"
    if findI s ['\n'] == -1 then return Json.mkObj [("entered", Json.bool false)]
    let r := skipRun s
    return Json.mkObj [("entered", Json.bool true), ("count", nat r.2.2), ("exit", Json.str (exitName r.2.1)),
                       ("prev", nat r.1.1), ("next", int r.1.2)]),
  ("c11.union", fun j => do
    let s := (← getChars j "s").toArray
    let r := (unionLoop s).run { i := 0 }
    return Json.mkObj [("count", nat r.2.2), ("i", nat r.1.i), ("q1", nat r.1.q1), ("q2", nat r.1.q2)])
]
end Driver.C11
