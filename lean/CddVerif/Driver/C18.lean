import CddVerif.Driver.Basic
import CddVerif.Model.Imports
namespace Driver.C18
open Lean Driver Imports

def natList (j : Json) : Except String (List Nat) := do
  let a ← j.getArr?
  a.toList.mapM (fun x => x.getNat?)
def optNatJ (j : Json) : Except String (Option Nat) := match j with | .null => pure none | v => do return some (← v.getNat?)
def optChain (j : Json) : Except String (Option (List Nat)) := match j with | .null => pure none | v => do return some (← natList v)

def evOf (j : Json) : Except String Ev := do
  let k ← getStr j "k"
  match k with
  | "imp" => return .imp (← natList (← j.getObjVal? "chain"))
  | "bind" => return .bind (← getNat j "n")
  | "missing" => return .missing
  | "frm" =>
    let ch ← natList (← j.getObjVal? "chain")
    let nms ← (← getArr j "names").toList.mapM (fun p => do
      let a ← p.getArr?
      let n ← (a[0]!).getNat?
      let sub ← optChain a[1]!
      return (n, sub))
    return .frm ch nms
  | "use" =>
    let st ← (← getArr j "steps").toList.mapM (fun p => do
      let a ← p.getArr?
      return ((← a[0]!.getNat?), (← a[1]!.getNat?), (← optNatJ a[2]!)))
    return .use st
  | _ => throw s!"bad ev {k}"

def errName : Err → String
  | .importError => "ImportError" | .attributeError => "AttributeError" | .moduleNotFound => "ModuleNotFoundError" | .fuel => "fuel"

def namesOf (c : Cfg) (nMods : Nat) (st : Nat × Nat) : Json :=
  Json.arr ((List.range nMods).map (fun m =>
    if Nat.testBit st.1 m then
      Json.arr (((List.range c.stride).filter (fun n => has c.stride st.2 m n)).map nat).toArray
    else Json.null)).toArray

def ops : List (String × Handler) := [
  ("c18.run", fun j => do
    let tbl ← (← getArr j "tbl").toList.mapM (fun row => do (← row.getArr?).toList.mapM evOf)
    let short ← natList (← j.getObjVal? "short")
    let stride ← getNat j "stride"
    let fuel ← getNat j "fuel"
    let wantNames := (getBool j "names").toOption.getD false
    let c : Cfg := { tbl := tbl, short := short, stride := stride }
    let seqs ← (← getArr j "seqs").toList.mapM (fun s => do (← s.getArr?).toList.mapM natList)
    let res := seqs.map (fun seq =>
      match fresh c fuel seq with
      | .ok st => if wantNames then Json.mkObj [("r", Json.str "ok"), ("names", namesOf c tbl.length st)] else Json.mkObj [("r", Json.str "ok"), ("h", Json.str (toString (hash st.1) ++ ":" ++ toString (hash st.2)))]
      | .error e => Json.mkObj [("r", Json.str (errName e))])
    return Json.mkObj [("results", Json.arr res.toArray)])
]
end Driver.C18
