import CddVerif.Driver.Basic
import CddVerif.Model.Merge
namespace Driver.C10
open Lean Driver Merge

def optS (j : Json) (k : String) : Option String :=
  match j.getObjVal? k with
  | .ok (.str s) => some s
  | _ => none

def dictOf (j : Json) : Except String Dict := do
  let a ← j.getArr?
  a.toList.mapM (fun kv => do
    let p ← kv.getArr?
    let name ← p[0]!.getStr?
    let v := p[1]!
    return (name, { typ := optS v "typ", doc := optS v "doc", default := optS v "default" }))

def optJ : Option String → Json | none => Json.null | some s => Json.str s

def dictJson (d : Dict) : Json :=
  Json.arr (d.map (fun kv => Json.arr #[Json.str kv.1, Json.mkObj [("typ", optJ kv.2.typ), ("doc", optJ kv.2.doc), ("default", optJ kv.2.default)]])).toArray

def ops : List (String × Handler) := [
  ("c10.merge", fun j => do
    let other ← dictOf (← j.getObjVal? "other")
    let target ← dictOf (← j.getObjVal? "target")
    let rev := (getBool j "reverse").toOption.getD false
    let common := commonKeys other target
    let r := mergeParams (if rev then common.reverse else common) other target
    return Json.mkObj [("merged", dictJson r)])
]
end Driver.C10
