import CddVerif.Driver.Basic
import CddVerif.Py.AstJson
import CddVerif.Model.GenModule
/-! Driver ops for C19 (line protocol; see Main.lean). Only Mathlib-free imports here. -/
namespace Driver.C19
open Lean Driver Py PyAst GenImports GenModule

def errName : Err → String
  | .keyError => "KeyError" | .indexError => "IndexError" | .valueError => "ValueError" | .typeError => "TypeError"
  | .moduleNotFound => "ModuleNotFoundError" | .notImplemented => "NotImplementedError" | .syntaxError => "SyntaxError"
  | .assertionError => "AssertionError" | .ioError => "OSError" | .attributeError => "AttributeError"
  | .stopIteration => "StopIteration" | .os c => c | .entry c => c | .outside w => "outside:" ++ w

def emitOf : String → Except String EmitKind
  | "argparse" => pure .argparse | "class" => pure .class_ | "function" => pure .function | "json_schema" => pure .jsonSchema
  | "pydantic" => pure .pydantic | "sqlalchemy" => pure .sqlalchemy | "sqlalchemy_hybrid" => pure .sqlalchemyHybrid
  | "sqlalchemy_table" => pure .sqlalchemyTable | s => throw s!"bad emit kind {s}"
def parseOf : String → Except String ParseKind
  | "argparse" => pure .argparse | "class" => pure .class_ | "function" => pure .function | "json_schema" => pure .jsonSchema
  | "pydantic" => pure .pydantic | "sqlalchemy" => pure .sqlalchemy | "sqlalchemy_hybrid" => pure .sqlalchemyHybrid
  | "sqlalchemy_table" => pure .sqlalchemyTable | "infer" => pure .infer | s => throw s!"bad parse kind {s}"
def parserNameS : ParserName → String
  | .class_ => "class_" | .function => "function" | .jsonSchema => "json_schema" | .pydantic => "pydantic" | .sqlalchemy => "sqlalchemy"
def kwKeyS : KwKey → String
  | .functionName => "function_name" | .className => "class_name" | .decoratorList => "decorator_list"
  | .emitCall => "emit_call" | .identifier => "identifier" | .tableName => "table_name"

def flag (j : Json) (k : String) : Bool := (getBool j k).toOption.getD false

def strListOf (j : Json) (k : String) : List Str :=
  match j.getObjVal? k with
  | .ok (.arr a) => a.toList.filterMap (fun x => match x with | .str s => some s.toList | _ => Option.none)
  | _ => []

/-- `{"k": "cls", "base_ids": [..]} | {"k": "fn", "async": bool, "args": [..]} | {"k": "json"} | {"k": "assign"} | {"k": "other"}`
    (the older flags `"base": bool`, `"ap": bool` are still read) -/
def nodeOf (j : Json) : Except String NodeKind := do
  match (← getStr j "k") with
  | "cls" => pure (.cls (strListOf j "base_ids" ++ (if flag j "base" then [baseName] else [])))
  | "fn" => pure (.fn (flag j "async") (strListOf j "args" ++ (if flag j "ap" then [argumentParserName] else [])))
  | "json" => pure .json
  | "assign" => pure .assign
  | _ => pure .otherStmt

def entryOf (j : Json) : Except String Entry := do
  return ⟨← getChars j "name", ← nodeOf (← j.getObjVal? "node")⟩

def res (r : Except Err Json) : Json :=
  match r with
  | .ok v => Json.mkObj [("ok", v)]
  | .error e => Json.mkObj [("error", Json.str (errName e))]

def tablesOf (j : Json) : Except String Tables := do
  let a ← getArr j "tables"
  a.toList.mapM (fun t => do
    let names ← getArr t "names"
    let ns ← names.toList.mapM (fun n => do return (← n.getStr?).toList)
    return ((← getChars t "module"), ns))

def impsJ (l : List Imp) : Json := strs (l.map Imp.render)

def inferErrS : InferErr → String
  | .collect .assertion => "AssertionError"
  | .collect .unorderable => "TypeError"
  | .noneNotIterable => "TypeError"

/-- per-entry results of the real parser / emitter, looked up by entry name -/
def worldOf (entries : Array Json) : World :=
  let find (e : Entry) : Option Json := entries.toList.find? (fun j => (getChars j "name").toOption == some e.name)
  { parse := fun _ e =>
      match find e with
      | Option.none => .error (.entry "no-such-entry")
      | some j =>
        match getStr j "parse_error" with
        | .ok c => .error (.entry c)
        | .error _ => match getChars j "ir_name" with
                      | .ok n => .ok n
                      | .error _ => .ok []
    emit := fun _ _ e =>
      match find e with
      | Option.none => .error (.entry "no-such-entry")
      | some j =>
        match getStr j "emit_error" with
        | .ok c => .error (.entry c)
        | .error _ => match j.getObjVal? "stmt" with
                      | .ok (.obj o) => .ok (stmtOf (.obj o))
                      | _ => .error (.entry "unavailable")
    jsonDumps := fun e =>
      match find e with
      | some j => !(flag j "json_not_serialisable")
      | Option.none => true }

def cfgOf (j : Json) : Except String Cfg := do
  let prepend : Option (List Stmt × Bool) := match j.getObjVal? "prepend" with
    | .ok (.obj o) => some (moduleOf ((Json.obj o).getObjValD "stmts"), flag (.obj o) "complete")
    | _ => Option.none
  let fileImports : Option (List Stmt) := match j.getObjVal? "file_imports" with
    | .ok (.arr a) => some (moduleOf (.arr a))
    | _ => Option.none
  let tables ← match j.getObjVal? "tables" with
    | .ok (.arr _) => tablesOf j
    | _ => pure []
  return { tpl := ← getChars j "tpl", parse := ← parseOf (← getStr j "parse"), emit := ← emitOf (← getStr j "emit"),
           inferImports := flag j "infer_imports", prepend := prepend, fileImports := fileImports, tables := tables }

def inputOf (j : Json) : Except String InputFile := do
  match j.getObjVal? "json_basename" with
  | .ok (.str b) => return .json b.toList
  | _ =>
    let a ← getArr j "body"
    return .py (← a.toList.mapM entryOf)

def effJ : Eff → Json
  | .isfile p => Json.arr #[Json.str "isfile", Json.str p]
  | .raise e => Json.arr #[Json.str ("raise:" ++ errName e)]
  | .openAppend p => Json.arr #[Json.str "open-append", Json.str p]
  | .write p => Json.arr #[Json.str "write", Json.str p]

/-- the file system facts the harness measured for the raw output argument (OS semantics, not cdd's) -/
def fsOf (j : Json) : FS :=
  { isfile := fun _ => flag j "exists",
    openAppend := fun _ => match getStr j "open_error" with
      | .ok c => .error (.os c)
      | .error _ => .ok () }

def ops : List (String × Handler) := [
  ("c19.fmt", fun j => do
    return res ((fmt (← getChars j "tpl") (← getChars j "name")).map str)),
  ("c19.valid", fun j => do
    let s ← getChars j "s"
    return Json.mkObj [("r", str (ensureValid s)), ("is_name", Json.bool (isPyName s))]),
  ("c19.kwargs", fun j => do
    let emit ← emitOf (← getStr j "emit")
    let r := getEmitKwarg emit (← getChars j "tpl") (← getChars j "name")
    return res (r.map (fun kw => Json.mkObj [("keys", Json.arr (kw.keys.map (fun k => Json.str (kwKeyS k))).toArray), ("name", optStr kw.name),
                                            ("call", match callCheck emit kw with | .ok _ => Json.str "ok" | .error e => Json.str (errName e))]))),
  ("c19.symbol", fun j => do
    let emit ← emitOf (← getStr j "emit")
    let nm := (getChars j "kw_name").toOption
    return res ((symbolName emit ⟨[], nm⟩ (← getChars j "ir_name")).map str)),
  ("c19.parser", fun j => do
    return res ((parserFor (← parseOf (← getStr j "parse")) (← nodeOf (← j.getObjVal? "node"))).map (fun p => Json.str (parserNameS p)))),
  ("c19.mapping", fun j => do
    let r := fileToInputMapping (← parseOf (← getStr j "parse")) (← inputOf j)
    return res (r.map (fun es => strs (es.map (·.name))))),
  ("c19.allentry", fun j => do
    let s ← getChars j "s"
    return Json.mkObj [("entry", str (allEntry s)), ("repr", str (reprPy s))]),
  ("c19.doc", fun j => do
    return Json.mkObj [("truthy", Json.bool (docTruthy (← getChars j "s")))]),
  ("c19.names", fun j => do
    let s := stmtOf (← j.getObjVal? "stmt")
    match collect s with
    | .ok l => return Json.mkObj [("ok", strs (sortDedup l))]
    | .error e => return Json.mkObj [("error", Json.str (inferErrS (.collect e)))]),
  ("c19.gettypes", fun j => do
    match getTypes (parseAnn (← getChars j "ann")) with
    | .error _ => return Json.mkObj [("error", Json.str "AssertionError")]
    | .ok Option.none => return Json.mkObj [("ok", Json.null)]
    | .ok (some items) => return Json.mkObj [("ok", Json.arr (items.map (fun i => match i with | .s v => str v | .nonStr => Json.null)).toArray)]),
  ("c19.infer", fun j => do
    let t ← tablesOf j
    let stmts := moduleOf (← j.getObjVal? "stmts")
    match inferred t stmts with
    | .ok l => return Json.mkObj [("ok", impsJ l)]
    | .error e => return Json.mkObj [("error", Json.str (inferErrS e))]),
  ("c19.reorder", fun j => do
    return Json.mkObj [("body", moduleJ (reorder (moduleOf (← j.getObjVal? "body"))))]),
  ("c19.assemble", fun j => do
    let cfg ← cfgOf j
    let syms := moduleOf (← j.getObjVal? "syms")
    let all ← (← getArr j "all").toList.mapM (fun x => do return (← x.getStr?).toList)
    match assemble cfg syms all with
    | .ok body => return Json.mkObj [("module", moduleJ body)]
    | .error e => return Json.mkObj [("error", Json.str (errName e))]),
  ("c19.gen", fun j => do
    let cfg ← cfgOf j
    let input ← inputOf j
    let entries ← getArr j "world"
    let W := worldOf entries
    let run := gen W cfg input
    let output := (getStr j "output").toOption.getD "out.py"
    let phase := (getInt j "phase").toOption.getD 0
    let trace := mainGen (fsOf j) output phase run
    -- expected symbol names by the emitters' naming contract
    let expected : List Json := match fileToInputMapping cfg.parse input with
      | .error _ => []
      | .ok es => es.map (fun e =>
          match (do
            let pn ← parserFor cfg.parse e.node
            let irn ← W.parse pn e
            let kw ← getEmitKwarg cfg.emit cfg.tpl e.name
            symbolName cfg.emit kw irn) with
          | .ok n => str n
          | .error _ => Json.null)
    let out := match run with
      | .ok (.module body) => Json.mkObj [("module", moduleJ body)]
      | .ok (.json o) => Json.mkObj [("ids", strs o.ids), ("wrapped", Json.bool o.wrapped), ("dump_fails", Json.bool o.dumpFails)]
      | .error e => Json.mkObj [("error", Json.str (errName e))]
    return Json.mkObj [("trace", Json.arr (trace.map effJ).toArray), ("run", out), ("expected_symbols", Json.arr expected.toArray)])
]
end Driver.C19
