import CddVerif.Driver.Basic
/-! Driver ops for C19 (line protocol; see Main.lean). Only Mathlib-free imports here. -/
namespace Driver.C19
open Lean Driver

def ops : List (String × Handler) := []
end Driver.C19
