import CddVerif.Driver.Basic
import CddVerif.Model.JoinNonNone
/-! Line-protocol ops for the `_join_non_none` model (C10).  A dict is `[[key, value|null], …]` in insertion order;
    a value is `null` (Python `None`) or a string (an injective rendering of any other object). -/
namespace Driver.C10Join
open Lean Driver JoinNonNone

def dictOf (j : Json) : Except String (D String String) := do
  let a ← j.getArr?
  a.toList.mapM (fun kv => do
    let p ← kv.getArr?
    if p.size != 2 then throw "dict item is not a pair"
    let name ← p[0]!.getStr?
    match p[1]! with
    | .null => return (name, none)
    | .str s => return (name, some s)
    | _ => throw "dict value is neither null nor a string")

def optDictOf (j : Json) : Except String (Option (D String String)) :=
  match j with
  | .null => pure none
  | j => do return some (← dictOf j)

def optJ : Option String → Json | none => Json.null | some s => Json.str s

def dictJson (d : D String String) : Json :=
  Json.arr (d.map (fun kv => Json.arr #[Json.str kv.1, optJ kv.2])).toArray

def orderOf (j : Json) : Except String (List String) := do
  let a ← getArr j "order"
  a.toList.mapM (fun x => x.getStr?)

def ops : List (String × Handler) := [
  -- `_join_non_none(primacy, other)` with the frozenset iterated in the order `order`
  ("c10.join", fun j => do
    let p ← dictOf (← j.getObjVal? "primacy")
    let o ← dictOf (← j.getObjVal? "other")
    let σ ← orderOf j
    return Json.mkObj [("joined", dictJson (join σ p o))]),
  -- the `returns` part of `ir_merge`; `target` / `other` are the `"return_type"` entries or null
  ("c10.join_returns", fun j => do
    let t ← optDictOf (← j.getObjVal? "target")
    let o ← optDictOf (← j.getObjVal? "other")
    let σ ← orderOf j
    return Json.mkObj [("returns", match irMergeReturns σ t o with | none => Json.null | some d => dictJson d)]),
  -- `merge_present_params(other_param, target_param)` on dicts (typ/doc raw, default tagged as in c10.merge)
  ("c10.join_present", fun j => do
    let o ← dictOf (← j.getObjVal? "other")
    let t ← dictOf (← j.getObjVal? "target")
    return Json.mkObj [("merged", dictJson (mergePresentD o t))])
]
end Driver.C10Join
