import CddVerif.Driver.Basic
import CddVerif.Py.AstJson
import CddVerif.Model.SyncProperties
import CddVerif.Model.SyncPropertiesMulti
/-! Driver ops for C13 (line protocol; see Main.lean). Only Mathlib-free imports here. -/
namespace Driver.C13
open Lean Driver PyAst SyncProps

def errName : Err → String
  | .assertion => "raises:AssertionError"
  | .notImplemented => "raises:NotImplementedError"
  | .typeError => "raises:TypeError"
  | .keyError => "raises:KeyError"
  | .indexError => "raises:IndexError"
  | .invalidOutput => "raises:InvalidInput"
  | .argInBody => "arg-in-statement-list"
  | .unsupported => "unsupported"

def errJ (e : Err) : Json := Json.mkObj [("error", Json.str (errName e))]

def nodeJ : Node → Json
  | .arg a => Json.mkObj [("node", "arg"), ("arg", argJ a)]
  | .stmt s => Json.mkObj [("node", "stmt"), ("stmt", stmtJ s)]

def nodeOf (j : Json) : Except String Node := do
  match (← getStr j "node") with
  | "arg" => return .arg (argOf (← j.getObjVal? "arg"))
  | _ => return .stmt (stmtOf (← j.getObjVal? "stmt"))

def locOfJ (j : Json) (k : String) : Except String Loc := do
  return (← getArr j k).toList.filterMap fun x => match x with | .str s => some s | _ => none

def locJ (l : Loc) : Json := Json.arr (l.map Json.str).toArray

def constOf (j : Json) : Const :=
  match j.getObjVal? "s" with
  | .ok (.str s) => .str s
  | _ => match j.getObjVal? "r" with
    | .ok (.str r) => .raw r
    | _ => .raw "?"

def optStrOf (j : Json) (k : String) : Option String :=
  match j.getObjVal? k with | .ok (.str s) => some s | _ => none

def stateJ (st : RState) : List (String × Json) :=
  [("replaced", Json.bool st.replaced), ("poisoned", Json.bool st.poisoned), ("phantom", Json.bool st.phantom)]

def pairOf (j : Json) : Except String Pair := do
  let ev := match j.getObjVal? "eval_value" with
    | .ok (.arr a) => some (a.toList.map constOf)
    | _ => none
  return { inputParam := (← getStr j "input_param"), outputParam := (← getStr j "output_param"), evalValue := ev }

/-- index of the first pair that raises (diagnostics) -/
def failedAt (inputEval : Bool) (wrap : Option String) : MState → List Pair → Nat → Option Nat
  | _, [], _ => none
  | ms, p :: ps, k =>
    match stepPair inputEval wrap ms p with
    | .error _ => some k
    | .ok ms' => failedAt inputEval wrap ms' ps (k + 1)

def ops : List (String × Handler) := [
  ("c13.sync_multi", fun j => do
    let input := moduleOf (← j.getObjVal? "input")
    let output := moduleOf (← j.getObjVal? "output")
    let pairs ← (← getArr j "pairs").toList.mapM pairOf
    let ev := (getBool j "input_eval").toOption.getD false
    let wrap := optStrOf j "wrap"
    match syncAll ev wrap pairs input output with
    | .error e =>
      let k := failedAt ev wrap { input := annotateInput (astParse input), output := annotateOutput (astParse output) } pairs 0
      return Json.mkObj [("error", Json.str (errName e)), ("failed_at", optNat k)]
    | .ok m => return Json.mkObj [("ok", moduleJ m)]),
  ("c13.annotate", fun j => do
    let m := moduleOf (← j.getObjVal? "module")
    return Json.mkObj [("entries", Json.arr ((annotateAncestry m).map fun e =>
      Json.arr #[Json.str e.kind, locJ e.loc, optInt e.idx]).toArray)]),
  ("c13.find", fun j => do
    let m := moduleOf (← j.getObjVal? "module")
    let search ← locOfJ j "search"
    match findInAst search m with
    | .error e => return errJ e
    | .ok none => return Json.mkObj [("found", Json.null)]
    | .ok (some n) => return Json.mkObj [("found", nodeJ n)]),
  ("c13.rewrite", fun j => do
    let m := moduleOf (← j.getObjVal? "module")
    let search ← locOfJ j "search"
    let repl ← nodeOf (← j.getObjVal? "repl")
    let r := rewriteAtQuery search repl m
    match rewriteChecked search repl m with
    | .error e => return Json.mkObj (("error", Json.str (errName e)) :: stateJ r.2)
    | .ok m' => return Json.mkObj (("ok", moduleJ m') :: stateJ r.2)),
  ("c13.remit", fun j => do
    return Json.mkObj [("doc", Json.str (remitDoc (← getStr j "doc")))]),
  ("c13.literal", fun j => do
    let vs := (← getArr j "values").toList.map constOf
    match it2literal vs with
    | .error e => return errJ e
    | .ok t => return Json.mkObj [("text", Json.str t)]),
  ("c13.sync", fun j => do
    let input := moduleOf (← j.getObjVal? "input")
    let output := moduleOf (← j.getObjVal? "output")
    let ev := match j.getObjVal? "eval_value" with
      | .ok (.arr a) => some (a.toList.map constOf)
      | _ => none
    let cfg : Config := {
      inputEval := (getBool j "input_eval").toOption.getD false
      inputParam := (← getStr j "input_param")
      outputParam := (← getStr j "output_param")
      wrap := optStrOf j "wrap"
      evalValue := ev }
    let search := stripSplit cfg.outputParam
    -- diagnostics: state of the rewrite (ghost flags) when a replacement node exists
    let diag := match replacementNode cfg search (astParse input) with
      | .ok repl => stateJ (rewriteAtQuery search repl (astParse output)).2 ++ [("repl", nodeJ repl)]
      | .error _ => []
    match syncProperties cfg { input := input, output := output } with
    | .error e => return Json.mkObj (("error", Json.str (errName e)) :: ("search", locJ search) :: diag)
    | .ok fs => return Json.mkObj (("ok", moduleJ fs.output) :: ("input", moduleJ fs.input) :: ("search", locJ search) :: diag))
]
end Driver.C13
