import CddVerif.Driver.Basic
/-! Driver ops for C13 (line protocol; see Main.lean). Only Mathlib-free imports here. -/
namespace Driver.C13
open Lean Driver

def ops : List (String × Handler) := []
end Driver.C13
