import CddVerif.Driver.Basic
/-! Driver ops for C12 (line protocol; see Main.lean). Only Mathlib-free imports here. -/
namespace Driver.C12
open Lean Driver

def ops : List (String × Handler) := []
end Driver.C12
