import CddVerif.Driver.Basic
import CddVerif.Py.AstJson
import CddVerif.Model.Sync
/-! Driver ops for C12 (line protocol; see Main.lean). Only Mathlib-free imports here.

* `c12.find`    — `find_in_ast(search, module)`
* `c12.cmp`     — `cmp_ast(node0, node1)` on two statements
* `c12.rewrite` — `RewriteAtQuery(search, replacement).visit(module)`
* `c12.plan`    — which emission `_conform_filename` asks for, per kind (function type / name, or "new" for a missing file)
* `c12.sync`    — `ground_truth` on three files; the IR is an opaque token and the emitters are the table of nodes
                  the harness obtained from the REAL emitters for the requests of `c12.plan`
-/
namespace Driver.C12
open Lean Driver PyAst Sync

def errJ : Err → Json
  | .assertion w => Json.mkObj [("error", "raises:AssertionError"), ("what", Json.str w)]
  | .typeError w => Json.mkObj [("error", "raises:TypeError"), ("what", Json.str w)]
  | .attributeError w => Json.mkObj [("error", "raises:AttributeError"), ("what", Json.str w)]
  | .notImplemented w => Json.mkObj [("error", "raises:NotImplementedError"), ("what", Json.str w)]
  | .outOfModel w => Json.mkObj [("error", "out-of-model"), ("what", Json.str w)]

def foundJ : Option Found → Json
  | none => Json.null
  | some .module => Json.mkObj [("k", "module")]
  | some (.stmt s) => Json.mkObj [("k", "stmt"), ("node", stmtJ s)]
  | some (.arg a d) => Json.mkObj [("k", "arg"), ("name", Json.str a.name), ("ann", optJ a.ann), ("default", optJ d)]

def pathOf (j : Json) (k : String) : List String := strList j k

def kindOf : String → Except String Kind
  | "argparse_function" => pure .argparse
  | "class" => pure .cls
  | "function" => pure .function
  | s => throw s!"bad kind {s}"

def kindName : Kind → String
  | .argparse => "argparse_function"
  | .cls => "class"
  | .function => "function"

def fileOf (j : Json) (k : String) : Option PyAst.Module :=
  match j.getObjVal? k with
  | .ok (.arr a) => some (moduleOf (.arr a))
  | _ => none

def filesOf (j : Json) : Files :=
  { argparse := fileOf j "argparse_function", cls := fileOf j "class", function := fileOf j "function" }

def fileJ : Option PyAst.Module → Json
  | none => Json.null
  | some m => moduleJ m

def filesJ (f : Files) : Json :=
  Json.mkObj [("argparse_function", fileJ f.argparse), ("class", fileJ f.cls), ("function", fileJ f.function)]

/-- `name.split(".")`, with `str.strip` per component for the targets (ASCII whitespace is all the harness generates) -/
def searchOf (strip : Bool) (name : String) : List String :=
  (name.splitOn ".").map (fun s => if strip then s.trimAscii.toString else s)

def pathsOf (names : Json) : Kind → List String := fun k =>
  searchOf true ((PyAst.optStr names (kindName k)).getD "")

/-- the emission table: key `kind|new` or `kind|<function type or ->|name` -/
def emitKey (k : Kind) (ft : Option String) (name : String) : String :=
  kindName k ++ "|" ++ ft.getD "-" ++ "|" ++ name

def tableEmitters (tbl : List (String × Stmt)) : Emitters Unit :=
  { parse := fun _ _ _ _ => (),
    emit := fun k _ ft name => match tbl.find? (·.1 == emitKey k ft name) with
      | some (_, s) => s
      | none => .other ("<no emission for " ++ emitKey k ft name ++ ">"),
    emitNew := fun k _ => match tbl.find? (·.1 == kindName k ++ "|new") with
      | some (_, s) => s
      | none => .other ("<no emission for " ++ kindName k ++ "|new>") }

def tableOf (j : Json) : List (String × Stmt) :=
  match j.getObjVal? "emissions" with
  | .ok (.arr a) => a.toList.filterMap (fun e =>
      match PyAst.optStr e "key", e.getObjVal? "node" with
      | some k, .ok n => some (k, stmtOf n)
      | _, _ => none)
  | _ => []

/-- `"slots": {"class": "argparse_function", …}`: the kind under which the (possibly shared) file of a kind is kept -/
def slotsOf (j : Json) : Kind → Kind := fun k =>
  match j.getObjVal? "slots" with
  | .ok sl => match PyAst.optStr sl (kindName k) with
    | some n => match kindOf n with
      | .ok k' => k'
      | .error _ => k
    | none => k
  | .error _ => k

/-- files as the harness sees them: per kind, the content of that kind's file -/
def filesViewJ (f : Files) (slot : Kind → Kind) : Json :=
  Json.mkObj (kinds.map (fun k => (kindName k, fileJ (f.get (slot k)))))

/-- the requests of `_conform_filename`, kind by kind, each computed on the files as the previous kinds (with the emissions
    known so far) left them -/
def planLoop (E : Emitters Unit) (names : Json) (slot : Kind → Kind) : List Kind → Option Files → List (String × Json)
  | [], _ => []
  | k :: ks, none => (kindName k, Json.mkObj [("error", "not-reached")]) :: planLoop E names slot ks none
  | k :: ks, some files =>
    let p := pathsOf names k
    let r : Json := match files.get (slot k) with
      | none => Json.mkObj [("key", Json.str (kindName k ++ "|new")), ("new", Json.bool true)]
      | some m => match findInAst p m with
        | .error e => errJ e
        | .ok f => match optFunctionType k f with
          | .error e => errJ e
          | .ok ft => Json.mkObj [("key", Json.str (emitKey k ft (optName k p))), ("new", Json.bool false), ("ft", optJ ft),
              ("name", Json.str (optName k p)), ("found", foundJ f)]
    let next : Option Files := match conform E k p () (files.get (slot k)) with
      | .error _ => some files   -- (also when the emission of `k` is not in the table yet: the harness refines the plan kind by kind)
      | .ok (file', _) => some (files.set (slot k) file')
    (kindName k, r) :: planLoop E names slot ks next

def ops : List (String × Handler) := [
  ("c12.find", fun j => do
    let m := moduleOf (← j.getObjVal? "module")
    match findInAst (pathOf j "search") m with
    | .ok f => return Json.mkObj [("found", foundJ f)]
    | .error e => return errJ e),
  ("c12.cmp", fun j => do
    let a := stmtOf (← j.getObjVal? "a")
    let b := stmtOf (← j.getObjVal? "b")
    return Json.mkObj [("eq", Json.bool (cmpFound (.stmt a) b))]),
  ("c12.rewrite", fun j => do
    let m := moduleOf (← j.getObjVal? "module")
    let repl := stmtOf (← j.getObjVal? "repl")
    match rwList (pathOf j "search") none m { repl := .stmt repl, replaced := false } with
    | .ok (m', st) => return Json.mkObj [("module", moduleJ m'), ("replaced", Json.bool st.replaced)]
    | .error e => return errJ e),
  ("c12.plan", fun j => do
    let files := filesOf (← j.getObjVal? "files")
    let names ← j.getObjVal? "names"
    let t ← kindOf (← getStr j "truth")
    let truthPath := searchOf false ((PyAst.optStr names (kindName t)).getD "")
    let slot := slotsOf j
    let truth : Json := match files.get (slot t) with
      | none => Json.mkObj [("error", "truth-file-missing")]
      | some m => match findInAst truthPath m with
        | .error e => errJ e
        | .ok f => match optFunctionType t f with
          | .error e => errJ e
          | .ok ft => Json.mkObj [("found", foundJ f), ("ft", optJ ft), ("name", Json.str (optName t truthPath))]
    let reqs := planLoop (tableEmitters (tableOf j)) names slot kinds (some files)
    return Json.mkObj [("truth", truth), ("requests", Json.mkObj reqs)]),
  ("c12.sync", fun j => do
    let files := filesOf (← j.getObjVal? "files")
    let names ← j.getObjVal? "names"
    let t ← kindOf (← getStr j "truth")
    let truthPath := searchOf false ((PyAst.optStr names (kindName t)).getD "")
    let E := tableEmitters (tableOf j)
    let slot := slotsOf j
    let r := syncAt E t truthPath (pathsOf names) slot files
    return Json.mkObj [
      ("files", filesViewJ r.files slot),
      ("flags", Json.mkObj (r.flags.map (fun kf => (kindName kf.1, Json.bool kf.2)))),
      ("err", match r.err with | none => Json.null | some e => errJ e)])
]
end Driver.C12
