import CddVerif.Driver.Basic
/-! Driver ops for C05 (line protocol; see Main.lean). Only Mathlib-free imports here. -/
namespace Driver.C05
open Lean Driver

def ops : List (String × Handler) := []
end Driver.C05
