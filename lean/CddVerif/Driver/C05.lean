import CddVerif.Driver.Basic
import CddVerif.Model.Sql
/-! Driver ops for C05 (line protocol; see Main.lean). Only Mathlib-free imports here. -/
namespace Driver.C05
open Lean Driver Sql

/-! ### JSON → model -/

def valOf (j : Json) : Except String Val :=
  match j with
  | .null => pure .none
  | .bool b => pure (.bool b)
  | .str s => pure (.str s.toList)
  | .num _ => do return .int (← j.getInt?)
  | .obj _ =>
    match j.getObjVal? "f" with
    | .ok (.str s) => pure (.float s.toList)
    | _ => match j.getObjVal? "code" with
      | .ok (.str s) => pure (.code s.toList)
      | _ => throw "bad value"
  | _ => throw "bad value"

partial def typOf (j : Json) : Except String Typ := do
  match j.getObjVal? "n" with
  | .ok (.str s) => return .name s.toList
  | _ => pure ()
  match j.getObjVal? "opt" with
  | .ok t => return .optional (← typOf t)
  | _ => pure ()
  match j.getObjVal? "lit" with
  | .ok (.arr a) => return .literal (← a.toList.mapM (fun m => do return (← m.getStr?).toList))
  | _ => pure ()
  match j.getObjVal? "list" with
  | .ok t => return .list (← typOf t)
  | _ => pure ()
  match j.getObjVal? "union" with
  | .ok (.arr a) =>
    if a.size == 2 then return .union (← typOf a[0]!) (← typOf a[1]!) else throw "bad union"
  | _ => throw "bad typ"

def optKey (j : Json) (k : String) : Option Json :=
  match j.getObjVal? k with
  | .ok v => some v
  | .error _ => none

def optStrKey (j : Json) (k : String) : Option (List Char) :=
  match j.getObjVal? k with
  | .ok (.str s) => some s.toList
  | _ => none

/-- `{"typ": <typ>|null (absent = no key), "doc": str?, "default": {"v": <val>}?, "x_sql_type": str?,
      "server_default": {"v": <val>}?, "items_type": str?}` -/
def paramOf (j : Json) : Except String Param := do
  let typ ← (match optKey j "typ" with
    | none => pure none
    | some .null => pure (some none)
    | some t => do return some (some (← typOf t)) : Except String (Option (Option Typ)))
  let wrapped (k : String) : Except String (Option Val) :=
    match optKey j k with
    | none => pure none
    | some w => do return some (← valOf (← w.getObjVal? "v"))
  return { typ := typ, doc := optStrKey j "doc", default := ← wrapped "default", xSqlType := optStrKey j "x_sql_type",
           serverDefault := ← wrapped "server_default", itemsType := optStrKey j "items_type" }

def paramsOf (j : Json) : Except String Params := do
  let a ← j.getArr?
  a.toList.mapM (fun kv => do
    let p ← kv.getArr?
    return ((← p[0]!.getStr?).toList, ← paramOf p[1]!))

def argOf (j : Json) : Except String Arg := do
  match optKey j "c" with
  | some v => return .const (← valOf v)
  | none => pure ()
  match optStrKey j "n" with
  | some s => return .name s
  | none => pure ()
  match optStrKey j "code" with
  | some s => return .expr s
  | none => pure ()
  let f ← getStr j "f"
  let a ← getArr j "a"
  let k ← getArr j "k"
  let strOfConst (x : Json) : Except String (List Char) := do
    match ← valOf (← x.getObjVal? "c") with
    | .str s => pure s
    | _ => throw "unmodelled-arg"
  if f == "Enum" then
    let nm ← (match k.toList with
      | [kv] => do
        let p ← kv.getArr?
        if (← p[0]!.getStr?) == "name" then strOfConst p[1]! else throw "unmodelled-arg"
      | _ => throw "unmodelled-arg" : Except String (List Char))
    return .enum (← a.toList.mapM strOfConst) nm
  else if f == "ForeignKey" && a.size == 1 && k.size == 0 then
    return .fk (← strOfConst a[0]!)
  else if f == "ARRAY" && a.size == 1 && k.size == 0 then
    match optStrKey a[0]! "n" with
    | some s => return .array s
    | none => throw "unmodelled-arg"
  else throw "unmodelled-arg"

def columnOf (j : Json) : Except String ColumnCall := do
  let a ← getArr j "args"
  let k ← getArr j "kws"
  let kws ← k.toList.mapM (fun kv => do
    let p ← kv.getArr?
    return ((← p[0]!.getStr?).toList, ← valOf p[1]!))
  return { args := ← a.toList.mapM argOf, kws := kws }

/-! ### model → JSON -/

def valJ : Val → Json
  | .none => Json.null
  | .bool b => Json.bool b
  | .int i => int i
  | .float r => Json.mkObj [("f", str r)]
  | .str s => str s
  | .code s => Json.mkObj [("code", str s)]

def constJ (v : Val) : Json := Json.mkObj [("c", valJ v)]

def argJ : Arg → Json
  | .const v => constJ v
  | .name id => Json.mkObj [("n", str id)]
  | .enum ms nm => Json.mkObj [("f", "Enum"), ("a", Json.arr (ms.map (fun m => constJ (.str m))).toArray),
                               ("k", Json.arr #[Json.arr #["name", constJ (.str nm)]])]
  | .fk v => Json.mkObj [("f", "ForeignKey"), ("a", Json.arr #[constJ (.str v)]), ("k", Json.arr #[])]
  | .array inner => Json.mkObj [("f", "ARRAY"), ("a", Json.arr #[Json.mkObj [("n", str inner)]]), ("k", Json.arr #[])]
  | .expr code => Json.mkObj [("code", str code)]

def columnJ (c : ColumnCall) : Json :=
  Json.mkObj [("args", Json.arr (c.args.map argJ).toArray),
              ("kws", Json.arr (c.kws.map (fun kv => Json.arr #[str kv.1, valJ kv.2])).toArray)]

def viewJ (v : Column) : Json :=
  Json.mkObj [("name", optStr v.name), ("type", match v.colType with | some a => argJ a | none => Json.null),
              ("foreign_key", optStr v.foreignKey), ("primary_key", Json.bool v.primaryKey), ("nullable", optBool v.nullable),
              ("default", match v.default with | some d => Json.mkObj [("v", valJ d)] | none => Json.mkObj []),
              ("server_default", match v.serverDefault with | some d => Json.mkObj [("v", valJ d)] | none => Json.mkObj []),
              ("comment", optStr v.comment)]

def optValJ : Option Val → Json
  | none => Json.mkObj []
  | some v => Json.mkObj [("v", valJ v)]

def parsedJ (p : Parsed) : Json :=
  Json.mkObj [("typ", optStr p.typ), ("x_sql_type", optStr p.xSqlType), ("doc", optStr p.doc),
              ("default", optValJ p.default), ("server_default", optValJ p.serverDefault), ("none_key", optValJ p.noneKey),
              ("comment", optValJ p.comment)]

def tableJ (t : TableCall) : Json :=
  Json.mkObj [("tname", str t.tname), ("meta", str t.metaName), ("cols", Json.arr (t.cols.map columnJ).toArray),
              ("header_text", optStr t.headerText)]

def stmtJ : Stmt → Json
  | .docstring t => Json.arr #["doc", str t]
  | .assignStr t v => Json.arr #["str", str t, str v]
  | .assignCol t c => Json.arr #["col", str t, columnJ c]
  | .assignTable t tbl => Json.arr #["table", str t, tableJ tbl]
  | .funcDef n => Json.arr #["def", str n]

def classJ (c : ClassDef) : Json :=
  Json.mkObj [("name", str c.name), ("body", Json.arr (c.body.map stmtJ).toArray)]

def parsedIRJ (r : ParsedIR) : Json :=
  Json.mkObj [("name", str r.name),
              ("params", Json.arr (r.params.map (fun kv => Json.arr #[str kv.1, parsedJ kv.2])).toArray)]

def exceptJ {α} (f : α → Json) : Except String α → Json
  | .ok a => Json.mkObj [("ok", f a)]
  | .error e => Json.mkObj [("error", Json.str e)]

def stmtOf (j : Json) : Except String Stmt := do
  let a ← j.getArr?
  let kind ← a[0]!.getStr?
  if kind == "doc" then return .docstring (match (a[1]? : Option Json) with | some (Json.str t) => t.toList | _ => [])
  else if kind == "def" then return .funcDef (← a[1]!.getStr?).toList
  else if kind == "str" then return .assignStr (← a[1]!.getStr?).toList (← a[2]!.getStr?).toList
  else if kind == "col" then return .assignCol (← a[1]!.getStr?).toList (← columnOf a[2]!)
  else if kind == "table" then
    let t := a[2]!
    let cols ← (← getArr t "cols").toList.mapM columnOf
    return .assignTable (← a[1]!.getStr?).toList { tname := ← getChars t "tname", metaName := ← getChars t "meta", cols := cols }
  else throw "bad stmt"

def pairsJ (t : List (List Char × List Char)) : Json := Json.arr (t.map (fun kv => Json.arr #[str kv.1, str kv.2])).toArray

def ops : List (String × Handler) := [
  -- one parameter → one `Column(…)` call
  ("c05.column", fun j => do
    let name ← getChars j "name"
    let p ← paramOf (← j.getObjVal? "param")
    let incl ← getBool j "include_name"
    return match paramToColumn incl (name, p) with
      | .ok c => Json.mkObj [("ok", columnJ c), ("view", viewJ c.view)]
      | .error e => Json.mkObj [("error", Json.str e)]),
  -- one `Column(…)` call → (name, ParamVal)
  ("c05.parse_column", fun j => do
    let c ← columnOf (← j.getObjVal? "column")
    return exceptJ (fun np => Json.arr #[str np.1, parsedJ np.2]) (columnToParam c)),
  -- ensure_has_primary_key: names and descriptions afterwards
  ("c05.ensure_pk", fun j => do
    let ps ← paramsOf (← j.getObjVal? "params")
    let force ← getBool j "force"
    let r := ensurePK force ps
    return Json.mkObj [("params", Json.arr (r.map (fun kv => Json.arr #[str kv.1, optStr kv.2.doc,
      Json.bool kv.2.serverDefault.isSome])).toArray)]),
  -- a whole interface: the three emissions, their parses, the table→class conversion, the expected normal form
  ("c05.case", fun j => do
    let name ← getChars j "name"
    let ps ← paramsOf (← j.getObjVal? "params")
    let force ← getBool j "force"
    let doc ← getChars j "doc"
    let hasReturns ← getBool j "has_returns"
    let returnsHasDoc ← getBool j "returns_has_doc"
    let ir : IR := { name := name, params := ps, doc := doc, hasReturns := hasReturns, returnsHasDoc := returnsHasDoc }
    let tbl := emitTable force ir
    let cls := emitClass force ir
    let hyb := emitHybrid force ir
    let t2c := andThen tbl tableToClass
    return Json.mkObj [
      ("table", exceptJ (fun a => Json.mkObj [("target", str a.1), ("call", tableJ a.2)]) tbl),
      ("class", exceptJ classJ cls),
      ("hybrid", exceptJ classJ hyb),
      ("parsed_table", exceptJ parsedIRJ (andThen tbl parseTable)),
      ("parsed_class", exceptJ parsedIRJ (andThen cls parseClass)),
      ("parsed_hybrid", exceptJ parsedIRJ (andThen hyb parseClass)),
      ("table_to_class", exceptJ classJ t2c),
      ("parsed_table_to_class", exceptJ parsedIRJ (andThen t2c parseClass)),
      ("normal_form", Json.arr ((ensurePK force ps).map (fun kv => Json.arr #[str kv.1,
          optStr (normDoc kv.1 kv.2.doc kv.2.default.isSome)])).toArray)]),
  -- a class body by statement kinds → parse.sqlalchemy
  ("c05.parse_class", fun j => do
    let name ← getChars j "name"
    let body ← (← getArr j "body").toList.mapM stmtOf
    return exceptJ parsedIRJ (parseClass { name := name, body := body })),
  -- the tables the model uses (must equal the imported ones)
  ("c05.tables", fun _ =>
    return Json.mkObj [("column_type2typ", pairsJ Gen.SqlTables.columnType2Typ), ("typ2column_type", pairsJ Gen.SqlTables.typ2ColumnType),
                       ("imports", strs Gen.SqlTables.topLevelImports)])
]
end Driver.C05
