import CddVerif.Driver.Basic
/-! `py.*` ops: validate the `Py.Str` library itself against CPython. -/
namespace Driver.PyStr
open Lean Driver Py

def ops : List (String × Handler) := [
  ("py.strip", fun j => do let s ← getChars j "s"; return Json.mkObj [("r", str (strip s)), ("l", str (lstrip s)), ("rr", str (rstrip s)), ("isspace", Json.bool (isspace s))]),
  ("py.find", fun j => do
    let s ← getChars j "s"; let p ← getChars j "p"
    return Json.mkObj [("find", int (findI s p)), ("rfind", int (rfindI s p)), ("in", Json.bool (contains s p)),
                       ("starts", Json.bool (startsWith s p)), ("ends", Json.bool (endsWith s p)),
                       ("count", if p.isEmpty then Json.null else nat (count s p)),
                       ("partition", let (a, b, c) := partition s p; strs [a, b, c]),
                       ("rpartition", let (a, b, c) := rpartition s p; strs [a, b, c]),
                       ("split", if p.isEmpty then Json.null else strs (splitOn s p))]),
  ("py.findat", fun j => do
    let s ← getChars j "s"; let p ← getChars j "p"; let i ← getNat j "i"
    return Json.mkObj [("r", int (findAtI s p i))]),
  ("py.slice", fun j => do
    let s ← getChars j "s"; let a ← getOptInt j "a"; let b ← getOptInt j "b"
    return Json.mkObj [("r", str (slice s a b))]),
  ("py.index", fun j => do
    let s ← getChars j "s"; let i ← getInt j "i"
    return Json.mkObj [("r", match index? s i with | some c => str [c] | none => Json.null)]),
  ("py.misc", fun j => do
    let s ← getChars j "s"
    return Json.mkObj [("splitws", strs (splitWs s)), ("splitlines", strs (splitlines s)), ("split_sp", strs (split1 s ' ')),
                       ("isdecimal", Json.bool (isdecimal s)), ("isidentifier", Json.bool (isIdentifier s)),
                       ("title", str (title s)), ("lower", str (lower s)), ("upper", str (upper s)), ("capitalize", str (capitalize s))]),
  ("py.replace", fun j => do
    let s ← getChars j "s"; let a ← getChars j "a"; let b ← getChars j "b"
    return Json.mkObj [("all", str (replace s a b)), ("one", str (replace1 s a b))]),
  ("py.int", fun j => do let i ← getInt j "i"; return Json.mkObj [("r", str (intToStr i))])
]
end Driver.PyStr
