import Lean.Data.Json
import CddVerif.Py.Str
/-! Helpers shared by the line-protocol driver ops (Mathlib-free). -/
namespace Driver
open Lean

abbrev Handler := Json → Except String Json

def getStr (j : Json) (k : String) : Except String String := do
  let v ← j.getObjVal? k
  v.getStr?
def getChars (j : Json) (k : String) : Except String (List Char) := do
  return (← getStr j k).toList
def getInt (j : Json) (k : String) : Except String Int := do
  let v ← j.getObjVal? k
  v.getInt?
def getNat (j : Json) (k : String) : Except String Nat := do
  let v ← j.getObjVal? k
  v.getNat?
def getBool (j : Json) (k : String) : Except String Bool := do
  let v ← j.getObjVal? k
  v.getBool?
def getArr (j : Json) (k : String) : Except String (Array Json) := do
  let v ← j.getObjVal? k
  v.getArr?
def getOptInt (j : Json) (k : String) : Except String (Option Int) :=
  match j.getObjVal? k with
  | .ok .null => pure none
  | .ok v => do return some (← v.getInt?)
  | .error _ => pure none

def str (s : List Char) : Json := Json.str (String.ofList s)
def strs (l : List (List Char)) : Json := Json.arr (l.map str).toArray
def optStr : Option (List Char) → Json | none => Json.null | some s => str s
def optBool : Option Bool → Json | none => Json.null | some b => Json.bool b
def optInt : Option Int → Json | none => Json.null | some i => Json.num (JsonNumber.fromInt i)
def int (i : Int) : Json := Json.num (JsonNumber.fromInt i)
def nat (n : Nat) : Json := Json.num (JsonNumber.fromNat n)
def optNat : Option Nat → Json | none => Json.null | some i => nat i

end Driver
