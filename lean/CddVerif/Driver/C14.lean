import CddVerif.Driver.Basic
/-! Driver ops for C14 (line protocol; see Main.lean). Only Mathlib-free imports here. -/
namespace Driver.C14
open Lean Driver

def ops : List (String × Handler) := []
end Driver.C14
