import CddVerif.Driver.Basic
import CddVerif.Model.Cst
namespace Driver.C09
open Lean Driver

def nodeJson (n : Cst.Node) : Json :=
  Json.mkObj [("kind", Json.str n.kind), ("start", nat n.start), ("stop", nat n.stop), ("value", str n.value),
              ("name", optStr n.name), ("is_double_q", optBool n.isDoubleQ), ("is_docstr", optBool n.isDocstr)]

def ops : List (String × Handler) := [
  ("c09.scan", fun j => do
    let src ← getChars j "src"
    return Json.mkObj [("chunks", strs (Cst.scanner src))]),
  ("c09.parse", fun j => do
    let src ← getChars j "src"
    return Json.mkObj [("nodes", Json.arr ((Cst.cstParse src).map nodeJson).toArray)]),
  ("c09.balanced", fun j => do
    let s ← getChars j "s"
    return Json.mkObj [("r", Json.bool (Cst.balanced s))]),
  ("c09.triple", fun j => do
    let s ← getChars j "s"
    return Json.mkObj [("r", Json.bool (Cst.isTripleQuoted s))])
]
end Driver.C09
