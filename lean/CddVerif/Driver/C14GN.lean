import CddVerif.Driver.Basic
import CddVerif.Model.DocGN
/-! Driver ops for the Google / NumPy docstring parser model (property C14; line protocol, see Main.lean).
    Only Mathlib-free imports here.  Register with `Driver.C14GN.ops` in `Main.lean : allOps`. -/
namespace Driver.C14GN
open Lean Driver Py Doc DocGN

def styleOf (s : String) : Option GNStyle :=
  if s == "google" then some .google else if s == "numpydoc" then some .numpydoc else none

def elemJ : Elem → Json
  | .s v => str v
  | .l v => strs v

/-- canonical JSON of the dict `scanned`: `args` = `scanned[arg_tokens[0]]`, `returns` = `scanned[return_tokens[0]]`,
    `afterward` = `scanned.get("scanned_afterward")` -/
def scannedJ (sc : Scanned) : Json :=
  Json.mkObj [("doc", str sc.doc), ("args", Json.arr (sc.args.map strs).toArray),
              ("returns", Json.arr (sc.rets.map elemJ).toArray),
              ("afterward", match sc.afterward with | some a => strs a | none => Json.null)]

/-- the tagged default of `harness/impl/docir.py : to_tag` (strings are classified by their content, as there) -/
def dfltJ (d : Dflt) : Json :=
  match pyStr? d with
  | some s =>
    if s == noneStr then Json.arr #[Json.str "none"]
    else if s.length ≥ 6 && startsWith s bt3 && endsWith s bt3 then Json.arr #[Json.str "code", str s]
    else Json.arr #[Json.str "str", str s]
  | none =>
    match d with
    | .base (.int i) => Json.arr #[Json.str "int", int i]
    | .base (.float r) => Json.arr #[Json.str "float", str r]
    | .base (.bool b) => Json.arr #[Json.str "bool", Json.bool b]
    | .complex0 => Json.arr #[Json.str "complex", Json.str "0.0+0.0j"]
    | .tuple0 => Json.arr #[Json.str "other", Json.str "()"]
    | _ => Json.null

def paramJ (p : GParam) : Json :=
  Json.mkObj [("typ", optStr p.typ), ("doc", optStr p.doc), ("default", match p.default with | some d => dfltJ d | none => Json.null)]

def irJ (ir : GIR) : Json :=
  Json.mkObj [("doc", str ir.doc), ("params", Json.arr (ir.params.map (fun kv => Json.arr #[str kv.1, paramJ kv.2])).toArray),
              ("returns", match ir.returns with | some r => paramJ r | none => Json.null)]

def resJ {α} (key : String) (f : α → Json) : R α → Json
  | .ok a => Json.mkObj [(key, f a)]
  | .raises e => Json.mkObj [("raises", Json.str e)]
  | .outside w => Json.mkObj [("outside", Json.str w)]

def ops : List (String × Handler) := [
  /- derive_docstring_format(text) -/
  ("c14gn.style", fun j => do
    let text ← getChars j "text"
    return Json.mkObj [("style", Json.str (match deriveStyle text with | none => "rest" | some .google => "google" | some .numpydoc => "numpydoc"))]),
  /- _scan_phase(text, style=style) → canonicalised `scanned` | raises -/
  ("c14gn.scan", fun j => do
    let text ← getChars j "text"
    match styleOf (← getStr j "style") with
    | none => throw "style must be google or numpydoc"
    | some st => return resJ "scanned" scannedJ (scanPhase st text)),
  /- with "style": _scan_phase + _parse_phase with that style; without: cdd.docstring.parse.docstring(text, emit_default_doc=edd)
     → IR view | raises | outside -/
  ("c14gn.parse", fun j => do
    let text ← getChars j "text"
    let edd := (getBool j "edd").toOption.getD true
    match (getStr j "style").toOption with
    | none => return resJ "ir" irJ (parseDocstring text edd)
    | some s =>
      match styleOf s with
      | none => throw "style must be google or numpydoc"
      | some st => return resJ "ir" irJ (parseGN st text edd))
]
end Driver.C14GN
