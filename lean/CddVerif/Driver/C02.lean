import CddVerif.Driver.Basic
/-! Driver ops for C02 (line protocol; see Main.lean). Only Mathlib-free imports here. -/
namespace Driver.C02
open Lean Driver

def ops : List (String × Handler) := []
end Driver.C02
