import CddVerif.Driver.Basic
import CddVerif.Py.AstJson
import CddVerif.Model.IfaceParse
import CddVerif.Model.IfaceDomain
/-! Driver ops for C02 (line protocol; see Main.lean). Only Mathlib-free imports here. -/
namespace Driver.C02
open Lean Driver Iface

/-! ### JSON → model -/

def optS (j : Json) (k : String) : Option String :=
  match j.getObjVal? k with | .ok (.str s) => some s | _ => none
def getB (j : Json) (k : String) (dflt : Bool) : Bool :=
  match j.getObjVal? k with | .ok (.bool b) => b | _ => dflt
def field? (j : Json) (k : String) : Option Json :=
  match j.getObjVal? k with | .ok .null => none | .ok v => some v | .error _ => none

def defaultOf (j : Json) : Except String Default := do
  let t ← getStr j "t"
  let v ← getStr j "v"
  match t with
  | "int" => match v.toInt? with | some i => pure (.int i) | none => .error ("bad int " ++ v)
  | "float" => pure (.float v)
  | "complex" => pure (.complex v)
  | "bool" => pure (.bool (v == "True"))
  | "str" => pure (.str v)
  | _ => .error ("unsupported value type " ++ t)

def constOf (j : Json) : Except String Const :=
  match j with
  | .null => pure .none
  | j => do pure (.val (← defaultOf j))

def exprOf (j : Json) : Except String Expr := do
  match (← getStr j "k") with
  | "const" => pure (.const (← constOf (← j.getObjVal? "v")))
  | "neg" => pure (.neg (← constOf (← j.getObjVal? "v")))
  | "name" => pure (.name (← getStr j "id"))
  | "code" => pure (.code (← getStr j "src") (getB j "tuple" false))
  | k => .error ("bad expr kind " ++ k)

def optExprOf (j : Json) (k : String) : Except String (Option Expr) :=
  match field? j k with | some e => do pure (some (← exprOf e)) | none => pure none

def dvalOf (j : Json) : Except String DVal := do
  match optS j "t" with
  | some "node" => pure (.node (← exprOf (← j.getObjVal? "e")))
  | _ => pure (.val (← defaultOf j))

def paramOf (j : Json) : Except String Param := do
  let d ← match field? j "default" with | some d => (do pure (some (← dvalOf d))) | none => pure none
  pure { doc := optS j "doc", typ := optS j "typ", default := d }

def irOf (j : Json) : Except String IR := do
  let ps ← match j.getObjVal? "params" with
    | .ok (.arr a) => a.toList.mapM (fun kv => do
        let p ← kv.getArr?
        pure ((← p[0]!.getStr?), (← paramOf p[1]!)))
    | _ => pure []
  let r ← match field? j "returns" with | some r => (do pure (some (← paramOf r))) | none => pure none
  pure { name := optS j "name", type := optS j "type", doc := (optS j "doc").getD "", params := ps, returns := r }

def styleOf : String → Style
  | "google" => .google | "numpydoc" => .numpydoc | _ => .rest

def cfgOf (j : Json) : Cfg :=
  { style := styleOf ((optS j "style").getD "rest"), emitDefaultDoc := getB j "edd" false, typeAnnotations := getB j "type_annotations" true,
    kwOnly := getB j "kw_only" true }

def formatOf : String → Except String Iface.Format
  | "class" => pure .class_ | "pydantic" => pure .pydantic | "function" => pure .function | "argparse" => pure .argparse
  | f => .error ("bad format " ++ f)

def argOf (j : Json) : Arg := { name := (optS j "name").getD "", ann := optS j "ann" }
def arrOf (j : Json) (k : String) : List Json := match j.getObjVal? k with | .ok (.arr a) => a.toList | _ => []

def stmtOf (j : Json) : Except String Stmt := do
  match (← getStr j "k") with
  | "doc" => pure (.doc (← getStr j "s"))
  | "ann" => pure (.ann (← getStr j "target") (← getStr j "ann") (← optExprOf j "value"))
  | "descr" => pure (.descr (← constOf (← j.getObjVal? "c")))
  | "add" =>
    let choices := match j.getObjVal? "choices" with
      | .ok (.arr a) => some (a.toList.filterMap (fun x => match x with | .str s => some s | _ => none))
      | _ => none
    pure (.addArg { name := ← getStr j "name", typ := optS j "typ", choices := choices, action := optS j "action", help := optS j "help",
                    required := getB j "required" false, default := ← optExprOf j "default" })
  | "ret" => pure (.ret (← exprOf (← j.getObjVal? "e")))
  | "rettuple" => pure (.retTuple (← exprOf (← j.getObjVal? "e")))
  | "retparser" => pure .retParser
  | "ellipsis" => pure .ellipsis
  | _ => pure (.other ((optS j "src").getD ""))

def topOf (j : Json) : Except String Top := do
  let body ← (arrOf j "body").mapM stmtOf
  match (← getStr j "k") with
  | "cls" => pure (.cls (← getStr j "name") ((arrOf j "bases").filterMap (fun x => match x with | .str s => some s | _ => none)) body)
  | "fn" =>
    let a ← j.getObjVal? "args"
    let defaults ← (arrOf a "defaults").mapM exprOf
    let kwd ← (arrOf a "kw_defaults").mapM (fun x => match x with | .null => pure none | e => do pure (some (← exprOf e)))
    pure (.fn (← getStr j "name") { args := (arrOf a "args").map argOf, defaults := defaults, kwonly := (arrOf a "kwonly").map argOf, kwDefaults := kwd }
      body (optS j "returns"))
  | k => .error ("bad top kind " ++ k)

/-! ### model → JSON -/

def optJ : Option String → Json | none => Json.null | some s => Json.str s
def defaultJ : Default → Json
  | .int i => Json.mkObj [("t", "int"), ("v", Json.str (toString i))]
  | .float r => Json.mkObj [("t", "float"), ("v", Json.str r)]
  | .complex r => Json.mkObj [("t", "complex"), ("v", Json.str r)]
  | .bool b => Json.mkObj [("t", "bool"), ("v", Json.str (if b then "True" else "False"))]
  | .str s => Json.mkObj [("t", "str"), ("v", Json.str s)]
def constJ : Const → Json | .none => Json.null | .val d => defaultJ d
def exprJ : Expr → Json
  | .const c => Json.mkObj [("k", "const"), ("v", constJ c)]
  | .neg c => Json.mkObj [("k", "neg"), ("v", constJ c)]
  | .name id => Json.mkObj [("k", "name"), ("id", Json.str id)]
  | .code s t => Json.mkObj [("k", "code"), ("src", Json.str s), ("tuple", Json.bool t)]
def optExprJ : Option Expr → Json | none => Json.null | some e => exprJ e
def dvalJ : DVal → Json
  | .val d => defaultJ d
  | .node e => Json.mkObj [("t", "node"), ("e", exprJ e)]
def paramJ (p : Param) : Json :=
  Json.mkObj [("doc", optJ p.doc), ("typ", optJ p.typ), ("default", match p.default with | some d => dvalJ d | none => Json.null)]
def irJ (ir : IR) : Json :=
  Json.mkObj [("name", optJ ir.name), ("type", optJ ir.type), ("doc", Json.str ir.doc),
    ("params", Json.arr (ir.params.map (fun kv => Json.arr #[Json.str kv.1, paramJ kv.2])).toArray),
    ("returns", match ir.returns with | some r => paramJ r | none => Json.null)]
def argJ (a : Arg) : Json := Json.mkObj [("name", Json.str a.name), ("ann", optJ a.ann)]
def stmtJ : Stmt → Json
  | .doc s => Json.mkObj [("k", "doc"), ("s", Json.str s)]
  | .ann t a v => Json.mkObj [("k", "ann"), ("target", Json.str t), ("ann", Json.str a), ("value", optExprJ v)]
  | .descr c => Json.mkObj [("k", "descr"), ("c", constJ c)]
  | .addArg a => Json.mkObj [("k", "add"), ("name", Json.str a.name), ("typ", optJ a.typ),
      ("choices", match a.choices with | some c => Json.arr (c.map Json.str).toArray | none => Json.null),
      ("action", optJ a.action), ("help", optJ a.help), ("required", Json.bool a.required), ("default", optExprJ a.default)]
  | .ret e => Json.mkObj [("k", "ret"), ("e", exprJ e)]
  | .retTuple e => Json.mkObj [("k", "rettuple"), ("e", exprJ e)]
  | .retParser => Json.mkObj [("k", "retparser")]
  | .ellipsis => Json.mkObj [("k", "ellipsis")]
  | .other s => Json.mkObj [("k", "other"), ("src", Json.str s)]
def topJ : Top → Json
  | .cls n b body => Json.mkObj [("k", "cls"), ("name", Json.str n), ("bases", Json.arr (b.map Json.str).toArray),
      ("body", Json.arr (body.map stmtJ).toArray)]
  | .fn n a body r => Json.mkObj [("k", "fn"), ("name", Json.str n),
      ("args", Json.mkObj [("args", Json.arr (a.args.map argJ).toArray), ("defaults", Json.arr (a.defaults.map exprJ).toArray),
        ("kwonly", Json.arr (a.kwonly.map argJ).toArray), ("kw_defaults", Json.arr (a.kwDefaults.map optExprJ).toArray)]),
      ("body", Json.arr (body.map stmtJ).toArray), ("returns", optJ r)]
def styleJ : Style → Json | .rest => "rest" | .google => "google" | .numpydoc => "numpydoc"
def docCfgJ (c : DocEmitCfg) : Json :=
  Json.mkObj [("style", styleJ c.style), ("emit_default_doc", Json.bool c.emitDefaultDoc), ("emit_types", Json.bool c.emitTypes),
    ("purpose", if c.purposeClass then "class" else "function"), ("indent_level", Json.num (JsonNumber.fromNat c.indentLevel)),
    ("emit_separating_tab", Json.bool c.emitSeparatingTab)]

/-! ### the environment: answers of the real docstring layer / CPython, sent with the request -/

def missMark : String := "<<oracle-miss>>"

/-- `env` object: `doc_text`, `doc_ir`, `ed` = [[edd, doc, doc', default|null]…], `adhoc` = [[doc, name, is_none, typ|null]…],
    `exprs` = [[src, expr|null]…].  A question that was not answered yields a marker that shows up in the output. -/
def envOf (j : Json) : Except String Env := do
  let docText := (optS j "doc_text").getD missMark
  let docIR ← match field? j "doc_ir" with
    | some d => irOf d
    | none => pure { name := some missMark, doc := missMark, params := [(missMark, {})] }
  let ed ← (arrOf j "ed").mapM (fun r => do
    let a ← r.getArr?
    let d ← match a[3]! with | .null => pure none | x => (do pure (some (← defaultOf x)))
    pure ((← a[0]!.getBool?), (← a[1]!.getStr?), (← a[2]!.getStr?), d))
  let adhoc ← (arrOf j "adhoc").mapM (fun r => do
    let a ← r.getArr?
    pure ((← a[0]!.getStr?), (← a[1]!.getStr?), (← a[2]!.getBool?), (match a[3]! with | .str s => some s | _ => none)))
  let exprs ← (arrOf j "exprs").mapM (fun r => do
    let a ← r.getArr?
    let e ← match a[1]! with | .null => pure none | x => (do pure (some (← exprOf x)))
    pure ((← a[0]!.getStr?), e))
  pure {
    docEmit := fun _ _ => docText
    docParse := fun _ _ => docIR
    extractDefault := fun edd d =>
      match ed.find? (fun r => r.1 == edd && r.2.1 == d) with
      | some r => (r.2.2.1, r.2.2.2)
      | none => (d, some (.str missMark))
    adhocTyp := fun d n b =>
      match adhoc.find? (fun r => r.1 == d && r.2.1 == n && r.2.2.1 == b) with
      | some r => r.2.2.2
      | none => some missMark
    pyExpr := fun s =>
      match exprs.find? (fun r => r.1 == s) with
      | some r => r.2
      | none => some (.code missMark false) }

def result (r : Except String Json) : Json :=
  match r with
  | .ok j => Json.mkObj [("ok", j)]
  | .error e => Json.mkObj [("error", Json.str e)]

def ops : List (String × Handler) := [
  ("c02.docreq", fun j => do
    let f ← formatOf (← getStr j "fmt")
    let ir ← irOf (← j.getObjVal? "ir")
    let (c, dir) := docRequest f (cfgOf (← j.getObjVal? "cfg")) ir
    return Json.mkObj [("cfg", docCfgJ c), ("ir", irJ dir)]),
  ("c02.emit", fun j => do
    let f ← formatOf (← getStr j "fmt")
    let ir ← irOf (← j.getObjVal? "ir")
    let env ← envOf (← j.getObjVal? "env")
    return result (do
      let t ← emit env f (cfgOf (← j.getObjVal? "cfg")) ir
      pure (Json.mkObj [("py", PyAst.stmtJ t.toPy), ("ast", topJ t), ("reparsed", topJ t.reparse)]))),
  ("c02.parse", fun j => do
    let f ← formatOf (← getStr j "fmt")
    let t ← topOf (← j.getObjVal? "ast")
    let env ← envOf (← j.getObjVal? "env")
    return result (do
      let ir ← parse env f t
      pure (irJ ir))),
  ("c02.types", fun j => do
    let t ← getStr j "typ"
    return Json.mkObj [("needs_quoting", Json.bool (needsQuoting (some t))), ("names", Json.arr ((typeNames t).map Json.str).toArray),
      ("consts", Json.arr ((typeStrConsts t).map Json.str).toArray), ("simple", Json.bool (isSimple t))]),
  ("c02.str", fun j => do
    let s ← getStr j "s"
    return Json.mkObj [("repr", Json.str (pyRepr s)), ("quote", Json.str (quoteStr s)), ("unquote", Json.str (unquoteStr s)),
      ("set_value", Json.str (setValueStr s)), ("code_quoted", Json.bool (codeQuoted s)), ("tidy", Json.str (tidyDoc s)),
      ("norm", optJ (normDoc s)), ("strip_ticks", Json.str (stripTicks s)), ("paren_wrap", Json.str (parenWrap s))]),
  ("c02.indomain", fun j => do
    let f ← formatOf (← getStr j "fmt")
    let ir ← irOf (← j.getObjVal? "ir")
    let env ← envOf (← j.getObjVal? "env")
    let cfg := cfgOf (← j.getObjVal? "cfg")
    return Json.mkObj [("in", Json.bool (inD02 env f cfg ir)), ("hyp", Json.bool (docHyp env f cfg ir)),
      ("issues", Json.arr ((docIssues env f cfg ir).map (fun x => Json.arr #[Json.str x.1, Json.str x.2])).toArray)])
]
end Driver.C02
