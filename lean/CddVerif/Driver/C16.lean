import CddVerif.Driver.Basic
import CddVerif.Model.OpenApi
/-! Driver ops for C16 (line protocol; see Main.lean). Only Mathlib-free imports here.

Wire encoding of a `J` value (keeps dict order): `null`, `true/false`, integer, string as themselves;
float → `{"f": "<repr>"}`; list → `{"a": [...]}`; dict → `{"o": [[key, value], ...]}`. -/
namespace Driver.C16
open Lean Driver OpenApi

partial def dec (j : Json) : Except String J :=
  match j with
  | .null => pure .null
  | .bool b => pure (.bool b)
  | .str s => pure (.str s.toList)
  | .num n => if n.exponent == 0 then pure (.num n.mantissa) else throw "non-integer number on the wire"
  | .arr _ => throw "bare array on the wire"
  | .obj _ =>
    match j.getObjVal? "f" with
    | .ok (.str r) => pure (.flt r.toList)
    | _ =>
      match j.getObjVal? "a" with
      | .ok (.arr xs) => do return .arr (← xs.toList.mapM dec)
      | _ =>
        match j.getObjVal? "o" with
        | .ok (.arr kvs) => do
          let l ← kvs.toList.mapM (fun kv => match kv with
            | .arr #[.str k, v] => do return (k.toList, ← dec v)
            | _ => throw "bad pair")
          return .obj l
        | _ => throw "bad object on the wire"

partial def enc : J → Json
  | .null => .null
  | .bool b => .bool b
  | .num n => int n
  | .flt r => Json.mkObj [("f", str r)]
  | .str s => str s
  | .arr xs => Json.mkObj [("a", Json.arr (xs.map enc).toArray)]
  | .obj kvs => Json.mkObj [("o", Json.arr (kvs.map (fun kv => Json.arr #[str kv.1, enc kv.2])).toArray)]

def decDict (j : Json) : Except String Dict := do
  match ← dec j with
  | .obj kvs => pure kvs
  | _ => throw "dict expected"

def decEntry (j : Json) : Except String Entry := do
  let model ← match j.getObjVal? "model" with
    | .ok m => decDict m
    | .error _ => pure []
  return { name := ← getChars j "name", model := model, route := ← getChars j "route", id := ← getChars j "id",
           crud := ← getChars j "crud" }

def decKind (s : String) : Except String Kind :=
  match s with
  | "create" => pure .create
  | "read" => pure .read
  | "destroy" => pure .destroy
  | _ => throw "bad kind"

def pairs (l : List (Py.Str × Py.Str)) : Json := Json.arr (l.map (fun p => Json.arr #[str p.1, str p.2])).toArray

/-- the document together with the property's oracle evaluated on it by the model -/
def report (doc : J) : Json :=
  Json.mkObj [("doc", enc doc), ("closed", Json.bool (closedB doc)), ("dangling", strs (dangling doc)),
              ("params_ok", Json.bool (paramsDeclaredB doc)), ("ops", pairs (allOps doc))]

def exceptJson (r : Except PyErr Json) : Json :=
  match r with
  | .ok j => j
  | .error e => Json.mkObj [("raises", Json.str e.name)]

def ops : List (String × Handler) := [
  ("c16.emit", fun j => do
    let es ← (← getArr j "entries").toList.mapM decEntry
    return report (openapi es)),
  ("c16.requested", fun j => do
    let es ← (← getArr j "entries").toList.mapM decEntry
    return Json.mkObj [("ops", pairs (es.flatMap requested))]),
  ("c16.entities", fun j => do
    let s ← getChars j "s"
    return Json.mkObj [("entities", strs (extractEntities s))]),
  ("c16.parse", fun j => do
    let s ← getChars j "s"
    let loaded ← dec (← j.getObjVal? "loaded")
    let method ← getChars j "method"
    let summary ← getChars j "summary"
    let (s', ne) := rewriteRefs s
    return Json.mkObj [("replaced", str s'), ("non_error", optStr ne),
      ("result", exceptJson ((parseOpenapi s (fun _ => loaded) method summary).map enc))]),
  ("c16.payload", fun j => do
    let k ← decKind (← getStr j "kind")
    let name ← getChars j "name"
    return Json.mkObj [("direct", enc (templatePayload k name)), ("via", exceptJson ((payloadViaParse k name).map enc)),
                       ("yaml", str (templateYaml k name)), ("summary", str (templateSummary k name))]),
  ("c16.pk", fun j => do
    let ps ← (← getArr j "params").toList.mapM (fun p => match p with
      | .arr #[.str k, .str d] => pure (k.toList, some d.toList)
      | .arr #[.str k, .null] => pure (k.toList, (none : Option Py.Str))
      | _ => throw "bad param")
    return exceptJson ((pickPk ps).map (fun pk => Json.mkObj [("pk", str pk)]))),
  ("c16.bulk_key", fun j => do
    let t ← getChars j "table"
    return Json.mkObj [("key", str (bulkKey t))]),
  -- tables + routes files; a file is a list of upsert batches, a batch is one entry (name, route, id, crud)
  ("c16.bulk", fun j => do
    let decTable (t : Json) : Except String (Option Table) :=
      match t with
      | .null => pure none
      | t => do return some ({ name := ← getChars t "name", schema := ← decDict (← t.getObjVal? "schema") } : Table)
    let nodes ← (← getArr j "nodes").toList.mapM (fun n => do
      let tbl ← decTable ((n.getObjVal? "table").toOption.getD .null)
      if (← getStr n "kind") == "class" then
        let bases ← (← getArr n "bases").toList.mapM (fun b => do return (← b.getStr?).toList)
        return SrcNode.classDef bases tbl
      else
        let a1 := match n.getObjVal? "arg1" with
          | .ok (.str s) => some s.toList
          | _ => none
        return SrcNode.call (← getNat n "nargs") a1 tbl)
    let app ← getChars j "app"
    let files ← (← getArr j "files").toList.mapM (fun f => do
      let bs ← f.getArr?
      bs.toList.mapM (fun b => do return (← getChars b "app", ← decEntry b)))
    let routes := files.flatMap (fun batches => visibleRoutes (batches.map (fun b => genRoutes b.1 b.2)))
    return exceptJson ((bulkSrc app nodes routes).map report)),
  -- tables + explicit route functions (path, method, payload = what bottle() returned)
  ("c16.bulk_raw", fun j => do
    let ts ← (← getArr j "tables").toList.mapM (fun t => do
      return ({ name := ← getChars t "name", schema := ← decDict (← t.getObjVal? "schema") } : Table))
    let routes ← (← getArr j "routes").toList.mapM (fun r => do
      return ({ app := ← getChars r "app", path := ← getChars r "path", method := ← getChars r "method", payload := ← dec (← r.getObjVal? "payload") } : RouteFn))
    return exceptJson ((bulk (← getChars j "app") ts routes).map report))
]
end Driver.C16
