import CddVerif.Driver.Basic
/-! Driver ops for C16 (line protocol; see Main.lean). Only Mathlib-free imports here. -/
namespace Driver.C16
open Lean Driver

def ops : List (String × Handler) := []
end Driver.C16
