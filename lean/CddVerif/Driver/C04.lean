import CddVerif.Driver.Basic
import CddVerif.Model.EmitIface
import CddVerif.Model.EmitIfaceSpec
/-! Driver ops for C04 (line protocol; see Main.lean). Only Mathlib-free imports here.

* `c04.class`    IR + bases            → predicted attribute statements and `classAttrs`
* `c04.function` IR + cfg              → predicted `arguments(...)` record and `signature`
* `c04.argparse` IR + argvs + probes   → predicted `add_argument` keywords, actions, `parseArgs argv`, `accepts`
* `c04.describe` domain description    → `toIR`, `WF`, and the described interface (`describe…` of the spec file)
-/
namespace Driver.C04
open Lean Driver EmitIface

def field (j : Json) (k : String) : Except String Json := j.getObjVal? k
def kind (j : Json) : Except String String := do (← field j "k").getStr?
def isNull (j : Json) (k : String) : Bool := match j.getObjVal? k with | .ok .null => true | .error _ => true | _ => false

def constOf (j : Json) : Except String Const := do
  match (← kind j) with
  | "int" => return .int (← getInt j "v")
  | "float" => return .float (← getChars j "v")
  | "bool" => return .bool (← getBool j "v")
  | "str" => return .str (← getChars j "v")
  | "none" => return .none
  | "ellipsis" => return .ellipsis
  | k => throw s!"bad-const: {k}"

def constJ : Const → Json
  | .int i => Json.mkObj [("k", "int"), ("v", int i)]
  | .float r => Json.mkObj [("k", "float"), ("v", str r)]
  | .bool b => Json.mkObj [("k", "bool"), ("v", Json.bool b)]
  | .str s => Json.mkObj [("k", "str"), ("v", str s)]
  | .none => Json.mkObj [("k", "none")]
  | .ellipsis => Json.mkObj [("k", "ellipsis")]

partial def texprOf (j : Json) : Except String TExpr := do
  match (← kind j) with
  | "name" => return .name (← getChars j "id")
  | "const" => return .const (← constOf (← field j "c"))
  | "sub" => return .sub (← texprOf (← field j "value")) (← texprOf (← field j "slice"))
  | "tuple" => return .tuple (← (← getArr j "elts").toList.mapM texprOf)
  | "attr" => return .attr (← texprOf (← field j "value")) (← getChars j "attr")
  | "list" => return .list (← (← getArr j "elts").toList.mapM texprOf)
  | "binop" => return .binop (← texprOf (← field j "left")) (← texprOf (← field j "right"))
  | k => throw s!"bad-texpr: {k}"

partial def texprJ : TExpr → Json
  | .name i => Json.mkObj [("k", "name"), ("id", str i)]
  | .const c => Json.mkObj [("k", "const"), ("c", constJ c)]
  | .sub v s => Json.mkObj [("k", "sub"), ("value", texprJ v), ("slice", texprJ s)]
  | .tuple es => Json.mkObj [("k", "tuple"), ("elts", Json.arr (es.map texprJ).toArray)]
  | .attr v a => Json.mkObj [("k", "attr"), ("value", texprJ v), ("attr", str a)]
  | .list es => Json.mkObj [("k", "list"), ("elts", Json.arr (es.map texprJ).toArray)]
  | .binop l r => Json.mkObj [("k", "binop"), ("left", texprJ l), ("right", texprJ r)]

def codeEvalOf (j : Json) : Except String CodeEval := do
  match (← kind j) with
  | "scalar" => return .scalar (← constOf (← field j "c"))
  | "emptySeq" => return .emptySeq
  | "single" => return .single (← constOf (← field j "c"))
  | "multi" => return .multi (← getChars j "json")
  | "opaque" => return .opaque (← getChars j "unparsed")
  | k => throw s!"bad-codeeval: {k}"

/-- the invariants of `Default` are enforced here: a `str` must not be code-quoted, a `code` must not be `(None)` -/
def defaultOf (j : Json) : Except String Default := do
  match (← kind j) with
  | "int" => return .int (← getInt j "v")
  | "float" => return .float (← getChars j "v")
  | "bool" => return .bool (← getBool j "v")
  | "str" =>
    let s ← getChars j "v"
    if codeQuoted s then throw "bad-default: code-quoted str" else return .str s
  | "nonestr" => return .none
  | "code" =>
    let src ← getChars j "src"
    if src == sParenNone || src.isEmpty then throw "bad-default: code (None)" else
    return .code src (← codeEvalOf (← field j "ev"))
  | k => throw s!"bad-default: {k}"

def paramOf (j : Json) : Except String Param := do
  let typ ← if isNull j "typ" then pure none else (do return some (← texprOf (← field j "typ")))
  let dflt ← if isNull j "default" then pure none else (do return some (← defaultOf (← field j "default")))
  return { name := ← getChars j "name", typ, doc := ← getChars j "doc", default := dflt }

def irOf (j : Json) : Except String IR := do
  let ps ← (← getArr j "params").toList.mapM paramOf
  let ret ← if isNull j "returns" then pure none else (do return some (← paramOf (← field j "returns")))
  return { name := ← getChars j "name", doc := ← getChars j "doc", params := ps, returns := ret }

def valJ : Val → Json
  | .c c => Json.mkObj [("k", "const"), ("c", constJ c)]
  | .expr s => Json.mkObj [("k", "expr"), ("src", str s)]
def optJ {α} (f : α → Json) : Option α → Json | none => Json.null | some a => f a
def pairsJ {α} (f : α → Json) (l : List (Py.Str × α)) : Json :=
  Json.arr (l.map (fun kv => Json.arr #[str kv.1, f kv.2])).toArray
def exceptJ {α} (f : α → Json) : Except String α → Json
  | .ok a => Json.mkObj [("ok", f a)]
  | .error e => Json.mkObj [("error", Json.str e)]

def stmtJ : ClassStmt → Json
  | .annAssign n a v => Json.mkObj [("k", "annassign"), ("name", str n), ("ann", texprJ a), ("value", optJ valJ v)]
  | .assign n v => Json.mkObj [("k", "assign"), ("name", str n), ("value", valJ v)]
def classSemJ (s : ClassSem) : Json :=
  Json.mkObj [("annotations", pairsJ texprJ s.annotations), ("values", pairsJ valJ s.values)]
def argRecJ (a : ArgRec) : Json := Json.mkObj [("name", str a.name), ("ann", optJ texprJ a.ann)]
def funcRecJ (f : FuncRec) : Json :=
  Json.mkObj [("name", str f.name), ("args", Json.arr (f.args.map argRecJ).toArray),
    ("defaults", Json.arr (f.defaults.map valJ).toArray), ("kwonly", Json.arr (f.kwonly.map argRecJ).toArray),
    ("kwDefaults", Json.arr (f.kwDefaults.map valJ).toArray), ("kwarg", optStr f.kwarg), ("returns", optJ texprJ f.returns)]
def kindJ : Kind → Json | .positional => "positional" | .kwOnly => "kwonly" | .varKw => "varkw"
def sigParamJ (p : SigParam) : Json :=
  Json.mkObj [("name", str p.name), ("kind", kindJ p.kind), ("ann", optJ texprJ p.ann), ("default", optJ valJ p.default)]
def funcSemJ (s : FuncSem) : Json :=
  Json.mkObj [("params", Json.arr (s.params.map sigParamJ).toArray), ("returns", optJ texprJ s.returns)]
def constsJ (cs : List Const) : Json := Json.arr (cs.map constJ).toArray
def addArgJ (a : AddArg) : Json :=
  Json.mkObj [("flag", str a.flag), ("type", optStr a.type), ("choices", optJ constsJ a.choices), ("action", optStr a.action),
    ("help", optStr a.help), ("required", Json.bool a.required), ("default", optJ constJ a.default)]
def convJ : Conv → Json | .int => "int" | .float => "float" | .bool => "bool" | .str => "str"
def actionJ (a : Action) : Json :=
  Json.mkObj [("dest", str a.dest), ("conv", convJ a.conv), ("choices", optJ constsJ a.choices), ("default", optJ constJ a.default),
    ("required", Json.bool a.required), ("help", optStr a.help), ("append", Json.bool a.append)]
def rvalJ : RVal → Json
  | .one c => Json.mkObj [("one", constJ c)]
  | .many cs => Json.mkObj [("many", constsJ cs)]
def nsJ (l : List (Py.Str × RVal)) : Json := pairsJ rvalJ l

def funcCfgOf (j : Json) : Except String FuncCfg := do
  let ft := match j.getObjVal? "functionType" with | .ok (.str s) => some s.toList | _ => none
  return { typeAnnotations := ← getBool j "typeAnnotations", kwOnly := ← getBool j "kwOnly", functionType := ft }

/-! ### domain descriptions -/
def scalarOf (s : String) : Except String Scalar :=
  match s with
  | "int" => pure .int | "float" => pure .float | "bool" => pure .bool | "str" => pure .str
  | k => throw s!"bad-scalar: {k}"
def litMOf (j : Json) : Except String LitM := do
  match (← kind j) with
  | "s" => return .s (← getChars j "v")
  | "i" => return .i (← getInt j "v")
  | k => throw s!"bad-litm: {k}"
def litMsOf (j : Json) : Except String (LitM × List LitM) := do
  let ms ← (← getArr j "members").toList.mapM litMOf
  match ms with
  | m :: rest => return (m, rest)
  | [] => throw "bad-literal: no members"
def dtypOf (j : Json) : Except String DTyp := do
  match (← kind j) with
  | "scalar" => return .scalar (← scalarOf (← getStr j "s"))
  | "optional" => return .optional (← scalarOf (← getStr j "s"))
  | "union" =>
    let ms ← (← getArr j "members").toList.mapM (fun x => do scalarOf (← x.getStr?))
    match ms with
    | a :: rest => return .union a rest
    | [] => throw "bad-union"
  | "list" => return .list (← scalarOf (← getStr j "s"))
  | "literal" => let (m, ms) ← litMsOf j; return .literal m ms
  | "optLiteral" => let (m, ms) ← litMsOf j; return .optLiteral m ms
  | "annotated" => return .annotated (← scalarOf (← getStr j "s")) (← getChars j "note")
  | "tupleEllipsis" => return .tupleEllipsis (← scalarOf (← getStr j "s"))
  | "callableEllipsis" => return .callableEllipsis (← scalarOf (← getStr j "s"))
  | k => throw s!"bad-dtyp: {k}"
def ddefaultOf (j : Json) : Except String DDefault := do
  match (← kind j) with
  | "int" => return .int (← getInt j "v")
  | "float" => return .float (← getChars j "v")
  | "bool" => return .bool (← getBool j "v")
  | "str" => return .str (← getChars j "v")
  | "none" => return .none
  | k => throw s!"bad-ddefault: {k}"
def dparamOf (j : Json) : Except String DParam := do
  let dflt ← if isNull j "default" then pure none else (do return some (← ddefaultOf (← field j "default")))
  return { name := ← getChars j "name", typ := ← dtypOf (← field j "typ"), doc := ← getChars j "doc", default := dflt }
def dirOf (j : Json) : Except String DIR := do
  let ps ← (← getArr j "params").toList.mapM dparamOf
  let ret ← if isNull j "returns" then pure none else (do
    let r ← field j "returns"
    return some (← dtypOf (← field r "typ"), ← getChars r "doc"))
  return { name := ← getChars j "name", doc := ← getChars j "doc", params := ps, returns := ret }

def defaultJ : Default → Json
  | .int i => Json.mkObj [("k", "int"), ("v", int i)]
  | .float r => Json.mkObj [("k", "float"), ("v", str r)]
  | .bool b => Json.mkObj [("k", "bool"), ("v", Json.bool b)]
  | .str s => Json.mkObj [("k", "str"), ("v", str s)]
  | .none => Json.mkObj [("k", "nonestr")]
  | .code src _ => Json.mkObj [("k", "code"), ("src", str src)]
def paramJ (p : Param) : Json :=
  Json.mkObj [("name", str p.name), ("typ", optJ texprJ p.typ), ("doc", str p.doc), ("default", optJ defaultJ p.default)]
def irJ (ir : IR) : Json :=
  Json.mkObj [("name", str ir.name), ("doc", str ir.doc), ("params", Json.arr (ir.params.map paramJ).toArray),
    ("returns", optJ paramJ ir.returns)]

def tokOf (j : Json) : Except String (Py.Str × Tok) := do
  let a ← j.getArr?
  return ((← a[0]!.getStr?).toList, classify (← a[1]!.getStr?).toList)

def ops : List (String × Handler) := [
  ("c04.class", fun j => do
    let ir ← irOf (← field j "ir")
    let bases := (← getArr j "bases").toList.filterMap (fun b => (b.getStr?).toOption.map String.toList)
    match emitClass bases ir with
    | .error e => return Json.mkObj [("error", Json.str e)]
    | .ok c => return Json.mkObj [("name", str c.name), ("bases", strs c.bases),
        ("body", Json.arr (c.body.map stmtJ).toArray), ("sem", classSemJ (classAttrs c))]),
  ("c04.function", fun j => do
    let ir ← irOf (← field j "ir")
    let cfg ← funcCfgOf (← field j "cfg")
    let f := emitFunction cfg ir
    return Json.mkObj [("rec", funcRecJ f), ("sig", exceptJ funcSemJ (signature f))]),
  ("c04.argparse", fun j => do
    let ir ← irOf (← field j "ir")
    let argvs ← (← getArr j "argvs").toList.mapM (fun av => do (← av.getArr?).toList.mapM tokOf)
    let probes ← (← getArr j "probes").toList.mapM (fun p => do
      let a ← p.getArr?
      return ((← a[0]!.getNat?), (← a[1]!.getStr?).toList))
    match emitArgparse ir with
    | .error e => return Json.mkObj [("error", Json.str e)]
    | .ok adds =>
      match mapE actionOf adds with
      | .error e => return Json.mkObj [("adds", Json.arr (adds.map addArgJ).toArray), ("actions", Json.mkObj [("error", Json.str e)])]
      | .ok acts =>
        return Json.mkObj [("adds", Json.arr (adds.map addArgJ).toArray),
          ("actions", Json.mkObj [("ok", Json.arr (acts.map actionJ).toArray)]),
          ("parses", Json.arr (argvs.map (fun av => exceptJ nsJ (parseArgs acts av))).toArray),
          ("accepts", Json.arr (probes.map (fun p => match acts[p.1]? with
              | some a => Json.bool (accepts a p.2)
              | none => Json.null)).toArray)]),
  ("c04.describe", fun j => do
    let d ← dirOf (← field j "ir")
    let cfg ← funcCfgOf (← field j "cfg")
    let probes ← (← getArr j "probes").toList.mapM (fun p => do
      let a ← p.getArr?
      return ((← a[0]!.getNat?), (← a[1]!.getStr?).toList))
    return Json.mkObj [("ir", irJ d.toIR), ("wf", Json.bool d.WF),
      ("class", classSemJ (describeClass d)), ("sig", funcSemJ (describeSig cfg d)),
      ("actions", Json.arr (d.params.map (fun p => Json.mkObj [("dest", str p.name), ("required", Json.bool (describedRequired p)),
          ("default", optJ constJ (describedDefault p)), ("choices", optJ constsJ (describedChoices p.typ)),
          ("help", optStr (describedHelp p)), ("cli", Json.bool p.typ.cli), ("append", Json.bool p.typ.isList)])).toArray),
      ("parse_empty", exceptJ nsJ (describedParseEmpty d)),
      ("legal", Json.arr (probes.map (fun p => match d.params[p.1]? with
          | some q => Json.bool (q.typ.legalTok (classify p.2))
          | none => Json.null)).toArray)])
]
end Driver.C04
