import CddVerif.Driver.Basic
/-! Driver ops for C04 (line protocol; see Main.lean). Only Mathlib-free imports here. -/
namespace Driver.C04
open Lean Driver

def ops : List (String × Handler) := []
end Driver.C04
