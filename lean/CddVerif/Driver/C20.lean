import CddVerif.Driver.Basic
/-! Driver ops for C20 (line protocol; see Main.lean). Only Mathlib-free imports here. -/
namespace Driver.C20
open Lean Driver

def ops : List (String × Handler) := []
end Driver.C20
