import CddVerif.Driver.Basic
import CddVerif.Model.Exmod
/-! Driver ops for C20 (line protocol; see Main.lean). Only Mathlib-free imports here. -/
namespace Driver.C20
open Lean Driver Exmod

def optChars (j : Json) (k : String) : Option (List Char) :=
  match j.getObjVal? k with
  | .ok (.str s) => some s.toList
  | _ => none

def strList (j : Json) (k : String) : Except String (List (List Char)) := do
  let a ← getArr j k
  a.toList.mapM (fun x => do return (← x.getStr?).toList)

def emitKindOf : String → Except String EmitKind
  | "argparse" => pure .argparse
  | "class" => pure .class_
  | "function" => pure .function
  | "json_schema" => pure .jsonSchema
  | "pydantic" => pure .pydantic
  | "sqlalchemy" => pure .sqlalchemy
  | "sqlalchemy_table" => pure .sqlalchemyTable
  | "sqlalchemy_hybrid" => pure .sqlalchemyHybrid
  | s => throw s!"unknown emit kind {s}"

def importOf (j : Json) : Except String ImportFrom := do
  let names ← getArr j "names"
  let ns ← names.toList.mapM (fun p => do
    let a ← p.getArr?
    let n ← a[0]!.getStr?
    let asn := match a[1]! with | .str s => some s.toList | _ => none
    return (n.toList, asn))
  return { module := optChars j "module", names := ns, level := (getNat j "level").toOption.getD 0 }

def stmtOf (j : Json) : Except String Stmt := do
  match (← getStr j "k") with
  | "def" => return .def_ (← getChars j "name")
  | "from" => return .from_ (← importOf j)
  | "all" => return .all_ (← strList j "names")
  | _ => return .other

def fsOf (j : Json) : Except String FS := do
  let dirs ← strList j "dirs"
  let files ← (← getArr j "files").toList.mapM (fun f => do
    let body ← (← getArr f "body").toList.mapM stmtOf
    let walk ← (← getArr f "walk").toList.mapM importOf
    return ((← getChars f "path"), ({ body := body, walk := walk } : PyFile)))
  return { dirs := dirs, files := files }

def cfgOf (j : Json) : Except String Cfg := do
  let emits ← (← getArr j "emit").toList.mapM (fun x => do emitKindOf (← x.getStr?))
  return { emitNames := emits, module := (← getChars j "module"), blacklist := (← strList j "blacklist"),
           whitelist := (← strList j "whitelist"), out := (← getChars j "out"), target := optChars j "target",
           sqlSub := (← getBool j "sqlsub"), recursive := (← getBool j "recursive"), dryRun := (← getBool j "dry_run") }

def envOf (j : Json) : Except String Env := do
  let specs ← (← getArr j "specs").toList.mapM (fun p => do
    let a ← p.getArr?
    return ((← a[0]!.getStr?).toList, (← a[1]!.getStr?).toList))
  return { specs := specs, allPackages := (← strList j "packages") }

def effectJson : Effect → Json
  | .print s => Json.arr #[Json.str "print", str s]
  | .mkdir p => Json.arr #[Json.str "mkdir", str p]
  | .openA p => Json.arr #[Json.str "open-a", str p]
  | .openW p => Json.arr #[Json.str "open-w", str p]

def errName : Err → String
  | .assertion => "AssertionError"
  | .moduleNotFound => "ModuleNotFoundError"
  | .typeError => "TypeError"
  | .fileNotFound => "FileNotFoundError"
  | .fileExists => "FileExistsError"
  | .attributeError => "AttributeError"
  | .notADirectory => "NotADirectoryError"

def ops : List (String × Handler) := [
  /- the model's trace for a JSON-described file system + configuration -/
  ("c20.trace", fun j => do
    let cfg ← cfgOf (← j.getObjVal? "cfg")
    let env ← envOf (← j.getObjVal? "env")
    let fs ← fsOf (← j.getObjVal? "fs")
    let r := run cfg env fs
    let status := match r.val with | .ok _ => "ok" | .error e => "raises:" ++ errName e
    return Json.mkObj [("trace", Json.arr (r.trace.map effectJson).toArray), ("status", Json.str status),
                       ("dirs", strs r.fs.dirs), ("files", strs (r.fs.files.map (·.1))),
                       -- the domain of `C20.confined_partial` and what it is made of
                       ("in_domain", Json.bool (inDomain cfg env fs)),
                       ("items", nat r.items.length), ("items_not_ok", nat (r.items.filter (fun it => !itemOk it)).length),
                       ("out_is_module", Json.bool (Py.endsWith (Py.replace cfg.out ['/'] ['.']) cfg.newModuleName)),
                       ("all_under_out", Json.bool (r.trace.all (fun e => match e.target? with
                                                                          | some p => underB cfg.out p
                                                                          | none => true)))]),
  /- the gate of `exmod_single_folder` alone -/
  ("c20.gate", fun j => do
    let mp := modPathOf (← getChars j "module_root") (← getChars j "module_name")
    return Json.mkObj [("mod_path", str mp),
                       ("proceed", Json.bool (proceed (← strList j "blacklist") (← strList j "whitelist") mp))])
]
end Driver.C20
