import CddVerif.Driver.Basic
/-! Driver ops for C03 (line protocol; see Main.lean). Only Mathlib-free imports here. -/
namespace Driver.C03
open Lean Driver

def ops : List (String × Handler) := []
end Driver.C03
