import CddVerif.Driver.Basic
/-! Driver ops for C17 (line protocol; see Main.lean). Only Mathlib-free imports here. -/
namespace Driver.C17
open Lean Driver

def ops : List (String × Handler) := []
end Driver.C17
