import CddVerif.Driver.Basic
import CddVerif.Model.Adhoc
/-! Driver ops for C17 (line protocol; see Main.lean). Only Mathlib-free imports here. -/
namespace Driver.C17
open Lean Driver Adhoc

def ops : List (String × Handler) := [
  /- parse_adhoc_doc_for_typ(doc, name, default_is_none) → {"typ": str | null} | {"raises": class name} -/
  ("c17.adhoc", fun j => do
    let doc ← getChars j "doc"
    let name := (getChars j "name").toOption.getD []
    let b := (getBool j "none").toOption.getD false
    match adhocStr doc name b with
    | .ok r => return Json.mkObj [("typ", optStr r)]
    | .error e => return Json.mkObj [("raises", Json.str e)]),
  /- _parse_adhoc_doc_for_typ_phase0(doc, words) → words (after the call), candidate_type, fst_sentence, sentence -/
  ("c17.phase0", fun j => do
    let doc ← getChars j "doc"
    let (words, cand, fst, sent) := phase0 doc
    return Json.mkObj [("words", strs (words.map v)), ("cand", optStr (cand.map v)), ("fst", str (v fst)), ("sentence", optStr (sent.map v))]),
  /- SafeAlphabet membership of every character of a string (the model's `safeC`), with the offending characters -/
  ("c17.safe", fun j => do
    let s ← getChars j "s"
    return Json.mkObj [("safe", Json.bool (s.all safeC)), ("bad", str (s.filter (fun c => !safeC c)))]),
  /- the model's constants survive `S` unchanged -/
  ("c17.constants", fun _ => do
    return Json.mkObj [("lossless", Json.bool constantsLossless), ("n", nat resultConstants.length)])
]
end Driver.C17
