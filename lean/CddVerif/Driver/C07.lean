import CddVerif.Driver.Basic
/-! Driver ops for C07 (line protocol; see Main.lean). Only Mathlib-free imports here. -/
namespace Driver.C07
open Lean Driver

def ops : List (String × Handler) := []
end Driver.C07
