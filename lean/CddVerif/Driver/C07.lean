import CddVerif.Driver.Basic
import CddVerif.Driver.C09
import CddVerif.Model.DocTransCst
import CddVerif.Model.DocTransAst
import CddVerif.Py.AstJson
/-! Driver ops for C07 (line protocol; see Main.lean). Only Mathlib-free imports here. -/
namespace Driver.C07
open Lean Driver DocTransCst

def optChars (j : Json) (k : String) : Option (List Char) :=
  match j.getObjVal? k with | .ok (.str s) => some s.toList | _ => none

def hargOf (j : Json) : HArg := { name := (optChars j "name").getD [], ann := optChars j "ann" }
def hargList (j : Json) (k : String) : List HArg :=
  match j.getObjVal? k with | .ok (.arr a) => a.toList.map hargOf | _ => []
def optHArg (j : Json) (k : String) : Option HArg :=
  match j.getObjVal? k with | .ok (.obj o) => some (hargOf (.obj o)) | _ => none
def hargsOf (j : Json) : HArgs :=
  { posonly := hargList j "posonly", args := hargList j "args", vararg := optHArg j "vararg", kwonly := hargList j "kwonly",
    kwDefaults := (match j.getObjVal? "kw_defaults" with
      | .ok (.arr a) => a.toList.map (fun x => match x with | .str s => some s.toList | _ => none) | _ => []),
    kwarg := optHArg j "kwarg",
    defaults := (match j.getObjVal? "defaults" with
      | .ok (.arr a) => a.toList.filterMap (fun x => match x with | .str s => some s.toList | _ => none) | _ => []) }
def sigOf (j : Json) : Sig :=
  { args := (match j.getObjVal? "args" with | .ok a => hargsOf a | _ => {}), returns := optChars j "returns" }

def body0Of (j : Json) : Body0 :=
  match j.getObjVal? "t" >>= Json.getStr? with
  | .ok "noBody" => .noBody
  | .ok "notExpr" => .notExpr
  | .ok "nonConst" => .nonConst
  | .ok "str" => .str ((optChars j "s").getD [])
  | .ok "none" => .noneConst
  | .ok "falsy" => .falsy
  | .ok "truthy" => .truthy ((j.getObjVal? "bytes" >>= Json.getBool?).toOption.getD false)
  | _ => .notExpr

def editOf (j : Json) : Except String FnEdit := do
  let kind ← match (← getStr j "kind") with
    | "cls" => pure DefKind.cls | "fn" => pure DefKind.fn | "async" => pure DefKind.asyncFn
    | k => throw s!"bad kind {k}"
  return { kind := kind, name := ← getChars j "name", lineno := ← getNat j "lineno",
           body0 := (match j.getObjVal? "body0" with | .ok b => body0Of b | _ => .notExpr), sig := sigOf j }

def nodeOf (j : Json) : Except String Cst.Node := do
  let ob := fun (k : String) => match j.getObjVal? k with | .ok (.bool b) => some b | _ => none
  return { kind := ← getStr j "kind", start := ← getNat j "start", stop := ← getNat j "stop", value := ← getChars j "value",
           name := optChars j "name", isDoubleQ := ob "is_double_q", isDocstr := ob "is_docstr" }

/-- header-parse oracle from a table `[{"key": text, "sig": {...}} | {"key": text, "error": cls}]`;
    a missing key is reported as `oracle-miss:<key>` so that the harness can supply it and retry -/
def parserOf (j : Json) : Except String HeaderParser := do
  let tbl ← (match j.getObjVal? "parses" with | .ok (.arr a) => pure a.toList | _ => pure [])
  let entries : List (List Char × Except Err Sig) ← tbl.mapM (fun e => do
    let k ← getChars e "key"
    match e.getObjVal? "error" with
    | .ok (.str x) => pure (k, Except.error x)
    | _ => pure (k, Except.ok (sigOf (← e.getObjVal? "sig"))))
  return fun key =>
    match entries.find? (·.1 == key) with
    | some (_, r) => r
    | none => .error ("oracle-miss:" ++ String.ofList key)

def inputNodes (j : Json) : Except String (List Cst.Node) := do
  match j.getObjVal? "nodes" with
  | .ok (.arr a) => a.toList.mapM nodeOf
  | _ => return Cst.cstParse (← getChars j "src")

def editsOf (j : Json) : Except String (List FnEdit) := do
  (← getArr j "edits").toList.mapM editOf

def effectJson : Effect → Json
  | .openRead => Json.arr #["open", "rt"]
  | .read => Json.arr #["read"]
  | .closeRead => Json.arr #["close", "rt"]
  | .print l => Json.arr #["print", str l]
  | .openWrite => Json.arr #["open", "wt"]
  | .write s => Json.arr #["write", str s]
  | .closeWrite => Json.arr #["close", "wt"]

def hargJ (a : HArg) : Json := Json.mkObj [("name", str a.name), ("ann", optStr a.ann)]

/-- oracle of the AST-level model from tables keyed by the dotted path -/
def astOracleOf (j : Json) : DocTransAst.Oracle :=
  let key (p : List String) : String := ".".intercalate p
  let tbl (k : String) : Json := match j.getObjVal? k with | .ok t => t | _ => Json.mkObj []
  let docs := tbl "new_doc"
  let ptys := tbl "param_typ"
  let rtys := tbl "return_typ"
  { newDoc := fun p _ => match docs.getObjVal? (key p) with | .ok (.str s) => some s | _ => none,
    paramTyp := fun p n => match ptys.getObjVal? (key p) with
      | .ok t => (match t.getObjVal? n with | .ok (.str s) => some s | _ => none)
      | _ => none,
    returnTyp := fun p => match rtys.getObjVal? (key p) with | .ok (.str s) => some (some s) | .ok .null => some none | _ => none,
    annTyp := fun _ _ a => a,
    assignTyp := fun _ _ => none }

def ops : List (String × Handler) := [
  /- nodes (or src → cst_parse) + edits + header parses → new nodes / joined text / debug lines, or the exception -/
  ("c07.splice", fun j => do
    let nodes ← inputNodes j
    let edits ← editsOf j
    let parse ← parserOf j
    let r := doctransifyLoop parse nodes edits
    match r.2 with
    | .ok ns => return Json.mkObj [("out", str (joinValues ns)), ("nodes", Json.arr (ns.map Driver.C09.nodeJson).toArray), ("log", strs r.1)]
    | .error x => return Json.mkObj [("raises", Json.str x), ("log", strs r.1)]),
  /- the whole `doctrans` as an effect trace -/
  ("c07.doctrans", fun j => do
    let parse ← parserOf j
    let file : Except Err (List Char) ← (match j.getObjVal? "read_error" with
      | .ok (.str x) => pure (Except.error x)
      | _ => do pure (Except.ok (← getChars j "src")))
    let stage : Except Err (Bool × List FnEdit) ← (match j.getObjVal? "ast_error" with
      | .ok (.str x) => pure (Except.error x)
      | _ => do pure (Except.ok (← getBool j "changed", ← editsOf j)))
    let w : World := { astStage := fun _ => stage, parseHeader := parse }
    let r := doctrans w file
    let before := match file with | .ok s => s | .error _ => []
    return Json.mkObj [("trace", Json.arr (r.1.map effectJson).toArray),
      ("result", match r.2 with | .ok _ => Json.str "ok" | .error x => Json.str ("raises:" ++ x)),
      ("file_after", str (fileAfter before r.1))]),
  ("c07.unparse_args", fun j => do
    let a := hargsOf (← j.getObjVal? "args")
    return Json.mkObj [("r", str (unparseArgs a)), ("synth", str (synthArgs a.args))]),
  ("c07.reindent", fun j => do
    return Json.mkObj [("r", str (reindentWithPass (← getChars j "s")))]),
  ("c07.locate", fun j => do
    let v ← getChars j "s"
    let (a, b) := locateParens v
    return Json.mkObj [("pre", str a), ("post", str b)]),
  /- AST-level `DocTrans` on the flat AST with the decisions read off the real output -/
  ("c07.doctrans_ast", fun j => do
    let m := PyAst.moduleOf (← j.getObjVal? "module")
    let ta ← getBool j "type_annotations"
    match DocTransAst.docTrans (astOracleOf j) ta m with
    | .ok m' => return Json.mkObj [("module", PyAst.moduleJ m'), ("erased", PyAst.moduleJ (DocTransAst.erase m')),
                                   ("erased_in", PyAst.moduleJ (DocTransAst.erase m))]
    | .error x => return Json.mkObj [("raises", Json.str x)])
]
end Driver.C07
