import CddVerif.Driver.Basic
/-! Driver ops for C06 (line protocol; see Main.lean). Only Mathlib-free imports here. -/
namespace Driver.C06
open Lean Driver

def ops : List (String × Handler) := []
end Driver.C06
