import CddVerif.Driver.Basic
import CddVerif.Model.JsonSchema
/-! Driver ops for C06 (line protocol; see Main.lean). Only Mathlib-free imports here.

Wire encoding of a JSON value (ordered objects, ints and floats kept apart): scalars `null` / `true` / `"s"` / `5`
as themselves, a float as `["f", "<repr>"]`, an array as `["a", [..]]`, an object as `["o", [[key, value], ..]]`. -/
namespace Driver.C06
open Lean Driver JsonSchema

partial def ofWire (j : Json) : Except String J :=
  match j with
  | .null => pure .null
  | .bool b => pure (.bool b)
  | .str s => pure (.str s.toList)
  | .num n => if n.exponent == 0 then pure (.int n.mantissa) else throw "non-integer number on the wire"
  | .arr a =>
    match a.toList with
    | [.str "f", .str r] => pure (.float r.toList)
    | [.str "a", .arr xs] => do return .arr (← xs.toList.mapM ofWire)
    | [.str "o", .arr kvs] => do
      let l ← kvs.toList.mapM (fun kv => match kv with
        | .arr p => match p.toList with
          | [.str k, v] => do return (k.toList, ← ofWire v)
          | _ => throw "bad pair"
        | _ => throw "bad pair")
      return .obj l
    | _ => throw "bad compound"
  | .obj _ => throw "raw object on the wire"

partial def toWire : J → Json
  | .null => .null
  | .bool b => .bool b
  | .int i => Driver.int i
  | .float r => .arr #[.str "f", Driver.str r]
  | .str s => Driver.str s
  | .arr xs => .arr #[.str "a", .arr (xs.map toWire).toArray]
  | .obj kvs => .arr #[.str "o", .arr (kvs.map (fun kv => Json.arr #[Driver.str kv.1, toWire kv.2])).toArray]

def optField (j : Json) (k : String) : Option Json :=
  match j.getObjVal? k with
  | .ok .null => none
  | .ok v => some v
  | .error _ => none

def baseOf (s : String) : Except String Base :=
  match s with
  | "int" => pure .int | "float" => pure .float | "str" => pure .str | "bool" => pure .bool
  | "dict" => pure .dict | "list" => pure .list
  | _ => throw s!"unknown base {s}"

def typOf (j : Json) : Except String Typ := do
  let opt ← getBool j "opt"
  match optField j "lit" with
  | some (.arr ms) => do
    let l ← ms.toList.mapM (fun m => do return (← m.getStr?).toList)
    return { optional := opt, core := .lit l }
  | _ => do
    let b ← baseOf (← getStr j "base")
    return { optional := opt, core := .base b }

def defaultOf (j : Json) : Except String Default :=
  match j with
  | .arr a => match a.toList with
    | [.str "i", v] => do return .int (← v.getInt?)
    | [.str "f", .str r] => pure (.float r.toList)
    | [.str "b", .bool b] => pure (.bool b)
    | [.str "s", .str s] => pure (.str s.toList)
    | [.str "n"] => pure .none
    | _ => throw "bad default"
  | _ => throw "bad default"

def optStrOf (j : Json) (k : String) : Except String (Option Py.Str) :=
  match optField j k with
  | some v => do return some (← v.getStr?).toList
  | none => pure none

def irOf (j : Json) : Except String IR := do
  let name ← optStrOf j "name"
  let doc ← getChars j "doc"
  let ps ← getArr j "params"
  let params ← ps.toList.mapM (fun kv => do
    let p ← kv.getArr?
    let n ← p[0]!.getStr?
    let v := p[1]!
    let typ ← typOf (← v.getObjVal? "typ")
    let d ← optStrOf v "doc"
    let dflt ← match optField v "default" with
      | some x => do pure (some (← defaultOf x))
      | none => pure none
    return (n.toList, ({ typ := typ, doc := d, default := dflt } : Param)))
  let ret ← match optField j "returns" with
    | some r => do
      let typ ← typOf (← r.getObjVal? "typ")
      let d ← optStrOf r "doc"
      pure (some ({ typ := typ, doc := d } : Ret))
    | none => pure none
  return { name := name, doc := doc, params := params, returns := ret }

def optJ : Option J → Json
  | none => .arr #[]
  | some v => .arr #[toWire v]

def pirJson (p : PIR) : Json :=
  Json.mkObj [
    ("name", optJ p.name),
    ("doc", Driver.str p.doc),
    ("params", .arr (p.params.map (fun np => Json.arr #[Driver.str np.1, Json.mkObj [
        ("typ", optStr np.2.typ), ("doc", optJ np.2.doc), ("default", optJ np.2.default),
        ("extra", toWire (.obj np.2.extra))]])).toArray),
    ("returns", match p.returns with
      | none => .null
      | some r => Json.mkObj [("typ", optStr r.typ), ("doc", optStr r.doc)])]

def pairs (t : List (List Char × List Char)) : Json :=
  .arr (t.map (fun kv => Json.arr #[Driver.str kv.1, Driver.str kv.2])).toArray

def ops : List (String × Handler) := [
  ("c06.emit", fun j => do
    let ir ← irOf (← j.getObjVal? "ir")
    return Json.mkObj [
      (match emit ir with | .ok s => ("schema", toWire s) | .error e => ("raises", Driver.str e)),
      ("typs", strs (ir.params.map (fun np => np.2.typ.render))),
      ("ret_typ", optStr (ir.returns.map (fun r => r.typ.render))),
      ("in_domain", .bool ir.ok),
      ("nodup", .bool (decide (ir.params.map (·.1)).Nodup))]),
  ("c06.parse", fun j => do
    let s ← ofWire (← j.getObjVal? "schema")
    match parse s with
    | .ok p => return Json.mkObj [("ok", pirJson p)]
    | .error e => return Json.mkObj [("raises", Driver.str e)]),
  ("c06.roundtrip", fun j => do
    let ir ← irOf (← j.getObjVal? "ir")
    match emit ir with
    | .error e => return Json.mkObj [("raises", Driver.str e)]
    | .ok s =>
    match parse s with
    | .ok p => return Json.mkObj [("ok", pirJson p)]
    | .error e => return Json.mkObj [("raises", Driver.str e)]),
  ("c06.valid", fun j => do
    let s ← ofWire (← j.getObjVal? "schema")
    return Json.mkObj [("valid", .bool (validSchema s))]),
  ("c06.validates", fun j => do
    let s ← ofWire (← j.getObjVal? "schema")
    let i ← ofWire (← j.getObjVal? "inst")
    return Json.mkObj [("valid", .bool (validates s i))]),
  ("c06.pat", fun j => do
    let p ← getChars j "pat"
    let s ← getChars j "s"
    return Json.mkObj [("accepts", .bool (patAccepts p s))]),
  ("c06.desc", fun j => do
    let s ← getChars j "s"
    let (d, r) := parseDesc s
    return Json.mkObj [("doc", Driver.str d), ("returns", match r with
      | none => .null
      | some r => Json.mkObj [("typ", optStr r.typ), ("doc", optStr r.doc)])]),
  ("c06.tables", fun _ => do
    return Json.mkObj [
      ("json_type2typ", pairs Gen.JsonSchemaTables.jsonType2typ),
      ("typ2json_type", pairs Gen.JsonSchemaTables.typ2jsonType),
      ("none_strs", strs Gen.JsonSchemaTables.noneTypeStrs),
      ("none_in_none_types", .bool Gen.JsonSchemaTables.noneInNoneTypes)])
]
end Driver.C06
