import CddVerif.Py.Str
import CddVerif.Gen.SqlTables
/-!
# Model of the SQLAlchemy emitters and parsers — property C05

Ports, decision by decision, of

* `cdd/sqlalchemy/utils/emit_utils.py`: `param_to_sqlalchemy_column_calls`, `_handle_column_args`,
  `_handle_column_keywords`, `ensure_has_primary_key`, `sqlalchemy_class_to_table`, `sqlalchemy_table_to_class`;
* `cdd/sqlalchemy/utils/shared_utils.py`: `update_args_infer_typ_sqlalchemy`, `_handle_union_of_length_2`;
* `cdd/sqlalchemy/utils/parse_utils.py`: `column_call_to_param`, `column_parse_arg`, `column_parse_extra_sql`,
  `column_parse_kwarg`;
* `cdd/sqlalchemy/emit.py` (`sqlalchemy`, `sqlalchemy_table`, `sqlalchemy_hybrid`) and `cdd/sqlalchemy/parse.py`
  (`sqlalchemy`, `sqlalchemy_table`, `sqlalchemy_hybrid`) as far as the *columns* and the table name are concerned.

The two type tables and the set of SQLAlchemy names come from `Gen.SqlTables` (regenerated from /repo on every run).

Abstractions (trusted base, exercised by the correspondence):
* a type is a `Typ` tree, not a string; the string predicates of the code (`startswith("Optional[")`,
  `"Literal[" in typ`, `startswith("List[")`, `startswith("Union[")`) are the corresponding structural predicates, and
  `ast.parse(typ)` is the tree itself.  `Typ.name s` assumes `s` is a (possibly dotted) identifier;
* `ast.unparse` followed by `ast.parse` is the identity on the emitted calls (the parser model reads the emitted
  calls), except that a `Name` whose id is not an identifier does not come back as a `Name` (`reparse` below);
* the docstring emitter and parser that render / read the header docstring and the table's `comment=` are not
  modelled: the model keeps the *text each emitter hands to the docstring emitter* (`tableHeaderText`, the payload of
  `Stmt.docstring`), and the harness feeds that text to the real docstring emitter to compare; a class body keeps
  only the *kind* of each statement.
* `repr` of a Literal member is `reprStr` (CPython's quote choice and escaping of `\\`, the quote, `\\n`, `\\r`, `\\t`); members
  are printable text otherwise (other control characters / unprintable code points would need `\\x..` escapes).
* not modelled (never produced on the property's domain): `x_typ.sql.type_args` / `type_kwargs` / `default`,
  constraints other than `server_default`, the `[schema=…]` comment of a `dict` parameter carrying an `ir`,
  a description that is `None`, `Union` of other than two members, `generate_repr_method` /
  `generate_create_from_attr_staticmethod` (a class body keeps `funcDef` placeholders), `ensure_valid_identifier`.
  Where the parser model meets a call it cannot read faithfully it answers `.error "unmodelled"`, and the harness
  skips (and counts) that comparison.
-/
namespace Sql
open Py

open Lean in
/-- `c!"abc"` = the char list `['a','b','c']` (a literal the kernel can evaluate, unlike `"abc".toList`) -/
macro:max "c!" s:str : term => do
  let cs := s.getString.toList
  let elems := cs.map (fun c => Syntax.mkCharLit c)
  `([$(elems.toArray),*])

/-- equality of results is decidable (used by `decide` on concrete witnesses) -/
instance instDecEqExcept {ε α : Type} [DecidableEq ε] [DecidableEq α] : DecidableEq (Except ε α) := fun a b =>
  match a, b with
  | .ok x, .ok y => if h : x = y then isTrue (by rw [h]) else isFalse (fun e => h (by cases e; rfl))
  | .error x, .error y => if h : x = y then isTrue (by rw [h]) else isFalse (fun e => h (by cases e; rfl))
  | .ok _, .error _ => isFalse (fun e => by cases e)
  | .error _, .ok _ => isFalse (fun e => by cases e)

/-! ## Values, types, parameters -/

/-- a Python constant as it appears in a `default` / keyword value; `code` = an AST node (rendered by `to_code`) -/
inductive Val
  | none
  | bool (b : Bool)
  | int (i : Int)
  | float (repr : Str)
  | str (s : Str)
  | code (src : Str)
deriving DecidableEq, Repr

/-- `cdd.shared.ast_utils.NoneStr` -/
def NoneStr : Str := c!"```(None)```"

/-- `set_value` on a `str`: a string of more than two characters that is wrapped in one kind of quote loses the quotes -/
def setValueStr (s : Str) : Str :=
  if s.length > 2 &&
     ((s.head? == some '"' && s.getLast? == some '"') || (s.head? == some '\'' && s.getLast? == some '\''))
  then (s.drop 1).dropLast else s

/-- `set_value(v)` (the value of the `Constant` node) -/
def setValue : Val → Val
  | .str s => .str (setValueStr s)
  | v => v

/-- `get_value(Constant(v))`: `None` comes back as `NoneStr` -/
def getValue : Val → Val
  | .none => .str NoneStr
  | v => v

/-- `v in none_types` with `none_types = (None, "None", NoneStr)` -/
def inNoneTypes : Val → Bool
  | .none => true
  | .str s => s == c!"None" || s == NoneStr
  | _ => false

inductive Typ
  | name (s : Str)
  | optional (t : Typ)
  | literal (ms : List Str)
  | list (t : Typ)
  | union (l r : Typ)
deriving DecidableEq, Repr

/-- `repr` of a `str` (CPython `unicode_repr`) on printable text: the quote is `"` exactly when the string contains `'`
    and no `"`, otherwise `'`; a backslash and the chosen quote are escaped with a backslash; `\n`, `\r`, `\t` are
    written as escapes; every other character is copied (the harness generates printable characters only, for which
    `repr` copies, ASCII or not) -/
def reprQuote (s : Str) : Char := if s.contains '\'' && !s.contains '"' then '"' else '\''

def reprChar (q : Char) (c : Char) : Str :=
  if c == '\\' then ['\\', '\\']
  else if c == q then ['\\', q]
  else if c == '\n' then ['\\', 'n']
  else if c == '\r' then ['\\', 'r']
  else if c == '\t' then ['\\', 't']
  else [c]

def reprStr (s : Str) : Str := reprQuote s :: ((s.flatMap (reprChar (reprQuote s))) ++ [reprQuote s])

def Typ.render : Typ → Str
  | .name s => s
  | .optional t => c!"Optional[" ++ (t.render ++ [']'])
  | .literal ms => c!"Literal[" ++ (join c!", " (ms.map reprStr) ++ [']'])
  | .list t => c!"List[" ++ (t.render ++ [']'])
  | .union l r => c!"Union[" ++ (l.render ++ (c!", " ++ (r.render ++ [']'])))

/-- `"Literal[" in typ` -/
def Typ.hasLiteral : Typ → Bool
  | .name _ => false
  | .literal _ => true
  | .optional t => t.hasLiteral
  | .list t => t.hasLiteral
  | .union l r => l.hasLiteral || r.hasLiteral

/-- first `ast.Name` met by `ast.walk` (breadth first) on the parsed type -/
def Typ.firstName : Typ → Str
  | .name s => s.takeWhile (· != '.')
  | .optional _ => c!"Optional"
  | .literal _ => c!"Literal"
  | .list _ => c!"List"
  | .union _ _ => c!"Union"

/-- a `ParamVal` dict; `none` = key absent -/
structure Param where
  /-- `none`: no `"typ"` key; `some none`: `"typ": None` -/
  typ : Option (Option Typ) := none
  doc : Option Str := none
  default : Option Val := none
  /-- `x_typ.sql.type` -/
  xSqlType : Option Str := none
  /-- `x_typ.sql.constraints.server_default` (the only constraint the code itself ever creates) -/
  serverDefault : Option Val := none
  /-- `items.type` -/
  itemsType : Option Str := none
deriving DecidableEq, Repr

/-- an `OrderedDict[str, ParamVal]` -/
abbrev Params := List (Str × Param)

def keys (d : Params) : List Str := d.map (·.1)
def has (d : Params) (k : Str) : Bool := d.any (·.1 == k)
def get? (d : Params) (k : Str) : Option Param := (d.find? (·.1 == k)).map (·.2)
/-- in-place update of the value stored under `k` -/
def modify (d : Params) (k : Str) (f : Param → Param) : Params :=
  d.map (fun kv => if kv.1 == k then (kv.1, f kv.2) else kv)
/-- `d[k] = v`: keeps the position of an existing key, appends a new one -/
def set (d : Params) (k : Str) (v : Param) : Params :=
  if has d k then modify d k (fun _ => v) else d ++ [(k, v)]

/-- `map` that stops at the first exception -/
def mapE {α β : Type} (f : α → Except String β) : List α → Except String (List β)
  | [] => .ok []
  | a :: as =>
    match f a with
    | .error e => .error e
    | .ok b =>
      match mapE f as with
      | .error e => .error e
      | .ok bs => .ok (b :: bs)

/-! ## The type tables -/

def lookup (tbl : List (Str × Str)) (k : Str) : Option Str := (tbl.find? (·.1 == k)).map (·.2)
/-- `typ2column_type.get(k, k)` -/
def typ2col (k : Str) : Str := (lookup Gen.SqlTables.typ2ColumnType k).getD k
def inTyp2col (k : Str) : Bool := (lookup Gen.SqlTables.typ2ColumnType k).isSome
/-- `column_type2typ.get(k, k)` -/
def col2typ (k : Str) : Str := (lookup Gen.SqlTables.columnType2Typ k).getD k
def inCol2typ (k : Str) : Bool := (lookup Gen.SqlTables.columnType2Typ k).isSome
def isSqlImport (k : Str) : Bool := Gen.SqlTables.topLevelImports.contains k

/-! ## `Column(…)` calls -/

/-- a positional argument of `Column(…)` -/
inductive Arg
  /-- `Constant` (the column name) -/
  | const (v : Val)
  /-- `Name(id)` -/
  | name (id : Str)
  /-- `Enum(*members, name=nm)` -/
  | enum (ms : List Str) (nm : Str)
  /-- `ForeignKey(v)` -/
  | fk (v : Str)
  /-- `ARRAY(Name(inner))` -/
  | array (inner : Str)
  /-- any other expression, as source text (only produced by re-parsing a `Name` whose id is not an identifier) -/
  | expr (code : Str)
deriving DecidableEq, Repr

structure ColumnCall where
  args : List Arg
  /-- keywords in call order -/
  kws : List (Str × Val)
deriving DecidableEq, Repr

/-- Python `a <= b` on `str` (code-point lexicographic) -/
def strLe : Str → Str → Bool
  | [], _ => true
  | _ :: _, [] => false
  | a :: as, b :: bs => a < b || (a == b && strLe as bs)

/-- stable insertion: `x` goes behind every element whose key is `<=` its own -/
def insertKw (x : Str × Val) : List (Str × Val) → List (Str × Val)
  | [] => [x]
  | y :: ys => if strLe y.1 x.1 then y :: insertKw x ys else x :: y :: ys

/-- `sorted(keywords, key=attrgetter("arg"))` (stable) -/
def sortKws (l : List (Str × Val)) : List (Str × Val) := l.foldl (fun acc x => insertKw x acc) []

/-- is this argument a `Name` / a call of a `Name` listed in `sqlalchemy_top_level_imports`? (`found_type`) -/
def Arg.isSqlType : Arg → Bool
  | .name id => isSqlImport id
  | .enum _ _ => isSqlImport c!"Enum"
  | .fk _ => isSqlImport c!"ForeignKey"
  | .array _ => isSqlImport c!"ARRAY"
  | _ => false

/-- `_update_args_infer_typ_sqlalchemy_for_scalar` (without `type_args` / `type_kwargs`): the argument appended -/
def scalarArg (xSqlType : Option Str) (typStr : Str) : Arg :=
  .name (match xSqlType with | some t => t | none => typ2col typStr)

/-- `update_args_infer_typ_sqlalchemy` for a present, non-`None` type: `(nullable, appended argument)`;
    `.error` = the exception the code raises -/
def inferTyp (p : Param) (name : Str) (nullable : Option Bool) (t₀ : Typ) : Except String (Option Bool × Arg) :=
  let (t, nullable) := match t₀ with
    | .optional u => (u, some true)
    | t => (t, nullable)
  if t.hasLiteral then
    match t with
    | .literal ms =>
      if ms.length ≥ 2 then .ok (nullable, .enum ms (setValueStr name))
      else if ms.length == 1 then .ok (nullable, scalarArg p.xSqlType t.render)   -- slice is a `Constant`: no `.elts`
      else .error "SyntaxError"
    | _ => .error "AssertionError"   -- "Expected `Literal` got: …"
  else
    match t with
    | .list u =>
      let inner := if contains (u.render ++ [']']) c!"struct" then c!"JSON" else u.firstName
      .ok (nullable, .array (typ2col inner))
    | _ =>
      if (match p.itemsType with | some it => inTyp2col it | none => false) then
        .ok (nullable, .array (typ2col (p.itemsType.getD [])))
      else
        match t with
        | .union (.name l) (.name r) =>     -- `_handle_union_of_length_2`: both members must be plain `Name`s
          if contains l ['.'] || contains r ['.'] then .error "AttributeError" else
          .ok (nullable, .name (if inTyp2col r then typ2col r else typ2col l))
        | .union _ _ => .error "AttributeError"
        | _ => .ok (nullable, scalarArg p.xSqlType t.render)

/-- `LargeBinary` is appended when no argument is an SQLAlchemy type (`found_type`) -/
def addFallback (args : List Arg) : List Arg :=
  if args.any Arg.isSqlType then args else args ++ [.name c!"LargeBinary"]

/-- `_handle_column_args`: `(args, nullable)` -/
def handleColumnArgs (p : Param) (includeName : Bool) (name : Str) : Except String (List Arg × Option Bool) :=
  let args₀ : List Arg := if includeName then [.const (setValue (.str name))] else []
  match p.typ with
  | none => .ok (addFallback args₀, none)
  | some none => .ok (addFallback args₀, some (p.default == some (.str NoneStr)))
  | some (some t) =>
    match inferTyp p name none t with
    | .error e => .error e
    | .ok (n, a) => .ok (addFallback (args₀ ++ [a]), n)

/-- a description split at its leading marker, as `param_to_sqlalchemy_column_calls` does it -/
structure DocSplit where
  /-- `doc.startswith("[PK]")` -/
  pk : Bool
  /-- the text between `[FK(` and `)]` when the description starts with `[FK` (and not with `[PK]`) -/
  fk : Option Str
  /-- the description behind the marker, left-stripped (the whole description when there is no marker) -/
  text : Str
deriving DecidableEq, Repr

def splitDoc (d : Str) : DocSplit :=
  if startsWith d c!"[PK]" then { pk := true, fk := none, text := lstrip (d.drop 4) }
  else if startsWith d c!"[FK" then
    let e : Int := findI d [']'] + 1                       -- `end = doc.find("]") + 1`
    { pk := false, fk := some (slice d (some 4) (some (e - 2))), text := lstrip (slice d (some e) none) }
  else { pk := false, fk := none, text := d }

/-- zero or one keyword -/
def optKw (k : Str) : Option Val → List (Str × Val)
  | some v => [(k, v)]
  | none => []

/-- the value of the `comment=` keyword: the text without trailing dots, if anything is left -/
def commentOf (text : Str) : Option Val :=
  let r := rstripChars text ['.']
  if r.isEmpty then none else some (.str (setValueStr r))

/-- the value of the `default=` keyword -/
def emitDefault : Val → Val
  | .code s => .code s
  | d => if d == .str NoneStr then .none else setValue d

/-- the value of a constraint keyword: an AST as it is, anything else through `set_value` -/
def emitConstraint : Val → Val
  | .code s => .code s
  | v => setValue v

/-- `_handle_column_keywords` (+ the `primary_key` keyword added before it), in the order the code appends them;
    the description is appended as `doc=` and renamed to `comment` before the list is sorted -/
def columnKws (ds : DocSplit) (p : Param) (nullable : Option Bool) : List (Str × Val) :=
  optKw c!"primary_key" (if ds.pk then some (.bool true) else none) ++
  (optKw c!"comment" (commentOf ds.text) ++
  (optKw c!"server_default" (p.serverDefault.map emitConstraint) ++
  (optKw c!"default" (p.default.map emitDefault) ++
   optKw c!"nullable" (nullable.map Val.bool))))

/-- `has_default and default not in none_types` -/
def hasRealDefault (p : Param) : Bool :=
  match p.default with
  | some d => !inNoneTypes d
  | none => false

/-- `nullable` after the marker branches: a non-`None` default forces `nullable=False` unless a marker is present -/
def finalNullable (ds : DocSplit) (p : Param) (nullable : Option Bool) : Option Bool :=
  if !ds.pk && ds.fk.isNone && hasRealDefault p then some false else nullable

/-- the `ForeignKey(…)` argument, if any -/
def fkArgs : Option Str → List Arg
  | some v => [Arg.fk v]
  | none => []

/-- `param_to_sqlalchemy_column_calls((name, param), include_name)` (the single call it returns) -/
def paramToColumn (includeName : Bool) (np : Str × Param) : Except String ColumnCall :=
  match handleColumnArgs np.2 includeName np.1 with
  | .error e => .error e
  | .ok (args, nullable) =>
    let ds := splitDoc (np.2.doc.getD [])
    .ok { args := args ++ fkArgs (ds.fk.map setValueStr),
          kws := sortKws (columnKws ds np.2 (finalNullable ds np.2 nullable)) }

/-! ## `ensure_has_primary_key` -/

/-- `"_name" in k or "_id" in k or "id_" in k or k == "id"` -/
def isCandidate (k : Str) : Bool :=
  contains k c!"_name" || contains k c!"_id" || contains k c!"id_" || k == c!"id"

def docHasPK (p : Param) : Bool := startsWith (p.doc.getD []) c!"[PK]"

/-- `"[PK] {}".format(doc) if param.get("doc") else "[PK]"` -/
def markPK (p : Param) : Param :=
  { p with doc := some (match p.doc with
                        | some d => if d.isEmpty then c!"[PK]" else c!"[PK] " ++ d
                        | none => c!"[PK]") }

/-- the `id` column the code invents -/
def idParam : Param :=
  { typ := some (some (.name c!"int")), doc := some c!"[PK]", serverDefault := some (.code c!"Identity()") }

/-- `"id" in intermediate_repr.get("params", iter(()))` **as the three emitters call the function**: they pass
    `intermediate_repr["params"]` (the `OrderedDict` of parameters), so `.get("params", …)` looks for a *parameter
    called* `params`; if there is one, its value is a `ParamVal` dict whose keys are `typ`/`doc`/`default`/…,
    never `"id"`.  The test is therefore always false: the branch "mark the existing `id` column" is dead. -/
def idBranch (ps : Params) : Bool :=
  match get? ps c!"params" with
  | some _ => false
  | none => false

/-- `ensure_has_primary_key(intermediate_repr["params"], force_pk_id)` (the updated parameter dict) -/
def ensurePK (force : Bool) (ps : Params) : Params :=
  if ps.any (fun kv => docHasPK kv.2) then ps
  else
    let cands := (keys ps).filter isCandidate
    match force, cands with
    | false, [c] => modify ps c markPK
    | _, _ => if idBranch ps then modify ps c!"id" markPK else set ps c!"id" idParam

/-! ## `column_call_to_param` -/

/-- the `ParamVal` dict built by `column_call_to_param` (the keys it can produce on modelled calls) -/
structure Parsed where
  typ : Option Str := none
  /-- `x_typ.sql.type` -/
  xSqlType : Option Str := none
  doc : Option Str := none
  default : Option Val := none
  /-- `server_default` (also copied to `x_typ.sql.constraints.server_default`) -/
  serverDefault : Option Val := none
  /-- the junk key `None` that positional arguments the parser does not understand end up under -/
  noneKey : Option Val := none
  /-- `comment`, left in the dict only when a `doc=` keyword is present as well -/
  comment : Option Val := none
deriving DecidableEq, Repr

/-- what `ast.parse(ast.unparse(arg))` gives back: a `Name` whose id is not an identifier becomes something else -/
def reparse : Arg → Arg
  | .name id => if isIdentifier id then .name id else .expr id
  | a => a

/-- raw dict entries while parsing -/
structure Raw where
  typ : Option Str := none
  xSqlType : Option Str := none
  fk : Option Str := none
  noneKey : Option Val := none
deriving DecidableEq, Repr

/-- the text in front of the last `.` -/
def beforeLastDot (s : Str) : Str :=
  match rfind s ['.'] with
  | some i => s.take i
  | none => s

/-- `column_parse_arg` + `column_parse_extra_sql` for one `(idx, arg)`; later entries override earlier ones -/
def parseArg (r : Raw) (idx : Nat) (a : Arg) : Except String Raw :=
  match reparse a with
  | .name id =>
    if idx < 2 then
      .ok { r with typ := some (col2typ id), xSqlType := if inCol2typ id then some id else r.xSqlType }
    else .ok { r with noneKey := some (.str id) }          -- `get_value(Name)` = its id, stored under `None`
  | .enum ms _ => .ok { r with typ := some (c!"Literal[" ++ (join c!", " (ms.map reprStr) ++ [']'])) }
  | .fk v => .ok { r with fk := some v }
  | .array inner => .ok { r with typ := some (c!"ARRAY(" ++ (inner ++ [')'])) }
  | .const v => if idx == 0 then .ok r else .ok { r with noneKey := some (getValue v) }
  | .expr code =>
    -- source text that is not an identifier: a call, a subscript or an attribute access
    if contains code ['('] then
      let f := code.takeWhile (· != '(')
      if isIdentifier f && f != c!"Enum" && f != c!"ForeignKey" then .ok { r with typ := some code }   -- `to_code(arg)`
      else .error "unmodelled"
    else if contains code ['['] then
      -- `get_value(Subscript)` = its `.value`, an AST
      if idx == 0 then .ok r else .ok { r with noneKey := some (.code (code.takeWhile (· != '['))) }
    else if contains code ['.'] then
      -- `get_value(Attribute)` = its `.value`, an AST
      if idx == 0 then .ok r else .ok { r with noneKey := some (.code (beforeLastDot code)) }
    else .error "unmodelled"

def parseArgs : Raw → Nat → List Arg → Except String Raw
  | r, _, [] => .ok r
  | r, i, a :: as =>
    match parseArg r i a with
    | .error e => .error e
    | .ok r' => parseArgs r' (i + 1) as

/-- `dict(…)[k]` over the keyword pairs: the last one wins -/
def kwGet (kws : List (Str × Val)) (k : Str) : Option Val := (kws.reverse.find? (·.1 == k)).map (·.2)

/-- Python truthiness of a constant -/
def truthy : Val → Bool
  | .none => false
  | .bool b => b
  | .int i => i != 0
  | .float r => !(r == c!"0.0" || r == c!"-0.0")
  | .str s => !s.isEmpty
  | .code _ => true

/-- `"[{}] {}".format(short, doc) if doc else "[{}]".format(short)` -/
def foldMarker (short : Str) (doc : Option Str) : Str :=
  match doc with
  | some d => if d.isEmpty then '[' :: (short ++ [']']) else '[' :: (short ++ (c!"] " ++ d))
  | none => '[' :: (short ++ [']'])

/-- the description before folding: an explicit `doc=` wins over `comment=`; only `str` values are modelled -/
def rawDoc (kws : List (Str × Val)) : Except String (Option Str) :=
  match (match kwGet kws c!"doc" with | some d => some d | none => kwGet kws c!"comment") with
  | none => .ok none
  | some (.str s) => .ok (some s)
  | some _ => .error "unmodelled"

/-- `[PK]` then `[FK(…)]` folding (`if longname in _param`: presence of the key, not its truth) -/
def foldDoc (hasPK : Bool) (fk : Option Str) (doc : Option Str) : Option Str :=
  let d₁ := if hasPK then some (foldMarker c!"PK" doc) else doc
  match fk with
  | some v => some (foldMarker (c!"FK(" ++ (v ++ [')'])) d₁)
  | none => d₁

/-- `nullable` handling: `not nullable or _handle_null()` -/
def applyNullable (nullable : Option Val) (typ : Option Str) : Except String (Option Str) :=
  match nullable with
  | some v =>
    if truthy v then
      match typ with
      | some t => .ok (some (if startsWith t c!"Optional[" then t else c!"Optional[" ++ (t ++ [']'])))
      | none => .error "KeyError"
    else .ok typ
  | none => .ok typ

/-- `get_value(call.args[0])` -/
def columnName (args : List Arg) : Except String Str :=
  match args.head? with
  | some (.const (.str s)) => .ok s
  | some (.name id) => if isIdentifier id then .ok id else .error "unmodelled"
  | some _ => .error "unmodelled"
  | none => .error "IndexError"

/-- a `.` is appended to the description of a column that has a default, unless its name ends in `kwargs` -/
def addDot (name : Str) (hasDefault : Bool) (doc : Option Str) : Option Str :=
  match doc with
  | some d => if hasDefault && !endsWith name c!"kwargs" then some (d ++ ['.']) else some d
  | none => none

/-- `column_call_to_param(call)`: `(name, ParamVal)`; `.error` = exception class (or `unmodelled`) -/
def columnToParam (c : ColumnCall) : Except String (Str × Parsed) :=
  if !(c.args.length < 4) then .error "AssertionError" else
  match parseArgs {} 0 c.args with
  | .error e => .error e
  | .ok raw =>
    let kws := c.kws.map (fun kv => (kv.1, getValue kv.2))
    match rawDoc kws with
    | .error e => .error e
    | .ok doc₀ =>
      let doc₂ := foldDoc (kwGet kws c!"primary_key").isSome raw.fk doc₀
      match applyNullable (kwGet kws c!"nullable") raw.typ with
      | .error e => .error e
      | .ok typ =>
        match columnName c.args with
        | .error e => .error e
        | .ok name =>
          let default := kwGet kws c!"default"
          .ok (name, { typ := typ, xSqlType := raw.xSqlType, doc := addDot name default.isSome doc₂, default := default,
                       serverDefault := kwGet kws c!"server_default", noneKey := raw.noneKey,
                       comment := if (kwGet kws c!"doc").isSome then kwGet kws c!"comment" else none })

/-! ## A column as a record (readable view of a `Column(…)` call) -/

/-- name, column type with its arguments, foreign key, and the keywords the emitters produce -/
structure Column where
  /-- positional name (absent in the declarative class form, where the assignment target is the name) -/
  name : Option Str := none
  /-- the type argument: `Name(String)`, `Enum('a', 'b', name=…)`, `ARRAY(…)`, or other source text -/
  colType : Option Arg := none
  /-- `ForeignKey('table.column')` -/
  foreignKey : Option Str := none
  /-- `primary_key=True` -/
  primaryKey : Bool := false
  nullable : Option Bool := none
  default : Option Val := none
  serverDefault : Option Val := none
  /-- `comment=` (the description without marker and trailing dots) -/
  comment : Option Str := none
deriving DecidableEq, Repr

def ColumnCall.view (c : ColumnCall) : Column :=
  { name := match c.args.head? with | some (.const (.str s)) => some s | _ => none,
    colType := c.args.find? (fun a => match a with | .name _ => true | .enum _ _ => true | .array _ => true | .expr _ => true | _ => false),
    foreignKey := (c.args.findSome? (fun a => match a with | .fk v => some v | _ => none)),
    primaryKey := kwGet c.kws c!"primary_key" == some (.bool true),
    nullable := match kwGet c.kws c!"nullable" with | some (.bool b) => some b | _ => none,
    default := kwGet c.kws c!"default",
    serverDefault := kwGet c.kws c!"server_default",
    comment := match kwGet c.kws c!"comment" with | some (.str s) => some s | _ => none }

/-! ## The three emissions and their parsers (columns and table name) -/

structure IR where
  name : Str
  params : Params
  /-- `intermediate_repr["doc"]`: the description of the interface itself (header docstring / table comment) -/
  doc : Str := []
  /-- `intermediate_repr["returns"]` is truthy -/
  hasReturns : Bool := false
  /-- `returns["return_type"]["doc"]` is truthy -/
  returnsHasDoc : Bool := false
deriving DecidableEq, Repr

/-- `Table(tname, <meta>, Column(…), …, comment=…, keep_existing=True)` -/
structure TableCall where
  tname : Str
  /-- the `Name` passed as second argument (`metadata` / `metadata_obj`) -/
  metaName : Str
  cols : List ColumnCall
  /-- the header text behind `comment=`: what the emitter hands to the docstring emitter as `"doc"` (`none`: no
      `comment=` is attempted); for a table built from a class, the class docstring -/
  headerText : Option Str := none
deriving DecidableEq, Repr

/-- `emit.sqlalchemy_table`: the `"doc"` handed to the docstring emitter for `comment=`, attempted only
    `if intermediate_repr.get("doc")`:  `doc.lstrip() + ("\n\n" if returns else "")`  (as repaired: the conditional
    only chooses the separator in front of the `returns` section) -/
def tableHeaderText (ir : IR) : Option Str :=
  if ir.doc.isEmpty then none else some (lstrip ir.doc ++ (if ir.hasReturns then c!"\n\n" else []))

/-- the expression before the repair, `doc.lstrip() + "\n\n" if returns else ""`: without a `returns` entry the
    description was replaced by the empty string (kept for the record, see `C05.header_text_before_fix`) -/
def tableHeaderTextBeforeFix (ir : IR) : Option Str :=
  if ir.doc.isEmpty then none else some (if ir.hasReturns then lstrip ir.doc ++ c!"\n\n" else [])

/-- `emit.sqlalchemy` / `emit.sqlalchemy_hybrid`: a docstring statement is emitted
    `if intermediate_repr.get("doc") or returns.return_type.doc`; the `"doc"` handed to the docstring emitter is
    `intermediate_repr["doc"]` itself -/
def classHasDoc (ir : IR) : Bool := !ir.doc.isEmpty || ir.returnsHasDoc

/-- one statement of an emitted class body, by kind -/
inductive Stmt
  /-- `Expr(Constant(str))`: the docstring; `text` = the `"doc"` the emitter handed to the docstring emitter -/
  | docstring (text : Str)
  /-- `target = 'text'` -/
  | assignStr (target : Str) (v : Str)
  /-- `target = Column(…)` -/
  | assignCol (target : Str) (c : ColumnCall)
  /-- `target = Table(…)` -/
  | assignTable (target : Str) (t : TableCall)
  /-- a method -/
  | funcDef (name : Str)
deriving DecidableEq, Repr

structure ClassDef where
  name : Str
  body : List Stmt
deriving DecidableEq, Repr

/-- pair a result with the parameter's name -/
def keyed {β : Type} (f : Str × Param → Except String β) (kv : Str × Param) : Except String (Str × β) :=
  match f kv with
  | .error e => .error e
  | .ok c => .ok (kv.1, c)

/-- the columns every emitter produces:
    `map(param_to_sqlalchemy_column_calls, ensure_has_primary_key(params, force_pk_id).items())` -/
def emitCols (includeName force : Bool) (ps : Params) : Except String (List (Str × ColumnCall)) :=
  mapE (keyed (paramToColumn includeName)) (ensurePK force ps)

/-- `emit.sqlalchemy_table(ir, name=name, table_name=tableName, force_pk_id=force)`: `(assignment target, call)`.
    `ensure_valid_identifier` is the identity on the identifiers the harness uses and is not modelled. -/
def emitTableNamed (ir : IR) (name : Str) (tableName : Option Str) (force : Bool) : Except String (Str × TableCall) :=
  match emitCols true force ir.params with
  | .error e => .error e
  | .ok cols =>
    .ok (if name != c!"config_tbl" || ir.name.isEmpty then name else ir.name,
         { tname := setValueStr (tableName.getD name), metaName := c!"metadata", cols := cols.map (·.2),
           headerText := tableHeaderText ir })

/-- as the command line calls it (`gen`, `exmod`): `sqlalchemy_table(ir, table_name=ir["name"], force_pk_id=force)` -/
def emitTable (force : Bool) (ir : IR) : Except String (Str × TableCall) :=
  emitTableNamed ir c!"config_tbl" (some ir.name) force

/-- the docstring statement of the class / hybrid emission -/
def headerStmts (ir : IR) : List Stmt := if classHasDoc ir then [Stmt.docstring ir.doc] else []

/-- `emit.sqlalchemy(ir, table_name=ir["name"], force_pk_id=force)` -/
def emitClass (force : Bool) (ir : IR) : Except String ClassDef :=
  match emitCols false force ir.params with
  | .error e => .error e
  | .ok cols =>
    .ok { name := ir.name,
          body := headerStmts ir ++
                  (Stmt.assignStr c!"__tablename__" (setValueStr ir.name) ::
                  (cols.map (fun kc => Stmt.assignCol kc.1 kc.2) ++
                  [Stmt.funcDef c!"__repr__"])) }

/-- `emit.sqlalchemy_hybrid(ir, table_name=ir["name"], force_pk_id=force)`: `force_pk_id` is handed on to
    `sqlalchemy_table(name="__table__", table_name=table_name or ir["name"], force_pk_id=force_pk_id)` -/
def emitHybrid (force : Bool) (ir : IR) : Except String ClassDef :=
  match emitTableNamed ir c!"__table__" (some ir.name) force with
  | .error e => .error e
  | .ok (target, tbl) =>
    .ok { name := ir.name,
          body := headerStmts ir ++
                  [Stmt.assignStr c!"__tablename__" (setValueStr ir.name), Stmt.assignTable target tbl,
                   Stmt.funcDef c!"__repr__", Stmt.funcDef c!"create_from_attr"] }

def Stmt.target? : Stmt → Option Str
  | .assignStr t _ => some t
  | .assignCol t _ => some t
  | .assignTable t _ => some t
  | _ => none

/-- `_merge_name_to_column`: `assign.value.args.insert(0, set_value(target))` -/
def mergeName (target : Str) (c : ColumnCall) : ColumnCall :=
  { c with args := .const (setValue (.str target)) :: c.args }

/-- is this statement one of those `sqlalchemy_class_to_table` turns into a column?  Every assignment except
    `__tablename__ = …` (so `_id = Column(…)`, `__mapper_args__ = …` … all count) -/
def isColumnStmt (s : Stmt) : Bool := s.target?.isSome && s.target? != some c!"__tablename__"

/-- `_merge_name_to_column` on one statement of the class body -/
def stmtColumn : Stmt → Except String ColumnCall
  | .assignCol t c => .ok (mergeName t c)
  | .assignTable _ _ => .error "unmodelled"      -- a `Table(…)` bound to another name than `__table__`
  | _ => .error "AttributeError"                 -- `assign.value.args` of a constant

/-- `ast.get_docstring(class_def)`: the first statement, if it is a docstring -/
def ClassDef.docText (cls : ClassDef) : Option Str :=
  match cls.body.head? with
  | some (.docstring t) => some t
  | _ => none

/-- `sqlalchemy_class_to_table(class_def)`: either the `__table__ = …` assignment itself (hybrid), or a `Table`
    call built from **every** assignment of the body except `__tablename__ = …` -/
def classToTable (cls : ClassDef) : Except String (Sum (Str × TableCall) TableCall) :=
  match cls.body.find? (fun s => s.target? == some c!"__table__") with
  | some (.assignTable t tbl) => .ok (.inl (t, tbl))
  | some _ => .error "unmodelled"      -- `__table__` bound to something that is not a `Table(…)` call
  | none =>
    match cls.body.find? (fun s => s.target? == some c!"__tablename__") with
    | some (.assignStr _ nm) =>
      match mapE stmtColumn (cls.body.filter isColumnStmt) with
      | .error e => .error e
      | .ok cols => .ok (.inr { tname := setValueStr nm, metaName := c!"metadata_obj", cols := cols, headerText := cls.docText })
    | some _ => .error "unmodelled"
    | none => .error "StopIteration"

/-- `OrderedDict(pairs)` -/
def dictOfPairs (l : List (Str × Parsed)) : List (Str × Parsed) :=
  l.foldl (fun d kv => if d.any (·.1 == kv.1) then d.map (fun e => if e.1 == kv.1 then (e.1, kv.2) else e) else d ++ [kv]) []

/-- the parsed interface: table name and columns -/
structure ParsedIR where
  name : Str
  params : List (Str × Parsed)
deriving DecidableEq, Repr

/-- `parse.sqlalchemy_table(Call)`: the name is the first argument -/
def parseTableCall (t : TableCall) : Except String ParsedIR :=
  if !(t.cols.length > 0) then .error "AssertionError" else      -- `assert len(call.args) > 2`
  match mapE columnToParam t.cols with
  | .error e => .error e
  | .ok ps => .ok { name := t.tname, params := dictOfPairs ps }

/-- `parse.sqlalchemy_table(Assign)`: the binding must carry the table's name -/
def parseTable (a : Str × TableCall) : Except String ParsedIR :=
  if a.2.tname != a.1 then .error "AssertionError" else parseTableCall a.2

/-- `parse.sqlalchemy(ClassDef)` = `parse.sqlalchemy_hybrid(ClassDef)`: a hybrid class is unwrapped to its call -/
def parseClass (cls : ClassDef) : Except String ParsedIR :=
  match classToTable cls with
  | .error e => .error e
  | .ok (.inl (_, tbl)) => parseTableCall tbl
  | .ok (.inr tbl) => parseTableCall tbl

/-- one `Column('name', …)` of a table as a class-body assignment -/
def columnStmt (c : ColumnCall) : Except String Stmt :=
  match c.args with
  | .const (.str nm) :: rest => .ok (Stmt.assignCol nm { c with args := rest })
  | _ => .error "unmodelled"

/-- `sqlalchemy_table_to_class(name = Table(…))` (every `Column` call of the table becomes an assignment) -/
def tableToClass (a : Str × TableCall) : Except String ClassDef :=
  match mapE columnStmt a.2.cols with
  | .error e => .error e
  | .ok cols => .ok { name := a.1, body := Stmt.assignStr c!"__tablename__" (setValueStr a.2.tname) :: cols }

/-- `>>=` on `Except String` written out (keeps statements readable and unfoldable) -/
def andThen {α β : Type} (x : Except String α) (f : α → Except String β) : Except String β :=
  match x with
  | .error e => .error e
  | .ok a => f a

/-! ## Primary keys of an emission -/

/-- does this `Column(…)` call carry `primary_key=True`? -/
def isPKCol (c : ColumnCall) : Bool := c.kws.any (fun kv => kv.1 == c!"primary_key" && kv.2 == .bool true)

/-- number of `primary_key=True` columns of an emission -/
def countPK (cs : List ColumnCall) : Nat := cs.countP isPKCol

/-! ## The normalisation a column goes through (right-hand side of the round-trip theorem) -/

/-- the comment text a description is stored as: trailing dots removed, nothing when empty -/
def normText (s : Str) : Option Str :=
  let r := rstripChars s ['.']
  if r.isEmpty then none else some (setValueStr r)

/-- what a description comes back as: marker kept in front with one blank behind it, trailing dots dropped,
    and a single `.` appended when the column has a default (unless the name ends in `kwargs`) -/
def normDoc (name : Str) (doc : Option Str) (hasDefault : Bool) : Option Str :=
  let ds := splitDoc (doc.getD [])
  addDot name hasDefault (foldDoc ds.pk (ds.fk.map setValueStr) (normText ds.text))

/-- what a default comes back as: `None` is the IR's `NoneStr`; a quoted string loses its quotes -/
def normVal : Val → Val
  | .none => .str NoneStr
  | .str s => .str (setValueStr s)
  | v => v

/-- `x_typ.sql.type` recorded by the parser for a scalar column -/
def sqlTypeOf : Typ → Option Str
  | .name s => some (typ2col s)
  | .optional (.name s) => some (typ2col s)
  | _ => none

/-- the normal form of one column: name, type string and default unchanged (up to `normVal`), description `normDoc` -/
def normSql (name : Str) (p : Param) : Parsed :=
  match p.typ with
  | some (some t) =>
    { typ := some t.render, xSqlType := sqlTypeOf t, doc := normDoc name p.doc p.default.isSome,
      default := p.default.map normVal, serverDefault := p.serverDefault }
  | _ => {}

/-! ## The SQL-representable domain on which the round trip is exact -/

def scalarNames : List Str := [c!"int", c!"float", c!"str", c!"bool"]

def baseOk : Typ → Bool
  | .name s => scalarNames.contains s
  | .literal ms => decide (2 ≤ ms.length)
  | _ => false

/-- scalars, `Literal` of at least two strings, `Optional` of those, `Optional[dict]`.
    (A bare `dict` and a one-member `Literal` are in the property's domain but do **not** round-trip: see the
    negation theorems.) -/
def typOk : Typ → Bool
  | .optional t => baseOk t || t == .name c!"dict"
  | t => baseOk t

def isOptional : Typ → Bool
  | .optional _ => true
  | _ => false

/-- no `server_default` constraint, or the AST one of the invented `id` column -/
def serverDefaultOk (p : Param) : Bool :=
  match p.serverDefault with
  | some (.code _) => true
  | none => true
  | _ => false

/-- one parameter of the domain: a domain type; a name `set_value` leaves alone; no `x_typ`/`items` except the
    `server_default` AST of the invented `id` column; `Optional[..]` only without a non-`None` default -/
def inDomain (name : Str) (p : Param) : Bool :=
  match p.typ with
  | some (some t) =>
    typOk t && setValueStr name == name && p.xSqlType.isNone && p.itemsType.isNone &&
    serverDefaultOk p && (!isOptional t || !hasRealDefault p)
  | _ => false

end Sql
