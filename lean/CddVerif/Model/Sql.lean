import CddVerif.Py.Str
import CddVerif.Gen.SqlTables
/-!
# Model of the SQLAlchemy emitters and parsers — property C05

Ports, decision by decision, of

* `cdd/sqlalchemy/utils/emit_utils.py`: `param_to_sqlalchemy_column_calls`, `_handle_column_args`,
  `_handle_column_keywords`, `ensure_has_primary_key`, `sqlalchemy_class_to_table`, `sqlalchemy_table_to_class`;
* `cdd/sqlalchemy/utils/shared_utils.py`: `update_args_infer_typ_sqlalchemy`, `_handle_union_of_length_2`;
* `cdd/sqlalchemy/utils/parse_utils.py`: `column_call_to_param`, `column_parse_arg`, `column_parse_extra_sql`,
  `column_parse_kwarg`;
* `cdd/sqlalchemy/emit.py` (`sqlalchemy`, `sqlalchemy_table`, `sqlalchemy_hybrid`) and `cdd/sqlalchemy/parse.py`
  (`sqlalchemy`, `sqlalchemy_table`, `sqlalchemy_hybrid`) as far as the *columns* and the table name are concerned.

The two type tables and the set of SQLAlchemy names come from `Gen.SqlTables` (regenerated from /repo on every run).

Abstractions (trusted base, exercised by the correspondence):
* a type is a `Typ` tree, not a string; the string predicates of the code (`startswith("Optional[")`,
  `"Literal[" in typ`, `startswith("List[")`, `startswith("Union[")`) are the corresponding structural predicates, and
  `ast.parse(typ)` is the tree itself.  `Typ.name s` assumes `s` is a (possibly dotted) identifier;
* `ast.unparse` followed by `ast.parse` is the identity on the emitted calls (the parser model reads the emitted
  calls), except that a `Name` whose id is not an identifier does not come back as a `Name` (`reparse` below);
* the header docstring / `comment=` of the table (docstring emitter and parser) is not modelled; a class body keeps
  only the *kind* of each statement.
* `repr` of a Literal member is `'` + member + `'` (members are plain: no quote, backslash, control character).
-/
namespace Sql
open Py

open Lean in
/-- `c!"abc"` = the char list `['a','b','c']` (a literal the kernel can evaluate, unlike `"abc".toList`) -/
macro:max "c!" s:str : term => do
  let cs := s.getString.toList
  let elems := cs.map (fun c => Syntax.mkCharLit c)
  `([$(elems.toArray),*])

/-! ## Values, types, parameters -/

/-- a Python constant as it appears in a `default` / keyword value; `code` = an AST node (rendered by `to_code`) -/
inductive Val
  | none
  | bool (b : Bool)
  | int (i : Int)
  | float (repr : Str)
  | str (s : Str)
  | code (src : Str)
deriving DecidableEq, Repr

/-- `cdd.shared.ast_utils.NoneStr` -/
def NoneStr : Str := c!"```(None)```"

/-- `set_value` on a `str`: a string of more than two characters that is wrapped in one kind of quote loses the quotes -/
def setValueStr (s : Str) : Str :=
  if s.length > 2 &&
     ((s.head? == some '"' && s.getLast? == some '"') || (s.head? == some '\'' && s.getLast? == some '\''))
  then (s.drop 1).dropLast else s

/-- `set_value(v)` (the value of the `Constant` node) -/
def setValue : Val → Val
  | .str s => .str (setValueStr s)
  | v => v

/-- `get_value(Constant(v))`: `None` comes back as `NoneStr` -/
def getValue : Val → Val
  | .none => .str NoneStr
  | v => v

/-- `v in none_types` with `none_types = (None, "None", NoneStr)` -/
def inNoneTypes : Val → Bool
  | .none => true
  | .str s => s == c!"None" || s == NoneStr
  | _ => false

inductive Typ
  | name (s : Str)
  | optional (t : Typ)
  | literal (ms : List Str)
  | list (t : Typ)
  | union (l r : Typ)
deriving DecidableEq, Repr

/-- `repr` of a plain `str` -/
def reprStr (s : Str) : Str := '\'' :: (s ++ ['\''])

def Typ.render : Typ → Str
  | .name s => s
  | .optional t => c!"Optional[" ++ (t.render ++ [']'])
  | .literal ms => c!"Literal[" ++ (join c!", " (ms.map reprStr) ++ [']'])
  | .list t => c!"List[" ++ (t.render ++ [']'])
  | .union l r => c!"Union[" ++ (l.render ++ (c!", " ++ (r.render ++ [']'])))

/-- `"Literal[" in typ` -/
def Typ.hasLiteral : Typ → Bool
  | .name _ => false
  | .literal _ => true
  | .optional t => t.hasLiteral
  | .list t => t.hasLiteral
  | .union l r => l.hasLiteral || r.hasLiteral

/-- first `ast.Name` met by `ast.walk` (breadth first) on the parsed type -/
def Typ.firstName : Typ → Str
  | .name s => s.takeWhile (· != '.')
  | .optional _ => c!"Optional"
  | .literal _ => c!"Literal"
  | .list _ => c!"List"
  | .union _ _ => c!"Union"

/-- a `ParamVal` dict; `none` = key absent -/
structure Param where
  /-- `none`: no `"typ"` key; `some none`: `"typ": None` -/
  typ : Option (Option Typ) := none
  doc : Option Str := none
  default : Option Val := none
  /-- `x_typ.sql.type` -/
  xSqlType : Option Str := none
  /-- `x_typ.sql.constraints.server_default` (the only constraint the code itself ever creates) -/
  serverDefault : Option Val := none
  /-- `items.type` -/
  itemsType : Option Str := none
deriving DecidableEq, Repr

/-- an `OrderedDict[str, ParamVal]` -/
abbrev Params := List (Str × Param)

def keys (d : Params) : List Str := d.map (·.1)
def has (d : Params) (k : Str) : Bool := d.any (·.1 == k)
def get? (d : Params) (k : Str) : Option Param := (d.find? (·.1 == k)).map (·.2)
/-- in-place update of the value stored under `k` -/
def modify (d : Params) (k : Str) (f : Param → Param) : Params :=
  d.map (fun kv => if kv.1 == k then (kv.1, f kv.2) else kv)
/-- `d[k] = v`: keeps the position of an existing key, appends a new one -/
def set (d : Params) (k : Str) (v : Param) : Params :=
  if has d k then modify d k (fun _ => v) else d ++ [(k, v)]

/-! ## The type tables -/

def lookup (tbl : List (Str × Str)) (k : Str) : Option Str := (tbl.find? (·.1 == k)).map (·.2)
/-- `typ2column_type.get(k, k)` -/
def typ2col (k : Str) : Str := (lookup Gen.SqlTables.typ2ColumnType k).getD k
def inTyp2col (k : Str) : Bool := (lookup Gen.SqlTables.typ2ColumnType k).isSome
/-- `column_type2typ.get(k, k)` -/
def col2typ (k : Str) : Str := (lookup Gen.SqlTables.columnType2Typ k).getD k
def inCol2typ (k : Str) : Bool := (lookup Gen.SqlTables.columnType2Typ k).isSome
def isSqlImport (k : Str) : Bool := Gen.SqlTables.topLevelImports.contains k

/-! ## `Column(…)` calls -/

/-- a positional argument of `Column(…)` -/
inductive Arg
  /-- `Constant` (the column name) -/
  | const (v : Val)
  /-- `Name(id)` -/
  | name (id : Str)
  /-- `Enum(*members, name=nm)` -/
  | enum (ms : List Str) (nm : Str)
  /-- `ForeignKey(v)` -/
  | fk (v : Str)
  /-- `ARRAY(Name(inner))` -/
  | array (inner : Str)
  /-- any other expression, as source text (only produced by re-parsing a `Name` whose id is not an identifier) -/
  | expr (code : Str)
deriving DecidableEq, Repr

structure ColumnCall where
  args : List Arg
  /-- keywords in call order -/
  kws : List (Str × Val)
deriving DecidableEq, Repr

/-- Python `a <= b` on `str` (code-point lexicographic) -/
def strLe : Str → Str → Bool
  | [], _ => true
  | _ :: _, [] => false
  | a :: as, b :: bs => a < b || (a == b && strLe as bs)

/-- stable insertion: `x` goes behind every element whose key is `<=` its own -/
def insertKw (x : Str × Val) : List (Str × Val) → List (Str × Val)
  | [] => [x]
  | y :: ys => if strLe y.1 x.1 then y :: insertKw x ys else x :: y :: ys

/-- `sorted(keywords, key=attrgetter("arg"))` (stable) -/
def sortKws (l : List (Str × Val)) : List (Str × Val) := l.foldl (fun acc x => insertKw x acc) []

/-- is this argument a `Name` / a call of a `Name` listed in `sqlalchemy_top_level_imports`? (`found_type`) -/
def Arg.isSqlType : Arg → Bool
  | .name id => isSqlImport id
  | .enum _ _ => isSqlImport c!"Enum"
  | .fk _ => isSqlImport c!"ForeignKey"
  | .array _ => isSqlImport c!"ARRAY"
  | _ => false

/-- `_update_args_infer_typ_sqlalchemy_for_scalar` (without `type_args` / `type_kwargs`): the argument appended -/
def scalarArg (xSqlType : Option Str) (typStr : Str) : Arg :=
  .name (match xSqlType with | some t => t | none => typ2col typStr)

/-- `update_args_infer_typ_sqlalchemy` for a present, non-`None` type: `(nullable, appended argument)`;
    `.error` = the exception the code raises -/
def inferTyp (p : Param) (name : Str) (nullable : Option Bool) (t₀ : Typ) : Except String (Option Bool × Arg) :=
  let (t, nullable) := match t₀ with
    | .optional u => (u, some true)
    | t => (t, nullable)
  if t.hasLiteral then
    match t with
    | .literal ms =>
      if ms.length ≥ 2 then .ok (nullable, .enum ms (setValueStr name))
      else if ms.length == 1 then .ok (nullable, scalarArg p.xSqlType t.render)   -- slice is a `Constant`: no `.elts`
      else .error "SyntaxError"
    | _ => .error "AssertionError"   -- "Expected `Literal` got: …"
  else
    match t with
    | .list u =>
      let inner := if contains (u.render ++ [']']) c!"struct" then c!"JSON" else u.firstName
      .ok (nullable, .array (typ2col inner))
    | _ =>
      if (match p.itemsType with | some it => inTyp2col it | none => false) then
        .ok (nullable, .array (typ2col (p.itemsType.getD [])))
      else
        match t with
        | .union (.name l) (.name r) =>     -- `_handle_union_of_length_2`: both members must be plain `Name`s
          if contains l ['.'] || contains r ['.'] then .error "AttributeError" else
          .ok (nullable, .name (if inTyp2col r then typ2col r else typ2col l))
        | .union _ _ => .error "AttributeError"
        | _ => .ok (nullable, scalarArg p.xSqlType t.render)

/-- `_handle_column_args`: `(args, nullable)` -/
def handleColumnArgs (p : Param) (includeName : Bool) (name : Str) : Except String (List Arg × Option Bool) := do
  let args₀ : List Arg := if includeName then [.const (setValue (.str name))] else []
  let (args₁, nullable) ← (match p.typ with
    | none => pure (args₀, none)
    | some none => pure (args₀, some (p.default == some (.str NoneStr)))
    | some (some t) => do
      let (n, a) ← inferTyp p name none t
      pure (args₀ ++ [a], n) : Except String (List Arg × Option Bool))
  let args₂ := if args₁.any Arg.isSqlType then args₁ else args₁ ++ [.name c!"LargeBinary"]
  return (args₂, nullable)

/-- `param_to_sqlalchemy_column_calls((name, param), include_name)` (the single call it returns) -/
def paramToColumn (includeName : Bool) (np : Str × Param) : Except String ColumnCall := do
  let (name, p) := np
  let (args, nullable) ← handleColumnArgs p includeName name
  let hasDefault := p.default.isSome
  let doc₀ := p.doc.getD []
  let pk := startsWith doc₀ c!"[PK]"
  let fk := startsWith doc₀ c!"[FK"
  -- marker handling
  let fkEnd : Int := findI doc₀ [']'] + 1
  let doc₁ : Str :=
    if pk then lstrip (doc₀.drop 4)
    else if fk then lstrip (slice doc₀ (some fkEnd) none)
    else doc₀
  let args := if !pk && fk then args ++ [.fk (setValueStr (slice doc₀ (some 4) (some (fkEnd - 2))))] else args
  let nullable := if !pk && !fk && hasDefault && !(match p.default with | some d => inNoneTypes d | none => false)
                  then some false else nullable
  -- `_handle_column_keywords`
  let kws₀ : List (Str × Val) := if pk then [(c!"primary_key", .bool true)] else []
  let stripped := rstripChars doc₁ ['.']
  -- appended as `doc=…`, renamed to `comment` at the end
  let kws₁ := if stripped.isEmpty then kws₀ else kws₀ ++ [(c!"comment", .str (setValueStr stripped))]
  let kws₂ := match p.serverDefault with
    | some v => kws₁ ++ [(c!"server_default", match v with | .code s => .code s | v => setValue v)]
    | none => kws₁
  let kws₃ := match p.default with
    | some (.code s) => kws₂ ++ [(c!"default", .code s)]
    | some d => kws₂ ++ [(c!"default", if d == .str NoneStr then .none else setValue d)]
    | none => kws₂
  let kws₄ := match nullable with
    | some b => kws₃ ++ [(c!"nullable", .bool b)]
    | none => kws₃
  return { args := args, kws := sortKws kws₄ }

/-! ## `ensure_has_primary_key` -/

/-- `"_name" in k or "_id" in k or "id_" in k or k == "id"` -/
def isCandidate (k : Str) : Bool :=
  contains k c!"_name" || contains k c!"_id" || contains k c!"id_" || k == c!"id"

def docHasPK (p : Param) : Bool := startsWith (p.doc.getD []) c!"[PK]"

/-- `"[PK] {}".format(doc) if param.get("doc") else "[PK]"` -/
def markPK (p : Param) : Param :=
  { p with doc := some (match p.doc with
                        | some d => if d.isEmpty then c!"[PK]" else c!"[PK] " ++ d
                        | none => c!"[PK]") }

/-- the `id` column the code invents -/
def idParam : Param :=
  { typ := some (some (.name c!"int")), doc := some c!"[PK]", serverDefault := some (.code c!"Identity()") }

/-- `"id" in intermediate_repr.get("params", iter(()))` **as the three emitters call the function**: they pass
    `intermediate_repr["params"]` (the `OrderedDict` of parameters), so `.get("params", …)` looks for a *parameter
    called* `params`; if there is one, its value is a `ParamVal` dict whose keys are `typ`/`doc`/`default`/…,
    never `"id"`.  The test is therefore always false: the branch "mark the existing `id` column" is dead. -/
def idBranch (ps : Params) : Bool :=
  match get? ps c!"params" with
  | some _ => false
  | none => false

/-- `ensure_has_primary_key(intermediate_repr["params"], force_pk_id)` (the updated parameter dict) -/
def ensurePK (force : Bool) (ps : Params) : Params :=
  if ps.any (fun kv => docHasPK kv.2) then ps
  else
    let cands := (keys ps).filter isCandidate
    match force, cands with
    | false, [c] => modify ps c markPK
    | _, _ => if idBranch ps then modify ps c!"id" markPK else set ps c!"id" idParam

/-! ## `column_call_to_param` -/

/-- the `ParamVal` dict built by `column_call_to_param` (the keys it can produce on modelled calls) -/
structure Parsed where
  typ : Option Str := none
  /-- `x_typ.sql.type` -/
  xSqlType : Option Str := none
  doc : Option Str := none
  default : Option Val := none
  /-- `server_default` (also copied to `x_typ.sql.constraints.server_default`) -/
  serverDefault : Option Val := none
  /-- the junk key `None` that positional constants after the name end up under -/
  noneKey : Option Val := none
  /-- `comment`, left in the dict only when a `doc=` keyword is present as well -/
  comment : Option Val := none
deriving DecidableEq, Repr

/-- what `ast.parse(ast.unparse(arg))` gives back: a `Name` whose id is not an identifier becomes something else -/
def reparse : Arg → Arg
  | .name id => if isIdentifier id then .name id else .expr id
  | a => a

/-- raw dict entries while parsing -/
structure Raw where
  typ : Option Str := none
  xSqlType : Option Str := none
  fk : Option Str := none
  noneKey : Option Val := none

/-- `column_parse_arg` + `column_parse_extra_sql` for one `(idx, arg)`; later entries override earlier ones -/
def parseArg (r : Raw) (idx : Nat) (a : Arg) : Except String Raw :=
  match reparse a with
  | .name id =>
    if idx < 2 then
      .ok { r with typ := some (col2typ id), xSqlType := if inCol2typ id then some id else r.xSqlType }
    else .ok { r with noneKey := some (.str id) }          -- `get_value(Name)` = its id, stored under `None`
  | .enum ms _ => .ok { r with typ := some (c!"Literal[" ++ (join c!", " (ms.map reprStr) ++ [']'])) }
  | .fk v => .ok { r with fk := some v }
  | .array inner => .ok { r with typ := some (c!"ARRAY(" ++ (inner ++ [')'])) }
  | .const v => if idx == 0 then .ok r else .ok { r with noneKey := some (getValue v) }
  | .expr _ => .error "unmodelled"

def parseArgs : Raw → Nat → List Arg → Except String Raw
  | r, _, [] => .ok r
  | r, i, a :: as => do
    let r' ← parseArg r i a
    parseArgs r' (i + 1) as

/-- `dict(…)[k]` over the keyword pairs: the last one wins -/
def kwGet (kws : List (Str × Val)) (k : Str) : Option Val := (kws.reverse.find? (·.1 == k)).map (·.2)

def valStr? : Val → Option Str
  | .str s => some s
  | _ => none

/-- Python truthiness of a constant -/
def truthy : Val → Bool
  | .none => false
  | .bool b => b
  | .int i => i != 0
  | .float r => !(r == c!"0.0" || r == c!"-0.0")
  | .str s => !s.isEmpty
  | .code _ => true

/-- `"[{}] {}".format(short, doc) if doc else "[{}]".format(short)` -/
def foldMarker (short : Str) (doc : Option Str) : Str :=
  match doc with
  | some d => if d.isEmpty then '[' :: (short ++ [']']) else '[' :: (short ++ (c!"] " ++ d))
  | none => '[' :: (short ++ [']'])

/-- `column_call_to_param(call)`: `(name, ParamVal)`; `.error` = exception class (or `unmodelled`) -/
def columnToParam (c : ColumnCall) : Except String (Str × Parsed) := do
  if !(c.args.length < 4) then throw "AssertionError"
  let raw ← parseArgs {} 0 c.args
  let kws := c.kws.map (fun kv => (kv.1, getValue kv.2))
  -- doc: an explicit `doc=` wins over `comment=`
  let doc₀ : Option Val := match kwGet kws c!"doc" with
    | some d => some d
    | none => kwGet kws c!"comment"
  let doc₀ ← (match doc₀ with
    | none => pure none
    | some (.str s) => pure (some s)
    | some _ => throw "unmodelled" : Except String (Option Str))
  -- PK then FK folding (`if longname in _param`: presence, not truth)
  let doc₁ := if (kwGet kws c!"primary_key").isSome then some (foldMarker c!"PK" doc₀) else doc₀
  let doc₂ := match raw.fk with
    | some v => some (foldMarker (c!"FK(" ++ (v ++ [')'])) doc₁)
    | none => doc₁
  -- nullable
  let typ ← (match kwGet kws c!"nullable" with
    | some v =>
      if truthy v then
        match raw.typ with
        | some t => pure (some (if startsWith t c!"Optional[" then t else c!"Optional[" ++ (t ++ [']'])))
        | none => throw "KeyError"
      else pure raw.typ
    | none => pure raw.typ : Except String (Option Str))
  -- the name
  let name ← (match c.args.head? with
    | some (.const (.str s)) => pure s
    | some (.name id) => if isIdentifier id then pure id else throw "unmodelled"
    | some _ => throw "unmodelled"
    | none => throw "IndexError" : Except String Str)
  let default := kwGet kws c!"default"
  let doc₃ := match default, doc₂ with
    | some _, some d => if endsWith name c!"kwargs" then some d else some (d ++ ['.'])
    | _, d => d
  return (name, { typ := typ, xSqlType := raw.xSqlType, doc := doc₃, default := default,
                  serverDefault := kwGet kws c!"server_default", noneKey := raw.noneKey,
                  comment := if (kwGet kws c!"doc").isSome then kwGet kws c!"comment" else none })

/-! ## The three emissions and their parsers (columns and table name) -/

structure IR where
  name : Str
  params : Params
deriving DecidableEq, Repr

/-- `Table(tname, <meta>, Column(…), …)`; the keywords (`comment=`, `keep_existing=True`) are not modelled -/
structure TableCall where
  tname : Str
  /-- the `Name` passed as second argument (`metadata` / `metadata_obj`) -/
  metaName : Str
  cols : List ColumnCall
deriving DecidableEq, Repr

/-- one statement of an emitted class body, by kind -/
inductive Stmt
  /-- `Expr(Constant(str))`: the docstring -/
  | docstring
  /-- `target = 'text'` -/
  | assignStr (target : Str) (v : Str)
  /-- `target = Column(…)` -/
  | assignCol (target : Str) (c : ColumnCall)
  /-- `target = Table(…)` -/
  | assignTable (target : Str) (t : TableCall)
  /-- a method -/
  | funcDef (name : Str)
deriving DecidableEq, Repr

structure ClassDef where
  name : Str
  body : List Stmt
deriving DecidableEq, Repr

/-- the columns every emitter produces: `map(param_to_sqlalchemy_column_calls, ensure_has_primary_key(params, force_pk_id).items())` -/
def emitCols (includeName force : Bool) (ps : Params) : Except String (List (Str × ColumnCall)) :=
  (ensurePK force ps).mapM (fun kv => do
    let c ← paramToColumn includeName kv
    pure (kv.1, c))

/-- `emit.sqlalchemy_table(ir, name=name, table_name=tableName, force_pk_id=force)`: `(assignment target, call)`.
    `ensure_valid_identifier` is the identity on the identifiers the harness uses and is not modelled. -/
def emitTableNamed (ir : IR) (name : Str) (tableName : Option Str) (force : Bool) : Except String (Str × TableCall) := do
  let cols ← emitCols true force ir.params
  let target := if name != c!"config_tbl" || ir.name.isEmpty then name else ir.name
  pure (target, { tname := setValueStr (tableName.getD name), metaName := c!"metadata", cols := cols.map (·.2) })

/-- as the command line calls it (`gen`, `exmod`): `sqlalchemy_table(ir, table_name=ir["name"], force_pk_id=force)` -/
def emitTable (force : Bool) (ir : IR) : Except String (Str × TableCall) :=
  emitTableNamed ir c!"config_tbl" (some ir.name) force

/-- `emit.sqlalchemy(ir, table_name=ir["name"], force_pk_id=force)`; `hasDoc` = a docstring statement is emitted -/
def emitClass (force : Bool) (hasDoc : Bool) (ir : IR) : Except String ClassDef := do
  let cols ← emitCols false force ir.params
  pure { name := ir.name,
         body := (if hasDoc then [Stmt.docstring] else []) ++
                 [Stmt.assignStr c!"__tablename__" (setValueStr ir.name)] ++
                 cols.map (fun kc => Stmt.assignCol kc.1 kc.2) ++
                 [Stmt.funcDef c!"__repr__"] }

/-- `emit.sqlalchemy_hybrid(ir, table_name=ir["name"], force_pk_id=force)`: `force_pk_id` is handed on to
    `sqlalchemy_table(name="__table__", table_name=table_name or ir["name"], force_pk_id=force_pk_id)` -/
def emitHybrid (force : Bool) (hasDoc : Bool) (ir : IR) : Except String ClassDef := do
  let (target, tbl) ← emitTableNamed ir c!"__table__" (some ir.name) force
  pure { name := ir.name,
         body := (if hasDoc then [Stmt.docstring] else []) ++
                 [Stmt.assignStr c!"__tablename__" (setValueStr ir.name), Stmt.assignTable target tbl,
                  Stmt.funcDef c!"__repr__", Stmt.funcDef c!"create_from_attr"] }

def Stmt.target? : Stmt → Option Str
  | .assignStr t _ => some t
  | .assignCol t _ => some t
  | .assignTable t _ => some t
  | _ => none

/-- `_merge_name_to_column`: `assign.value.args.insert(0, set_value(target))` -/
def mergeName (target : Str) (c : ColumnCall) : ColumnCall :=
  { c with args := .const (setValue (.str target)) :: c.args }

/-- `sqlalchemy_class_to_table(class_def)`: either the `__table__ = …` assignment itself (hybrid), or a `Table`
    call built from **every** assignment of the body except `__tablename__ = …` -/
def classToTable (cls : ClassDef) : Except String (Sum (Str × TableCall) TableCall) :=
  match cls.body.find? (fun s => s.target? == some c!"__table__") with
  | some (.assignTable t tbl) => .ok (.inl (t, tbl))
  | some _ => .error "unmodelled"      -- `__table__` bound to something that is not a `Table(…)` call
  | none =>
    match cls.body.find? (fun s => s.target? == some c!"__tablename__") with
    | some (.assignStr _ nm) =>
      let rest := cls.body.filter (fun s => s.target?.isSome && s.target? != some c!"__tablename__")
      (do
        let cols ← rest.mapM (fun s => match s with
          | .assignCol t c => pure (mergeName t c)
          | _ => throw "AttributeError")        -- `assign.value.args` of a constant / junk
        pure (.inr { tname := setValueStr nm, metaName := c!"metadata_obj", cols := cols }))
    | some _ => .error "unmodelled"
    | none => .error "StopIteration"

/-- `OrderedDict(pairs)` -/
def dictOfPairs (l : List (Str × Parsed)) : List (Str × Parsed) :=
  l.foldl (fun d kv => if d.any (·.1 == kv.1) then d.map (fun e => if e.1 == kv.1 then (e.1, kv.2) else e) else d ++ [kv]) []

/-- the parsed interface: table name and columns -/
structure ParsedIR where
  name : Str
  params : List (Str × Parsed)
deriving DecidableEq, Repr

/-- `parse.sqlalchemy_table(Call)`: the name is the first argument -/
def parseTableCall (t : TableCall) : Except String ParsedIR := do
  if !(t.cols.length > 0) then throw "AssertionError"     -- `assert len(call.args) > 2`
  let ps ← t.cols.mapM columnToParam
  pure { name := t.tname, params := dictOfPairs ps }

/-- `parse.sqlalchemy_table(Assign)`: the binding must carry the table's name -/
def parseTable (a : Str × TableCall) : Except String ParsedIR :=
  if a.2.tname != a.1 then .error "AssertionError" else parseTableCall a.2

/-- `parse.sqlalchemy(ClassDef)` = `parse.sqlalchemy_hybrid(ClassDef)`: a hybrid class is unwrapped to its call -/
def parseClass (cls : ClassDef) : Except String ParsedIR := do
  match ← classToTable cls with
  | .inl (_, tbl) => parseTableCall tbl
  | .inr tbl => parseTableCall tbl

/-- `sqlalchemy_table_to_class(name = Table(…))` (every `Column` call of the table becomes an assignment) -/
def tableToClass (a : Str × TableCall) : Except String ClassDef := do
  let cols ← a.2.cols.mapM (fun c => match c.args with
    | .const (.str nm) :: rest => pure (Stmt.assignCol nm { c with args := rest })
    | _ => throw "unmodelled")
  pure { name := a.1, body := Stmt.assignStr c!"__tablename__" (setValueStr a.2.tname) :: cols }

/-! ## The normalisation a column goes through (right-hand side of the round-trip theorem) -/

/-- the comment text a description is stored as: trailing dots removed; nothing when empty -/
def normText (s : Str) : Option Str :=
  let r := rstripChars s ['.']
  if r.isEmpty then none else some (setValueStr r)

/-- what a description comes back as: marker kept in front, one space behind it, trailing dots dropped,
    and a single `.` appended when the column has a default (unless the name ends in `kwargs`) -/
def normDoc (name : Str) (doc : Option Str) (hasDefault : Bool) : Option Str :=
  let d := doc.getD []
  let folded : Option Str :=
    if startsWith d c!"[PK]" then some (foldMarker c!"PK" (normText (lstrip (d.drop 4))))
    else if startsWith d c!"[FK" then
      let e : Int := findI d [']'] + 1
      some (foldMarker (c!"FK(" ++ (setValueStr (slice d (some 4) (some (e - 2))) ++ [')']))
                       (normText (lstrip (slice d (some e) none))))
    else normText d
  match folded with
  | some f => if hasDefault && !endsWith name c!"kwargs" then some (f ++ ['.']) else some f
  | none => none

def normVal : Val → Val
  | .str s => .str (setValueStr s)
  | v => v

end Sql
