import CddVerif.Py.Str
/-!
# Model of `cdd/shared/cst_utils.py` and `cdd/shared/cst.py` (property C09)

`Generic.*` is the control skeleton of `cst_scanner` / `cst_scan` with the three helper
decisions abstracted into `Preds`; the faithful model is its instance at `pyPreds`
(the character-level ports of `is_triple_quoted`, `balanced_parentheses`, `str.strip`, …).
Losslessness is proved for *every* `Preds`, hence for the faithful instance and for any future
change confined to those helpers.
-/
namespace Cst
open Py

/-! ## Generic skeleton -/

structure Preds where
  /-- `statement_stripped.startswith("#")` -/
  isComment : Str → Bool
  /-- `(has_triple_quotes, is_other_statement)` of `cst_scan` -/
  tripleOrOther : Str → Bool × Bool
  /-- does `add_and_clear` fire for this prefix of the statement (inner loop of `cst_scan`) -/
  innerCut : Str → Bool

namespace Generic

/-- inner loop of `cst_scan` (`is_other_statement` branch): emitted chunks, in order. -/
def innerLoop (p : Preds) : Str → Str → List Str → List Str
  | [], expr, acc => if expr.isEmpty then acc.reverse else (expr :: acc).reverse
  | c :: cs, expr, acc =>
    let expr' := expr ++ [c]
    if p.innerCut expr' then innerLoop p cs [] (expr' :: acc)
    else innerLoop p cs expr' acc

/-- `cst_scan`: (chunks appended to `scanned`, new `stack`). -/
def scan (p : Preds) (stack : Str) : List Str × Str :=
  let isC := p.isComment stack
  let (tq, other) := p.tripleOrOther stack
  if isC || tq || other then
    if isC then ([stack], [])
    else if other then (innerLoop p stack [] [], [])
    else ([stack], [])
  else ([], stack)

/-- the `for idx, ch in enumerate(source)` loop of `cst_scanner`. -/
def scannerLoop (p : Preds) : Str → List Str → Str → List Str × Str
  | [], scanned, stack => (scanned, stack)
  | c :: cs, scanned, stack =>
    if c = '\n' then
      let r := scan p stack
      scannerLoop p cs (scanned ++ r.1) (r.2 ++ [c])
    else scannerLoop p cs scanned (stack ++ [c])

/-- `cst_scanner` -/
def scanner (p : Preds) (src : Str) : List Str :=
  let (scanned, stack) := scannerLoop p src [] []
  let r := scan p stack
  let scanned := scanned ++ r.1
  if r.2.isEmpty then scanned else scanned ++ [r.2]

end Generic

/-! ## Faithful predicates -/

def tq1 : Str := ['\'', '\'', '\'']
def tq2 : Str := ['"', '"', '"']

/-- `cdd.shared.pure_utils.is_triple_quoted` -/
def isTripleQuoted (s : Str) : Bool :=
  s.length > 5 && ((startsWith s tq1 && endsWith s tq1) || (startsWith s tq2 && endsWith s tq2))

/-- counters of `balanced_parentheses` -/
structure BP where
  o1 : Nat := 0
  o2 : Nat := 0
  o3 : Nat := 0
  c1 : Nat := 0
  c2 : Nat := 0
  c3 : Nat := 0
  quote : Option Char := none

def bpStep (st : BP) (prev : Option Char) (ch : Char) : BP :=
  match st.quote with
  | some q =>
    if ch == q && (prev != some '\\') then { st with quote := none } else st
  | none =>
    if ch == '\'' || ch == '"' then { st with quote := some ch }
    else if ch == '(' then { st with o1 := st.o1 + 1 }
    else if ch == '[' then { st with o2 := st.o2 + 1 }
    else if ch == '{' then { st with o3 := st.o3 + 1 }
    else if ch == ')' then { st with c1 := st.c1 + 1 }
    else if ch == ']' then { st with c2 := st.c2 + 1 }
    else if ch == '}' then { st with c3 := st.c3 + 1 }
    else st

def bpLoop : BP → Option Char → Str → BP
  | st, _, [] => st
  | st, prev, c :: cs => bpLoop (bpStep st prev c) (some c) cs

/-- `cdd.shared.pure_utils.balanced_parentheses` -/
def balanced (s : Str) : Bool :=
  let st := bpLoop {} none s
  st.o1 == st.c1 && st.o2 == st.c2 && st.o3 == st.c3

/-- `tuple(filter(None, map(str.strip, stripped.split(" "))))` -/
def wordsOf (stripped : Str) : List Str := ((split1 stripped ' ').map strip).filter (fun w => !w.isEmpty)

def sDef : Str := ['d', 'e', 'f']
def sClass : Str := ['c', 'l', 'a', 's', 's']

/-- inner-loop decision of `cst_scan`: does `add_and_clear` fire for this expression prefix? -/
def innerCut (expr : Str) : Bool :=
  let st := strip expr
  if isTripleQuoted st || (startsWith st ['#'] && endsWith expr ['\n']) then true
  else if balanced st then
    if endsWith expr ['\n'] && !endsWith st ['\\']
        && (!endsWith st [':'] || (!contains st sClass && !contains st sDef))
        && !isspace expr && !startsWith st ['@'] then true
    else
      let ws := wordsOf st
      if ws.contains sDef || ws.contains sClass then
        (match ws.getLast? with | some w => endsWith w [':'] | none => false) && balanced st
      else false
  else false

def pyIsComment (stack : Str) : Bool := startsWith (strip stack) ['#']

def pyTripleOrOther (stack : Str) : Bool × Bool :=
  let st := strip stack
  if endsWith st ['\\'] then (false, false)
  else (isTripleQuoted st,
        !st.isEmpty && balanced st && (!startsWith st ['@'] || endsWith st [':'])
          && !startsWith st tq1 && !startsWith st tq2)

def pyPreds : Preds := { isComment := pyIsComment, tripleOrOther := pyTripleOrOther, innerCut := innerCut }

/-- the model of `cdd.shared.cst_utils.cst_scanner` -/
def scanner (src : Str) : List Str := Generic.scanner pyPreds src

/-! ## Parser: `cst_parser` / `cst_parse_one_node` / `infer_cst_type` / `get_construct_name` -/

structure Node where
  kind : String
  start : Nat
  stop : Nat
  value : Str
  name : Option Str := none
  isDoubleQ : Option Bool := none
  isDocstr : Option Bool := none
deriving Repr, BEq, DecidableEq

def L (s : String) : Str := s.toList

/-- `contains2statement` (insertion order irrelevant: lookup by key) -/
def contains2statement : List (Str × String) := [
  (['#'], "CommentStatement"), (L "pass", "PassStatement"), (L "del", "DelStatement"),
  (L "yield", "YieldStatement"), (L "break", "BreakStatement"), (L "continue", "ContinueStatement"),
  (L "global", "GlobalStatement"), (L "nonlocal", "NonlocalStatement"), (L "return", "ReturnStatement"),
  (L "raise", "RaiseStatement"), (L "except", "ExceptStatement"), (L "finally", "FinallyStatement"),
  (L "try", "TryStatement"), (L "from", "FromStatement"), (L "import", "ImportStatement"),
  (L "if", "IfStatement"), (L "elif", "ElifStatement"), (L "else:", "ElseStatement"),
  (L "with", "WithStatement"), (L "for", "ForStatement"), (L "while", "WhileStatement"),
  (L "match", "MatchStatement"), (L "case", "CaseStatement"), (L "True", "TrueStatement"),
  (L "False", "FalseStatement"), (L "None", "NoneStatement")]

/-- `augassign` — the first entry really is `"+=" "-="` = `"+=-="` in the source. -/
def augassign : List Str := [L "+=-=", L "*=", L "@=", L "/=", L "%=", L "&=", L "|=", L "^=", L "<<=", L ">>=", L "**=", L "//="]
def mathOperators : List Str := [L "@", L "/", L "//", L "*", L "**", L "+", L "-", L "%", L "&", L "|", L "<<", L ">>", L "<", L ">", L "==", L ">=", L "<=", L "^"]

def firstSome {α β} (f : α → Option β) : List α → Option β
  | [] => none
  | x :: xs => match f x with | some y => some y | none => firstSome f xs

/-- `infer_cst_type` → name of the node class -/
def inferCstType (st : Str) (words : List Str) : String :=
  if startsWith st ['['] then "ListCompStatement"
  else if startsWith st ['{'] then (if st.contains ':' then "DictExprStatement" else "SetExprStatement")
  else if startsWith st ['('] then "GenExprStatement"
  else match firstSome (fun w => (contains2statement.find? (fun kv => kv.1 == w)).map (·.2)) words with
  | some k => k
  | none =>
    if augassign.any (fun a => contains st a) then "AugAssignment"
    else if st.contains ':' && st.contains '=' then "AnnAssignment"
    else if st.contains '=' then "Assignment"
    else if mathOperators.any (fun m => contains st m) then "ExprStatement"
    else if st.contains '(' then "CallStatement"
    else "UnchangingLine"

/-- `words[idx + 1][: words[idx + 1].find(ch)]` including the `-1` (not found) slice. -/
def sliceToFind (w : Str) (i : Int) : Str := slice w none (some i)

/-- `get_construct_name` -/
def getConstructName : List Str → Option Str
  | w :: nxt :: rest =>
    if w == sDef then some (sliceToFind nxt (findI nxt ['(']))
    else if w == sClass then
      let e := findI nxt ['(']
      let e := if e == -1 then findI nxt [':'] else e
      some (sliceToFind nxt e)
    else getConstructName (nxt :: rest)
  | _ => none

/-- `cst_parse_one_node` given `prev_acc` and whether `prev_node` is a class/function start. -/
def parseOne (acc : Nat) (prevIsDef : Bool) (statement : Str) : Node :=
  let stop := acc + count1 statement '\n'
  let st := strip statement
  let words := wordsOf st
  let base : Node := { kind := "UnchangingLine", start := acc, stop := stop, value := statement }
  let isSingle := st.length > 5 && st.take 3 == tq1 && slice st (some (-3)) none == tq1
  let isDouble := st.length > 5 && !isSingle && st.take 3 == tq2 && slice st (some (-3)) none == tq2
  if isSingle || isDouble then
    { base with kind := "TripleQuoted", isDoubleQ := some isDouble, isDocstr := some prevIsDef }
  else if words.isEmpty then base
  else
    match (if words.length > 1 then getConstructName words else none) with
    | some nm =>
      { base with kind := (if words.head? == some sClass then "ClassDefinitionStart" else "FunctionDefinitionStart"),
                  name := some nm }
    | none => { base with kind := inferCstType st words }

def isDefKind (k : String) : Bool := k == "ClassDefinitionStart" || k == "FunctionDefinitionStart"

/-- `cst_parser` as a fold carrying (`acc`, `prev_node` is a definition start). -/
def parserLoop : Nat → Bool → List Str → List Node
  | _, _, [] => []
  | acc, prevIsDef, s :: rest =>
    let n := parseOne acc prevIsDef s
    n :: parserLoop n.stop (isDefKind n.kind) rest

def parser (chunks : List Str) : List Node := parserLoop 1 false chunks

/-- `cdd.shared.cst.cst_parse` -/
def cstParse (src : Str) : List Node := parser (scanner src)

end Cst
