import CddVerif.Model.SyncProperties
/-!
# `sync_properties` with SEVERAL (input-param, output-param) pairs in one call (C13)

`cdd/compound/sync_properties.py:sync_properties` parses both files once (`ast_parse` annotates them) and then runs
`sync_property` for every pair of `zip(input_params, output_params)` on the SAME output tree, which is **not**
re-annotated in between.  So the second and later rewrites see the `_location` / `_idx` attributes that the nodes
carry at that moment:

* a parameter created by `emit_arg` (from an annotated assignment, from the `--input-eval` node) has no `_location`
  and no `_idx`: it cannot be found again (the same output selected twice → `AssertionError`, nothing written);
* an input node that was put into the output tree *itself* (an `ast.arg` into a parameter list, an `AnnAssign` /
  class / function into a statement list) keeps the `_location` / `_idx` it has in the INPUT file, and it stays the
  same Python object as the node in the input tree: the wrap template is applied by assigning to
  `replacement_node.annotation`, so using the same input node again wraps its annotation once more — in the input
  tree and, through the alias, in every place of the output tree it was put into.

This file models exactly that state: trees whose nodes carry their stored `loc` / `idx` (`annotate`), an identity
`id` for the nodes of the input tree (aliasing), the rewrite on stored locations (`visitA`), one pair (`stepPair`) and
the loop (`syncAll`).  Everything else (what is *not* modelled, `Err`, `it2literal`, wrap template, `ast_parse`) is
shared with `CddVerif/Model/SyncProperties.lean`; for ONE pair both models give the same module (checked by the
harness on every single-pair case).
-/
namespace SyncProps
open PyAst

/-- identity of a node of the input tree: its position (see `annotateS`) -/
abbrev NodeId := List Nat

/-- an `ast.arg` with the attributes it carries -/
structure TArg where
  name : String
  ann : Option String := none
  /-- `_location` (`none`: the attribute is absent) -/
  loc : Option Loc := none
  /-- `_idx` -/
  idx : Option Int := none
  /-- which node of the input tree this object IS (`none`: a node of the output file or a freshly built one) -/
  id : Option NodeId := none
deriving DecidableEq, Repr, Inhabited

structure TArgs where
  posonly : List Arg := []
  args : List TArg := []
  vararg : Option Arg := none
  kwonly : List TArg := []
  kwDefaults : List (Option String) := []
  kwarg : Option Arg := none
  defaults : List String := []
deriving DecidableEq, Repr, Inhabited

/-- statements with their stored `_location` -/
inductive TStmt where
  | fn (async : Bool) (loc : Option Loc) (name : String) (args : TArgs) (body : List TStmt) (decos : List String)
      (returns : Option String)
  | cls (loc : Option Loc) (name : String) (bases keywords : List String) (body : List TStmt) (decos : List String)
  | ann (loc : Option Loc) (id : Option NodeId) (target ann : String) (value : Option String)
  | assign (loc : Option Loc) (targets : List String) (value : String)
  /-- an `ast.arg` sitting in a statement list (only where the emitted text is valid, see `placeA`) -/
  | argStmt (a : TArg)
  | strExpr (s : String)
  | expr (src : String)
  | other (src : String)
deriving Repr, Inhabited

abbrev TModule := List TStmt

def TStmt.loc? : TStmt → Option Loc
  | .fn _ l _ _ _ _ _ => l
  | .cls l _ _ _ _ _ => l
  | .ann l _ _ _ _ => l
  | .assign l _ _ => l
  | .argStmt a => a.loc
  | _ => none

def TStmt.defName? : TStmt → Option String
  | .fn _ _ n _ _ _ _ => some n
  | .cls _ n _ _ _ _ => some n
  | _ => none

def TStmt.body : TStmt → List TStmt
  | .fn _ _ _ _ b _ _ => b
  | .cls _ _ _ _ b _ => b
  | _ => []

/-! ## `annotate_ancestry` as stored attributes, and back -/

/-- `enumerate(args, start)`: `_idx`, `_location = fnLoc + [arg]`; `pos`/`tag`: identity of input-tree nodes -/
def annotArgsA (fnLoc : Loc) (pos : Option NodeId) (tag : Nat) : Int → Nat → List Arg → List TArg
  | _, _, [] => []
  | i, j, x :: xs =>
    { name := x.name, ann := x.ann, loc := some (fnLoc ++ [x.name]), idx := some i, id := pos.map (· ++ [tag, j]) } ::
      annotArgsA fnLoc pos tag (i + 1) (j + 1) xs

def annotArgs' (fnLoc : Loc) (pos : Option NodeId) (g : Args) : TArgs :=
  { posonly := g.posonly, args := annotArgsA fnLoc pos 0 (- selfOffset g) 0 g.args, vararg := g.vararg,
    kwonly := annotArgsA fnLoc pos 1 0 0 g.kwonly, kwDefaults := g.kwDefaults, kwarg := g.kwarg, defaults := g.defaults }

mutual
/-- a freshly parsed and annotated statement; `pos = some p` gives the nodes of the INPUT tree their identity -/
def annotateS (parent : Option String) (pos : Option NodeId) : Stmt → TStmt
  | .fn a n g b d r =>
    .fn a (some (parent.toList ++ [n])) n (annotArgs' (parent.toList ++ [n]) pos g) (annotateL (some n) pos 0 b) d r
  | .cls n bs ks b d => .cls (some (parent.toList ++ [n])) n bs ks (annotateL (some n) pos 0 b) d
  | .ann t a v => .ann (locOf parent (.ann t a v)) pos t a v
  | .assign ts v => .assign (locOf parent (.assign ts v)) ts v
  | .strExpr s => .strExpr s
  | .expr s => .expr s
  | .other s => .other s
def annotateL (parent : Option String) (pos : Option NodeId) (i : Nat) : List Stmt → List TStmt
  | [] => []
  | s :: ss => annotateS parent (pos.map (· ++ [2, i])) s :: annotateL parent pos (i + 1) ss
end

/-- `ast_parse` of the output file: annotated, no identities -/
def annotateOutput (m : Module) : TModule := annotateL none none 0 m
/-- `ast_parse` of the input file: annotated, every node its own identity -/
def annotateInput (m : Module) : TModule := annotateL none (some []) 0 m

def TArg.erase (a : TArg) : Arg := { name := a.name, ann := a.ann }

def TArgs.erase (g : TArgs) : Args :=
  { posonly := g.posonly, args := g.args.map TArg.erase, vararg := g.vararg, kwonly := g.kwonly.map TArg.erase,
    kwDefaults := g.kwDefaults, kwarg := g.kwarg, defaults := g.defaults }

mutual
/-- what the emitted file holds (attributes dropped; an `ast.arg` statement is emitted as `name: annotation`) -/
def eraseS : TStmt → Stmt
  | .fn a _ n g b d r => .fn a n g.erase (eraseL b) d r
  | .cls _ n bs ks b d => .cls n bs ks (eraseL b) d
  | .ann _ _ t a v => .ann t a v
  | .assign _ ts v => .assign ts v
  | .argStmt a => match a.ann with
    | some t => .ann a.name t none
    | none => .expr a.name
  | .strExpr s => .strExpr s
  | .expr s => .expr s
  | .other s => .other s
def eraseL : List TStmt → List Stmt
  | [] => []
  | s :: ss => eraseS s :: eraseL ss
end

/-! ## aliasing: `replacement_node.annotation = …` on an input node is seen wherever that object sits -/

def TArg.setAnn (id : NodeId) (w : String) (a : TArg) : TArg := if a.id == some id then { a with ann := some w } else a

mutual
def setAnnS (id : NodeId) (w : String) : TStmt → TStmt
  | .fn a l n g b d r =>
    .fn a l n { g with args := g.args.map (TArg.setAnn id w), kwonly := g.kwonly.map (TArg.setAnn id w) } (setAnnL id w b) d r
  | .cls l n bs ks b d => .cls l n bs ks (setAnnL id w b) d
  | .ann l i t a v => if i == some id then .ann l i t w v else .ann l i t a v
  | .argStmt a => .argStmt (a.setAnn id w)
  | s => s
def setAnnL (id : NodeId) (w : String) : List TStmt → List TStmt
  | [] => []
  | s :: ss => setAnnS id w s :: setAnnL id w ss
end

/-- assignment to `.annotation` of the object `id` (`none`: a fresh node, nobody else holds it) -/
def setAnnOpt (id : Option NodeId) (w : String) (m : TModule) : TModule :=
  match id with
  | some i => setAnnL i w m
  | none => m

/-! ## `find_in_ast` on the annotated input tree -/

inductive TNode where
  | stmt (s : TStmt)
  | arg (a : TArg)
deriving Repr, Inhabited

inductive TCursor where
  | stmts (ss : List TStmt)
  | argNode

inductive TForOut where
  | ret (n : TNode)
  | brk (child : TStmt) (cur : List String)
  | done (last : Option TStmt) (cursorIsArg : Bool) (cur : List String)

/-- `forLoop` of the single-pair model, on stored locations -/
def forLoopA (search : Loc) : List TStmt → String → List String → Option TStmt → Bool → TForOut
  | [], _, cur, last, ca => .done last ca cur
  | s :: rest, query, cur, _, ca =>
    if s.loc? == some search then .ret (.stmt s) else
    match s with
    | .fn false _ _ a _ _ _ =>
      let (query', cur') := match cur with
        | q :: c => (q, c)
        | [] => (query, [])
      match a.args.find? (·.name == query') with
      | some x => if cur'.isEmpty then .ret (.arg x) else forLoopA search rest query' cur' (some s) true
      | none => forLoopA search rest query' cur' (some s) ca
    | .ann _ _ t _ _ =>
      if isNameText t && t == query then .ret (.stmt s) else forLoopA search rest query cur (some s) ca
    | _ =>
      if s.defName? == some query then .brk s cur else forLoopA search rest query cur (some s) ca

def whileLoopA (search : Loc) : Nat → Option TStmt → TCursor → List String → Except Err (Option TNode)
  | 0, _, _, _ => .ok none
  | fuel + 1, child, cursor, cur =>
    match cur with
    | [] => .ok none
    | q :: rest =>
      if rest.isEmpty && (child.bind TStmt.defName?) == some q then .ok (child.map .stmt) else
      match cursor with
      | .argNode => .error .typeError
      | .stmts ss =>
        match forLoopA search ss q rest child false with
        | .ret n => .ok (some n)
        | .brk c cur' => whileLoopA search fuel (some c) (.stmts c.body) cur'
        | .done last ca cur' => whileLoopA search fuel last (if ca then .argNode else .stmts ss) cur'

def findA (search : Loc) (m : TModule) : Except Err (Option TNode) :=
  if search.isEmpty then .error .unsupported
  else whileLoopA search (search.length + 1) none (.stmts m) search

/-! ## `RewriteAtQuery` on stored locations -/

structure TState where
  replaced : Bool := false
  repl : TNode
  poisoned : Bool := false
  err : Option Err := none
  /-- ghost: a default was overwritten in a function in which nothing was replaced -/
  phantom : Bool := false
deriving Inhabited

def selfOffsetA (a : TArgs) : Int :=
  match a.args with
  | x :: _ => if isSelfCls x.name then 1 else 0
  | [] => 0

def defaultIndexA (a : TArgs) (idx : Int) : Int :=
  idx + selfOffsetA a - ((a.args.length : Int) - (a.defaults.length : Int))

/-- `next((_arg._idx for _arg in node.args.args if _arg.arg == name and hasattr(_arg, "_idx")), None)` -/
def idxOfNameA (a : TArgs) (name : String) : Option Int :=
  (a.args.findSome? fun x => if x.name == name then x.idx else none)

def idxOfTargetsA (a : TArgs) (targets : List String) : Option Int :=
  ((targets.flatMap fun t => a.args.filterMap fun x => if x.name == t then x.idx else none).find? (· != 0))

/-- `emit_arg(self.replacement_node)`: an `ast.arg` is kept AS THE SAME OBJECT (location, index, identity);
    from an assignment a new `ast.arg` without attributes is built -/
def asArgA : TNode → Option TArg
  | .arg r => some r
  | .stmt (.ann _ _ t ann _) => some { name := t, ann := some ann }
  | .stmt (.assign _ (t0 :: _) v) => some { name := t0, ann := some v }
  | .stmt _ => none

structure TPrep where
  args : TArgs
  repl : Option TArg
  poisoned : Bool := false
  touched : Bool := false

def prepareA (a : TArgs) (node : TNode) : TPrep :=
  match node with
  | .stmt (.ann _ _ t _ (some val)) =>
    match idxOfNameA a t with
    | some idx =>
      if inRange (defaultIndexA a idx) a.defaults.length then
        { args := { a with defaults := a.defaults.set (defaultIndexA a idx).toNat val }, repl := asArgA node, touched := true }
      else { args := a, repl := asArgA node }
    | none => { args := a, repl := asArgA node }
  | .stmt (.assign _ ts _) =>
    match idxOfTargetsA a ts with
    | some idx =>
      if inRange (defaultIndexA a idx) a.defaults.length then
        { args := a, repl := asArgA node, poisoned := true, touched := true }
      else { args := a, repl := asArgA node }
    | none => { args := a, repl := asArgA node }
  | _ => { args := a, repl := asArgA node }

def replaceFirstA (search : Loc) (r : TArg) : List TArg → List TArg × Bool
  | [] => ([], false)
  | x :: xs =>
    if x.loc == some search then (r :: xs, true)
    else ((replaceFirstA search r xs).1.cons x, (replaceFirstA search r xs).2)

/-- `visit_FunctionDef`: the function's STORED location against `search[:-1]`, the parameters' stored locations
    against `search` -/
def visitFnA (search : Loc) (st : TState) (loc : Option Loc) (a : TArgs) : TArgs × TState :=
  if st.replaced || st.err.isSome || loc != some search.dropLast then (a, st) else
  let p := prepareA a st.repl
  match p.repl with
  | none => (a, { st with err := some .assertion })
  | some r =>
    let ra := replaceFirstA search r p.args.args
    let rk := replaceFirstA search r p.args.kwonly
    ({ p.args with args := ra.1, kwonly := rk.1 },
     { st with repl := .arg r, replaced := ra.2 || rk.2, poisoned := st.poisoned || p.poisoned,
               phantom := st.phantom || (p.touched && !(ra.2 || rk.2)) })

def visitAsyncArgsA (search : Loc) (st : TState) : List TArg → List TArg × TState
  | [] => ([], st)
  | x :: xs =>
    if !st.replaced && st.err.isNone && x.loc == some search then
      match st.repl with
      | .arg r => (r :: xs, { st with replaced := true })
      | .stmt _ => (x :: xs, { st with err := some .unsupported })
    else ((visitAsyncArgsA search st xs).1.cons x, (visitAsyncArgsA search st xs).2)

def hitA (search : Loc) (st : TState) (s : TStmt) : Bool :=
  !st.replaced && st.err.isNone && s.loc? == some search

/-- the replacement node lands in a statement list (`argOk`: first statement of the module / only statement of a body) -/
def placeA (argOk : Bool) (st : TState) : TStmt × TState :=
  match st.repl with
  | .stmt r => (r, { st with replaced := true })
  | .arg a =>
    if argOk then (.argStmt a, { st with replaced := true })
    else (.other "<ast.arg>", { st with replaced := true, err := some .argInBody })

mutual
def visitA (search : Loc) (argOk : Bool) (st : TState) : TStmt → TStmt × TState
  | .fn false loc name a body ds ret =>
    ((.fn false loc name (visitFnA search st loc a).1 body ds ret), (visitFnA search st loc a).2)
  | .fn true loc name a body ds ret =>
    if hitA search st (.fn true loc name a body ds ret) then placeA argOk st else
    let r1 := visitAsyncArgsA search st a.args
    let r2 := visitAsyncArgsA search r1.2 a.kwonly
    let rb := visitListA search (body.length == 1) r2.2 body
    (.fn true loc name { a with args := r1.1, kwonly := r2.1 } rb.1 ds ret, rb.2)
  | .cls loc n bs ks body ds =>
    if hitA search st (.cls loc n bs ks body ds) then placeA argOk st else
    let rb := visitListA search (body.length == 1) st body
    (.cls loc n bs ks rb.1 ds, rb.2)
  | .ann l i t a v => if hitA search st (.ann l i t a v) then placeA argOk st else (.ann l i t a v, st)
  | .assign l ts v => if hitA search st (.assign l ts v) then placeA argOk st else (.assign l ts v, st)
  | .argStmt a => if hitA search st (.argStmt a) then placeA argOk st else (.argStmt a, st)
  | .strExpr s => (.strExpr s, st)
  | .expr s => (.expr s, st)
  | .other s => (.other s, st)
def visitListA (search : Loc) (argOk : Bool) (st : TState) : List TStmt → List TStmt × TState
  | [] => ([], st)
  | s :: ss =>
    let r := visitA search argOk st s
    let rs := visitListA search false r.2 ss
    (r.1 :: rs.1, rs.2)
end

def rewriteA (search : Loc) (repl : TNode) (m : TModule) : TModule × TState :=
  visitListA search true { repl := repl } m

/-! ## one pair, and the loop -/

structure Pair where
  inputParam : String
  outputParam : String
  /-- `--input-eval`: value bound to `inputParam` after executing the input module (`none`: not bound) -/
  evalValue : Option (List Const) := none

/-- the two trees between two pairs -/
structure MState where
  input : TModule
  output : TModule
  /-- an `ast.arg` was stored as a default value: `black` will raise at the end -/
  poisoned : Bool := false
  /-- ghost (no influence on the result): some pair overwrote a default in a function in which it replaced nothing -/
  phantom : Bool := false

def evalNodeA (p : Pair) (search : Loc) : Except Err TNode :=
  if p.inputParam.toList.contains '.' then .error .notImplemented
  else match p.evalValue with
    | none => .error .keyError
    | some vs => (it2literal vs).map fun lit => TNode.stmt (.ann none none (search.getLast?.getD "") lit none)

def foundNodeA (p : Pair) (input : TModule) : Except Err TNode :=
  match findA (stripSplit p.inputParam) input with
  | .error e => .error e
  | .ok none => .error .assertion
  | .ok (some n) => .ok n

/-- the wrap template: `replacement_node.annotation = …` — returns the node as it now is, and the identity whose
    annotation was assigned (with the new text) -/
def wrapNodeA (tmpl : String) : TNode → Except Err (TNode × Option (NodeId × String))
  | .arg a =>
    match a.ann with
    | none => .ok (.arg a, none)
    | some t => (formatWrap tmpl t).map fun w => (.arg { a with ann := some w }, a.id.map fun i => (i, w))
  | .stmt (.ann l i t a v) => (formatWrap tmpl a).map fun w => (.stmt (.ann l i t w v), i.map fun j => (j, w))
  | .stmt _ => .error .notImplemented

/-- the replacement node of one pair, and the two trees after the assignment to its `.annotation` -/
def replacementA (inputEval : Bool) (wrap : Option String) (ms : MState) (p : Pair) : Except Err (TNode × MState) :=
  match (if inputEval then evalNodeA p (stripSplit p.outputParam) else foundNodeA p ms.input) with
  | .error e => .error e
  | .ok node =>
    match wrap with
    | none => .ok (node, ms)
    | some t =>
      match wrapNodeA t node with
      | .error e => .error e
      | .ok (node', none) => .ok (node', ms)
      | .ok (node', some (i, w)) => .ok (node', { ms with input := setAnnL i w ms.input, output := setAnnL i w ms.output })

/-- `output_ast = sync_property(…, output_ast)` for one pair, on the trees as they stand -/
def stepPair (inputEval : Bool) (wrap : Option String) (ms : MState) (p : Pair) : Except Err MState :=
  match replacementA inputEval wrap ms p with
  | .error e => .error e
  | .ok (node, ms') =>
    let r := rewriteA (stripSplit p.outputParam) node ms'.output
    match r.2.err with
    | some e => .error e
    | none =>
      if !r.2.replaced then .error .assertion
      else .ok { ms' with output := r.1, poisoned := ms'.poisoned || r.2.poisoned, phantom := ms'.phantom || r.2.phantom }

/-- the `for input_param, output_param in zip(…)` loop: every pair, in order; the first exception ends the call -/
def loopPairs (inputEval : Bool) (wrap : Option String) : MState → List Pair → Except Err MState
  | ms, [] => .ok ms
  | ms, p :: ps =>
    match stepPair inputEval wrap ms p with
    | .error e => .error e
    | .ok ms' => loopPairs inputEval wrap ms' ps

/-- `sync_properties` on parsed modules: annotate both, run the loop, emit (`black` raises on a poisoned tree) -/
def syncAll (inputEval : Bool) (wrap : Option String) (pairs : List Pair) (input output : Module) : Except Err Module :=
  match loopPairs inputEval wrap { input := annotateInput (astParse input), output := annotateOutput (astParse output) } pairs with
  | .error e => .error e
  | .ok ms => if ms.poisoned then .error .invalidOutput else .ok (eraseL ms.output)

/-- … on files: only the output file is written, and only when every pair went through -/
def syncFilesAll (inputEval : Bool) (wrap : Option String) (pairs : List Pair) (fs : Files) : Except Err Files :=
  (syncAll inputEval wrap pairs fs.input fs.output).map fun out => { fs with output := out }

end SyncProps
