import CddVerif.Model.DocSplit
/-!
# Docstring emit / parse model (properties C01, C08, C14)

* **Emitter** — character-level port of `cdd.docstring.emit.docstring` (with `emit_param_str`, `set_default_doc`,
  `quote`, `needs_quoting`, `indent_all_but_first`, the newline accounting and `header_args_footer_to_str`) for
  the three styles, `indent_level = 0`, no `original_doc_str`.  `textwrap.fill` is the identity on the lines the
  model accepts (short, single-spaced); otherwise the model answers `outside` (it abstains).
* **Value level** — ports of `extract_default` (announce search with `location_within` semantics, the
  `.`-not-followed-by-digit stop rule with bracket counting) and `_parse_out_default_and_doc` (value cascade).
* **ReST parser** — a line-oriented reference parser that must agree with the real scanner/parser on the
  emitter's image and on line-level perturbations of it (checked by the correspondence), followed by ports of
  `interpolate_defaults` and `_set_name_and_type`/`_infer_default`.
-/
namespace Doc
open Py DocSplit

inductive Default where
  | int (i : Int)
  | float (repr : Str)
  | bool (b : Bool)
  | str (s : Str)
  | none
  | code (src : Str)
deriving DecidableEq, Repr

structure Param where
  typ : Option Str := Option.none
  doc : Option Str := Option.none
  default : Option Default := Option.none
deriving DecidableEq, Repr

structure IR where
  doc : Str := []
  params : List (Str × Param) := []
  returns : Option Param := Option.none
deriving DecidableEq, Repr

inductive Style | rest | google | numpydoc
deriving DecidableEq, Repr

inductive Out (α : Type) where
  | ok (a : α)
  | outside (why : String)
deriving Repr, DecidableEq

instance : Monad Out where
  pure := .ok
  bind x f := match x with | .ok a => f a | .outside w => .outside w

/-! ### constants (as character lists so that proofs can evaluate them) -/
def bt3 : Str := ['`', '`', '`']
def noneStr : Str := ['`', '`', '`', '(', 'N', 'o', 'n', 'e', ')', '`', '`', '`']
def sNone : Str := ['N', 'o', 'n', 'e']
def sTrue : Str := ['T', 'r', 'u', 'e']
def sFalse : Str := ['F', 'a', 'l', 's', 'e']
def defaultsTo : Str := [' ', 'D', 'e', 'f', 'a', 'u', 'l', 't', 's', ' ', 't', 'o', ' ']
def tab : Str := [' ', ' ', ' ', ' ']
def sStr : Str := ['s', 't', 'r']
def sOptStr : Str := ['O', 'p', 't', 'i', 'o', 'n', 'a', 'l', '[', 's', 't', 'r', ']']
def simpleTypes : List Str := [['i', 'n', 't'], ['f', 'l', 'o', 'a', 't'], ['c', 'o', 'm', 'p', 'l', 'e', 'x'], ['s', 't', 'r'], ['b', 'o', 'o', 'l']]
/-- `DEFAULTS_TO_VARIANTS`, in the tuple's order -/
def announceVariants : List Str := [
  ['d', 'e', 'f', 'a', 'u', 'l', 't', 's', ' ', 't', 'o', ' '],
  ['d', 'e', 'f', 'a', 'u', 'l', 't', 's', ' ', 't', 'o', '\n'],
  ['D', 'e', 'f', 'a', 'u', 'l', 't', ' ', 'v', 'a', 'l', 'u', 'e', ' ', 'i', 's', ' '],
  ['D', 'e', 'f', 'a', 'u', 'l', 't', ':'],
  ['d', 'e', 'f', 'a', 'u', 'l', 't', 's', '\n', ' ', 't', 'o', ' '],
  ['d', 'e', 'f', 'a', 'u', 'l', 't', 's', '\n', ' ', 't', 'o', '\n'],
  ['D', 'e', 'f', 'a', 'u', 'l', 't', ' ', 'v', 'a', 'l', 'u', 'e', '\n', ' ', 'i', 's', ' '],
  ['D', 'e', 'f', 'a', 'u', 'l', 't', 's', '\n', ' ', ' ', ' ', ' ', ' ', ' ', ' ', ' ', ' ', ' ', ' ', ' ', 't', 'o']]

/-! ### value rendering -/
def renderVal : Default → Str
  | .int i => intToStr i
  | .float r => r
  | .bool b => if b then sTrue else sFalse
  | .str s => s
  | .none => noneStr
  | .code s => s

/-- is the Python value of this default a `str`? -/
def Default.isPyStr : Default → Bool
  | .str _ | .none | .code _ => true
  | _ => false

def isIdentChar (c : Char) : Bool := isAsciiLetter c || isAsciiDigit c || c == '_'

/-- is there an identifier token `str` that is not an attribute (`x.str`) — i.e. an `ast.Name` with id `str` -/
def hasStrName : Option Char → Str → Bool
  | _, [] => false
  | prev, c :: cs =>
    let atStart := isIdentChar c && !(match prev with | some p => isIdentChar p | Option.none => false)
    if atStart then
      let ident := (c :: cs).takeWhile isIdentChar
      if ident == sStr && prev != some '.' then true else hasStrName (some c) cs
    else hasStrName (some c) cs

/-- `needs_quoting(typ)` on the type strings of the generated grammar (identifiers, dotted names, subscripts, quoted
    Literal members): a `Name` `str` or a string constant occurs in the type expression -/
def needsQuoting (typ : Option Str) : Bool :=
  match typ with
  | Option.none => false
  | some t =>
    if startsWith t ['*'] then false
    else if t == sStr || t == sOptStr then true
    else
      let t' := strip (t.filter (· != '\n'))
      hasStrName Option.none t' || t'.contains '\'' || t'.contains '"'

/-- `quote(s)` for a `str` argument -/
def quote (s : Str) : Str :=
  if s.isEmpty || (s.length > 1 && s.head? == s.getLast? && (s.head? == some '\'' || s.head? == some '"')) then s
  else ['"'] ++ s ++ ['"']

/-- `unquote(s)` -/
def unquote (s : Str) : Str :=
  if s.length > 1 && ((s.head? == some '"' && s.getLast? == some '"') || (s.head? == some '\'' && s.getLast? == some '\''))
  then (s.drop 1).dropLast else s

/-! ### `extract_default` / `_parse_out_default_and_doc` -/

def casefoldEq (a b : Str) : Bool := lower a == lower b

/-- `location_within(line, variants, cmp=casefold-eq)`: the FIRST VARIANT (in tuple order) that occurs anywhere,
    at its left-most position → (start, end) -/
def locateVariant (line : Str) : List Str → Option (Nat × Nat)
  | [] => Option.none
  | v :: vs =>
    if v.length > line.length then locateVariant line vs
    else match find (lower line) (lower v) with
      | some i => some (i, i + v.length)
      | Option.none => locateVariant line vs

/-- the scanning loop: take characters until a `.` that is not followed by a digit at bracket depth 0;
    `par` counts every bracket character (opening and closing alike, as the code does) -/
def takeDefault : Nat → Str → Str
  | _, [] => []
  | par, c :: cs =>
    if c == '.' && (match cs with | [] => true | d :: _ => !isAsciiDigit d) && par == 0 then []
    else
      let par' := if c == '{' || c == '[' || c == '(' || c == ')' || c == ']' || c == '}' then par + 1 else par
      c :: takeDefault par' cs

def parseNat (s : Str) : Nat := Nat.ofDigitChars 10 s 0

/-- a decimal literal `[-+]?D+.D+` whose text is assumed to be `repr(float(text))` (generator invariant, checked there) -/
def isFloatText (s : Str) : Bool :=
  let body := if s.head? == some '-' || s.head? == some '+' then s.drop 1 else s
  let a := body.takeWhile isAsciiDigit
  let rest := body.drop a.length
  !a.isEmpty && rest.head? == some '.' && !(rest.drop 1).isEmpty && (rest.drop 1).all isAsciiDigit

def floatCanon (s : Str) : Str := if s.head? == some '+' then s.drop 1 else s

/-- the value cascade of `_parse_out_default_and_doc`; `outside` where Python's `literal_eval`/`float` would be needed
    beyond decimal ints, simple decimals, booleans and quoted strings -/
def parseDefaultText (default : Str) (typ : Option Str) : Out Default :=
  let signedInt := (default.head? == some '-' || default.head? == some '+') && isdecimal (default.drop 1)
  let isSimple := match typ with | some t => simpleTypes.contains t | Option.none => false
  if isSimple && !(default == sNone || default == noneStr) then
    let t := typ.getD []
    if t != sStr && default.any (fun c => c == '*' || c == '^' || c == '&' || c == '|' || c == '$' || c == '@' || c == '!') then
      .ok (.code (bt3 ++ default ++ bt3))
    else
      -- literal_eval("({default})") on the literal forms of the domain
      let lit : Out Default :=
        if isdecimal default then .ok (.int (parseNat default))
        else if signedInt then .ok (.int (if default.head? == some '-' then -(parseNat (default.drop 1) : Int) else parseNat (default.drop 1)))
        else if default == sTrue then .ok (.bool true) else if default == sFalse then .ok (.bool false)
        else if isFloatText default then .ok (.float (floatCanon default))
        else if default.length > 1 && ((default.head? == some '"' && default.getLast? == some '"' && !((default.drop 1).dropLast).contains '"' && !default.contains '\\')
                                    || (default.head? == some '\'' && default.getLast? == some '\'' && !((default.drop 1).dropLast).contains '\'' && !default.contains '\\'))
          then .ok (.str ((default.drop 1).dropLast))
        else .outside "literal_eval beyond the modelled literals"
      match lit with
      | .outside w => .outside w
      | .ok v =>
        if t == ['i', 'n', 't'] then (match v with | .int i => .ok (.int i) | .bool b => .ok (.int (if b then 1 else 0)) | _ => .outside "int() of a non-int literal")
        else if t == ['f', 'l', 'o', 'a', 't'] then (match v with | .float r => .ok (.float r) | _ => .outside "float() of a non-float literal")
        else if t == ['b', 'o', 'o', 'l'] then (match v with | .bool b => .ok (.bool b) | .int i => .ok (.bool (i != 0)) | .str s => .ok (.bool (!s.isEmpty)) | _ => .outside "bool() of a float")
        else if t == sStr then (match v with | .str s => .ok (.str s) | other => .ok (.str (renderVal other)))
        else .outside "complex"
  else if isdecimal default then .ok (.int (parseNat default))
  else if signedInt then .ok (.int (if default.head? == some '-' then -(parseNat (default.drop 1) : Int) else parseNat (default.drop 1)))
  else if default == sTrue then .ok (.bool true)
  else if default == sFalse then .ok (.bool false)
  else if isFloatText default then .ok (.float (floatCanon default))
  else if default.any isAsciiDigit && default.all (fun c => isAsciiDigit c || c == '.' || c == 'e' || c == 'E' || c == '-' || c == '+' || c == '_')
    then .outside "float() syntax beyond simple decimals"
  else if lower default == "inf".toList || lower default == "nan".toList || lower default == "infinity".toList
        || lower default == "-inf".toList || lower default == "+inf".toList then .outside "float('inf'/'nan')"
  else .ok (.str default)

/-- does the line contain a parenthesised announce `(<variant>` ? (then the model abstains) -/
def hasParenAnnounce (line : Str) : Bool :=
  (locateVariant line (announceVariants.map (fun v => '(' :: v))).isSome

/-- `extract_default(line, typ=typ, emit_default_doc=edd)` → (doc, default) -/
def extractDefault (line : Str) (typ : Option Str) (edd : Bool) : Out (Str × Option Default) :=
  if hasParenAnnounce line then .outside "parenthesised default"
  else match locateVariant line announceVariants with
  | Option.none => .ok (line, Option.none)
  | some (startIdx, endIdx) =>
    let sub := line.drop endIdx
    let raw := takeDefault 0 sub
    let startRest := endIdx + raw.length
    let default := stripChars raw [' ', '\t', '`']
    match parseDefaultText default typ with
    | .outside w => .outside w
    | .ok v =>
      if edd then .ok (line, some v)
      else
        -- end = line[: _start_idx - 1]  (Python slice semantics incl. a negative bound)
        let endPart := slice line Option.none (some ((startIdx : Int) - 1))
        let extra : Nat := match endPart.getLast? with
          | some c => if c == ' ' || c == '\t' || c == '\n' then 1 else 0
          | Option.none => 0
        let off := ((line.drop startRest).takeWhile (fun c => c == ' ' || c == '\t' || c == '\n' || c == '.')).length
        let startRest := startRest + off
        let fst := slice line Option.none (some ((startIdx : Int) - 1 - extra))
        let rest := slice line (some (startRest : Int)) (if extra > 0 then some (-(extra : Int)) else Option.none)
        .ok (fst ++ rest, some v)

/-! ### emitter -/

/-- `set_default_doc((name, param), emit_default_doc)` → the new `doc` -/
def setDefaultDoc (name : Str) (p : Param) (edd : Bool) : Out (Option Str) :=
  match p.doc with
  | Option.none => .ok Option.none
  | some doc =>
    let hasDefaults := contains doc "Defaults".toList || contains doc "defaults".toList
    if hasDefaults && !edd then
      match extractDefault doc Option.none false with
      | .ok (d, _) => .ok (some d)
      | .outside w => .outside w
    else match p.default with
      | some v =>
        if !hasDefaults && edd then
          -- `default is not None or not name.endswith("kwargs")`: a modelled default is never Python `None`
          let _ := name
          let d := if v.isPyStr then
                     let s := renderVal v
                     if needsQuoting p.typ && (s.length < 2 || !startsWith s ['`'] || !endsWith s ['`']) then quote s else s
                   else renderVal v
          let base := match doc.getLast? with
            | some c => if c == '.' || c == ',' then doc else doc ++ ['.']
            | Option.none => doc ++ ['.']
          .ok (some (base ++ defaultsTo ++ d))
        else .ok (some doc)
      | Option.none => .ok (some doc)

/-- `fill` when word wrapping is on: identity on short single-spaced lines, otherwise outside the model -/
def fillLine (wordWrap : Bool) (l : Str) : Out Str :=
  if !wordWrap then .ok l
  else if l.length ≤ 100 && !l.any (fun c => isSpaceC c && c != ' ') && l.getLast? != some ' ' && !l.isEmpty then .ok l
  else .outside "textwrap.fill would re-flow this line"

/-- `indent_all_but_first(s)` -/
def indentAllButFirst (s : Str) : Str :=
  match split1 (indentDefault s tab) '\n' with
  | [] => []
  | l :: ls => join ['\n'] (lstrip l :: ls)

def truthy (o : Option Str) : Bool := match o with | some s => !s.isEmpty | Option.none => false

def sReturnType : Str := "return_type".toList

/-- `emit_param_str((name, param), style, purpose="function", …)` -/
def emitParamStr (name : Str) (p : Param) (style : Style) (emitType wordWrap edd : Bool) : Out Str := do
  let isRet := name == sReturnType
  let docLine : Out (Option Str) :=
    if truthy p.doc then (do
      let d ← setDefaultDoc name p edd
      return d)
    else .ok Option.none
  let d ← docLine
  match style with
  | .rest =>
    let key := if isRet then "return".toList else "param ".toList ++ name
    let keyTyp := if isRet then "rtype".toList else "type ".toList ++ name
    let l1 : Option Str := d.map (fun doc => [':'] ++ key ++ [':', ' '] ++ lstrip doc)
    let l2 : Option Str := if emitType && truthy p.typ then some ([':'] ++ keyTyp ++ [':', ' '] ++ bt3 ++ p.typ.getD [] ++ bt3) else Option.none
    let ls := ([l1, l2].filterMap id).filter (fun l => !l.isEmpty)
    let filled ← ls.mapM (fillLine wordWrap)
    return join ['\n'] (filled.map indentAllButFirst)
  | .numpydoc =>
    let l1 : Option Str :=
      if emitType && truthy p.typ then
        some (if isRet then p.typ.getD [] else name ++ [' ', ':'] ++ (if truthy p.typ then [' '] ++ p.typ.getD [] else []))
      else Option.none
    let l1 ← match l1 with | some l => (do let f ← fillLine wordWrap l; return some f) | Option.none => pure Option.none
    let l2 ← match d with
      | some doc => (do let f ← fillLine wordWrap (indentDefault doc tab); return some f)
      | Option.none => pure Option.none
    return join ['\n'] (([l1, l2].filterMap id).filter (fun l => !l.isEmpty))
  | .google =>
    let p1 : Option Str :=
      if isRet then (if truthy p.typ then some ([' ', ' '] ++ p.typ.getD [] ++ [':']) else Option.none)
      else if truthy p.typ then some ([' ', ' '] ++ name ++ [' ', '('] ++ p.typ.getD [] ++ [')', ':', ' '])
      else some ([' ', ' '] ++ name ++ [':', ' '])
    let p2 : Option Str := d.map (fun doc => (if isRet then ['\n', ' ', ' ', ' '] else []) ++ doc)
    return (([p1, p2].filterMap id).filter (fun l => !l.isEmpty)).flatten

def argToken : Style → Str
  | .rest => ":param".toList | .google => "Args:".toList | .numpydoc => "Parameters\n----------".toList
def returnToken : Style → Str
  | .rest => ":return".toList | .google => "Returns:".toList | .numpydoc => "Returns\n-------".toList

/-- `cdd.docstring.emit.docstring(ir, docstring_format=style, indent_level=0, word_wrap, emit_types, emit_default_doc)`
    (purpose "function", no `_internal.original_doc_str`) -/
def emit (ir : IR) (style : Style) (emitTypes wordWrap edd : Bool) : Out Str := do
  let blocks ← ir.params.mapM (fun np => emitParamStr np.1 np.2 style emitTypes wordWrap edd)
  let blocks := if !blocks.isEmpty && style != .rest then argToken style :: blocks else blocks
  let params := join (if style == .rest then ['\n', '\n'] else ['\n']) blocks
  let returns ← match ir.returns with
    | Option.none => pure []
    | some rp => do
      let line ← emitParamStr sReturnType rp style emitTypes wordWrap edd
      if line.isEmpty then pure []
      else pure ((if style == .rest then [] else ['\n'] ++ returnToken style)
                 ++ (if params.isEmpty || params.getLast? == some '\n' then [] else ['\n']) ++ line)
  let pe := nlsEnd params
  let re := nlsEnd returns
  let cand := params ++ (if pe < 2 && !returns.isEmpty then ['\n'] else []) ++ returns
              ++ (if (returns.isEmpty && pe > 0) || (!returns.isEmpty && re == 0) then ['\n'] else [])
  let out := hafToStr ir.doc (if isspace cand then [] else cand) []
  if out.isEmpty || isspace out then return []
  match find out ['\n'] with
  | Option.none => return (if out.head? == some '\n' then out else ['\n'] ++ out)
  | some _ => return out

/-! ### ReST reference parser -/

def restTokens : List Str := [":param".toList, ":type".toList, ":return".toList, ":rtype".toList]
def allRestTokens : List Str := [":param".toList, ":cvar".toList, ":ivar".toList, ":var".toList, ":type".toList, ":raises".toList, ":return".toList, ":rtype".toList]

/-- `interpolate_defaults((name, param), emit_default_doc=edd, require_default=False)` -/
def interpolateDefaults (p : Param) (edd : Bool) : Out Param :=
  match p.doc with
  | Option.none => .ok p
  | some doc =>
    match extractDefault doc p.typ edd with
    | .outside w => .outside w
    | .ok (doc', d) =>
      let p := { p with doc := some doc' }
      match d with
      | Option.none => .ok p
      | some (.str s) => .ok { p with default := some (.str (unquote s)) }
      | some v => .ok { p with default := some v }

def isNoneVal (o : Option Default) : Bool := o == some Default.none || o == some (.str sNone)

def tyName : Default → Str
  | .int _ => ['i', 'n', 't'] | .float _ => ['f', 'l', 'o', 'a', 't'] | .bool _ => ['b', 'o', 'o', 'l'] | _ => sStr

def optionalPrefix : Str := "Optional[".toList

/-- `_set_name_and_type((name, param), infer_type=False, word_wrap=True)` for plain parameter names -/
def setNameAndType (name : Str) (p : Param) : Out Param :=
  if endsWith name "kwargs".toList || startsWith name ['*'] then .outside "star / kwargs parameter" else do
  let wasNone := isNoneVal p.default
  -- merge_present_params(target=param, other={doc, default} from extract_default(doc))
  let p ← match p.doc with
    | Option.none => pure p
    | some doc => do
      let (doc2, d2) ← extractDefault doc Option.none true
      let p := if !truthy p.doc && !doc2.isEmpty then { p with doc := some doc2 } else p
      pure (if (p.default.isNone || isNoneVal p.default) && d2.isSome then { p with default := d2 } else p)
  -- _infer_default
  let p := match p.default with
    | Option.none => p
    | some v0 =>
      let v := if isNoneVal (some v0) then Default.none else v0
      let v := if needsQuoting p.typ || v.isPyStr then (match v with | Default.str s => Default.str (unquote s) | other => other) else v
      let p := if p.typ.isNone && v != Default.none then { p with typ := some (tyName v) } else p
      let p := match v with
        | .code _ => if !(p.typ.getD []).contains '[' then { p with typ := Option.none } else p
        | _ => p
      { p with default := some v }
  let p := match p.typ with
    | some t => if endsWith t ", optional".toList then { p with typ := some (optionalPrefix ++ t.take (t.length - 10) ++ [']']) } else p
    | Option.none => p
  let p := if p.doc == some [] then { p with doc := Option.none } else p
  -- __set_name_and_type_handle_doc_in_param (the ad-hoc type inference from prose is outside this model's domain)
  match p.doc with
  | Option.none => return p
  | some doc =>
    let doc := rstrip (join [' '] ((split1 doc '\n').map strip))
    let p := { p with doc := some doc }
    if (startsWith doc "(Optional)".toList || startsWith doc "Optional".toList || wasNone)
        && p.typ.isSome && !startsWith (p.typ.getD []) optionalPrefix
    then return { p with typ := some (optionalPrefix ++ p.typ.getD [] ++ [']']) }
    else return p

def stripBackticks3 (s : Str) : Str := replace s bt3 []

structure PState where
  header : List Str := []
  chunks : List (List Str) := []      -- reversed list of (reversed) chunks

/-- group lines into the header and chunks starting at a line that begins with a ReST token -/
def groupLines : List Str → Option (List Str) → List Str → List (List Str) → List Str × List (List Str)
  | [], cur, header, chunks => (header.reverse, (match cur with | some c => c.reverse :: chunks | Option.none => chunks).reverse)
  | l :: ls, cur, header, chunks =>
    if restTokens.any (fun t => startsWith l t) then
      groupLines ls (some [l]) header (match cur with | some c => c.reverse :: chunks | Option.none => chunks)
    else match cur with
      | Option.none => groupLines ls Option.none (l :: header) chunks
      | some c => groupLines ls (some (l :: c)) header chunks

/-- `params[name] = f(params.get(name, {}))`, keeping the position of an existing key -/
def upsert : List (Str × Param) → Str → (Param → Out Param) → Out (List (Str × Param))
  | [], name, f => match f {} with
    | .ok v => .ok [(name, v)]
    | .outside w => .outside w
  | (k, p) :: rest, name, f =>
    if k == name then
      match f p with
      | .ok v => .ok ((k, v) :: rest)
      | .outside w => .outside w
    else match upsert rest name f with
      | .ok r => .ok ((k, p) :: r)
      | .outside w => .outside w

/-- apply `f` to every value, keeping keys and order -/
def mapVals (f : Param → Out Param) : List (Str × Param) → Out (List (Str × Param))
  | [] => .ok []
  | (k, p) :: rest =>
    match f p with
    | .outside w => .outside w
    | .ok v => match mapVals f rest with
      | .ok r => .ok ((k, v) :: r)
      | .outside w => .outside w

/-- one chunk (a token line with its continuation lines) -/
def stepChunk (ir : IR) (ch : List Str) (edd : Bool) : Out IR :=
  let line := join ['\n'] ch
  if startsWith line ":return".toList || startsWith line ":rtype".toList then
    let nxt := (findAt line [':'] 1).getD line.length
    let val := strip (line.drop (nxt + 1))
    let cur : Param := ir.returns.getD {}
    let isT := startsWith line ":rtype".toList
    -- the real parser interpolates on the entry built from this chunk alone, then updates the return entry
    let one : Param := if isT then { typ := some (stripBackticks3 val) } else { doc := some val }
    match interpolateDefaults one edd with
    | .outside w => .outside w
    | .ok one =>
      let cur := { cur with typ := if isT then one.typ else cur.typ, doc := if isT then cur.doc else one.doc,
                            default := match one.default with | some d => some d | Option.none => cur.default }
      .ok { ir with returns := some cur }
  else
    let fs := (find line [' ']).getD line.length
    let nc := (findAt line [':'] fs).getD line.length
    let name := (line.take nc).drop (fs + 1)
    let val := strip (line.drop (nc + 1))
    let isT := startsWith line ":type".toList
    match upsert ir.params name (fun p =>
        let p := if isT then { p with typ := some (stripBackticks3 val) } else { p with doc := some val }
        match interpolateDefaults p edd with
        | .outside w => .outside w
        | .ok p => setNameAndType name p) with
    | .outside w => .outside w
    | .ok ps => .ok { ir with params := ps }

def foldChunks (edd : Bool) : IR → List (List Str) → Out IR
  | ir, [] => .ok ir
  | ir, ch :: rest => match stepChunk ir ch edd with
    | .outside w => .outside w
    | .ok ir' => foldChunks edd ir' rest

/-- `cdd.docstring.parse.docstring(text, emit_default_doc=edd)` on ReST text whose tokens stand at line starts -/
def parseRest (text : Str) (edd : Bool) : Out IR :=
  let lines := split1 text '\n'
  if lines.any (fun l => allRestTokens.any (fun t => contains (l.drop 1) t)) then .outside "token inside a line"
  else if lines.any (fun l => [":raises".toList, ":cvar".toList, ":ivar".toList, ":var".toList].any (fun t => startsWith l t))
    then .outside "raises / cvar / ivar / var field"
  else
    let (header, chunks) := groupLines lines Option.none [] []
    match foldChunks edd { doc := strip (join ['\n'] header) } chunks with
    | .outside w => .outside w
    | .ok ir =>
      -- final pass of `parse_docstring` for ReST: interpolate_defaults over params and returns
      match mapVals (fun p => interpolateDefaults p edd) ir.params with
      | .outside w => .outside w
      | .ok ps =>
        match ir.returns with
        | Option.none => .ok { ir with params := ps }
        | some r => match interpolateDefaults r edd with
          | .outside w => .outside w
          | .ok v => .ok { ir with params := ps, returns := some v }

end Doc
