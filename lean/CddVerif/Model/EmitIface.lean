import CddVerif.Py.Str
/-!
# Model for C04 — what the class / function / argparse emitters decide for one IR parameter, and what the
# emitted subset *means* when CPython runs it

Part 1 ports the decision logic of
* `cdd/shared/ast_utils.py`: `set_value`, `param2ast`, `_generic_param2ast`, `param2argparse_param`, `_resolve_arg`,
  `_parse_node_for_arg`, `infer_type_and_default` (+ `_infer_type_and_default_from_quoted`,
  `_infer_type_and_default_for_list_or_tuple`, `_parse_default_from_ast` on the code shapes listed at `CodeEval`),
* `cdd/shared/pure_utils.py`: `quote`, `code_quoted`, `simple_types`, `none_types`, `paren_wrap_code`,
* `cdd/shared/defaults_utils.py`: `needs_quoting`,
* `cdd/class_/emit.py:class_` (attribute list incl. the `return_type` attribute), `cdd/function/emit.py:function`
  (`arguments(...)` construction), `cdd/argparse_function/emit.py:argparse_function` (one `add_argument` per parameter).

The code is modelled *as it is*.  Type strings are represented by the AST `ast.parse` gives for them (`TExpr`); the
string predicates the code applies (`typ in simple_types`, `typ == "dict"`) are the corresponding structural
predicates (DESIGN.md §1, Tier B) — the harness checks on every case that the rendered string parses to the `TExpr`.
Docstrings inside the emitted nodes are not modelled (they do not take part in the interface; the harness only
checks that the emitted source compiles with them).

Part 2 is a small denotational semantics of the emitted subset: `classAttrs`, `signature`, `actionOf`,
`acceptsTok` / `accepts`, `parseArgs` (abstract `argparse`).  CPython, `inspect` and `argparse` themselves are not
verified; this semantics is validated against them by the correspondence on every generated program.
-/
namespace EmitIface
open Py

/-! ## names used by the code (char lists so that `decide`/`rfl` can evaluate comparisons) -/
def sInt : Str := ['i','n','t']
def sFloat : Str := ['f','l','o','a','t']
def sComplex : Str := ['c','o','m','p','l','e','x']
def sStr : Str := ['s','t','r']
def sBool : Str := ['b','o','o','l']
def sOptional : Str := ['O','p','t','i','o','n','a','l']
def sUnion : Str := ['U','n','i','o','n']
def sList : Str := ['L','i','s','t']
def sLiteral : Str := ['L','i','t','e','r','a','l']
def sAnnotated : Str := ['A','n','n','o','t','a','t','e','d']
def sTuple : Str := ['T','u','p','l','e']
def sCallable : Str := ['C','a','l','l','a','b','l','e']
def sAny : Str := ['A','n','y']
def sDict : Str := ['d','i','c','t']
def sLoads : Str := ['l','o','a','d','s']
def sPickleLoads : Str := ['p','i','c','k','l','e','.','l','o','a','d','s']
def sAppend : Str := ['a','p','p','e','n','d']
def sKwargs : Str := ['k','w','a','r','g','s']
def sNone : Str := ['N','o','n','e']
def sParenNone : Str := ['(','N','o','n','e',')']
def sObject : Str := ['o','b','j','e','c','t']
def sStrCap : Str := ['S','t','r']
def sNoneType : Str := ['N','o','n','e','T','y','p','e']
def sEllipsisT : Str := ['e','l','l','i','p','s','i','s']
def sReturnType : Str := ['r','e','t','u','r','n','_','t','y','p','e']
def sStatic : Str := ['s','t','a','t','i','c']
def sDefault : Str := ['d','e','f','a','u','l','t']
def ticks : Str := ['`','`','`']
/-- `NoneStr` (Python ≥ 3.9) -/
def noneStr : Str := ticks ++ sParenNone ++ ticks
/-- keys of `simple_types` that are strings -/
def simpleTypes : List Str := [sInt, sFloat, sComplex, sStr, sBool]
def astConstNames : List Str := [['C','o','n','s','t','a','n','t'], ['N','a','m','e','C','o','n','s','t','a','n','t'], ['N','u','m']]
/-- the set in `_resolve_arg`: resolved types whose argument is required unless `Optional` is seen -/
def requiredTyps : List Str :=
  [sStr, sComplex, sInt, sFloat, ['a','n','y','s','t','r'], ['l','i','s','t'], ['t','u','p','l','e'], sDict]

/-! ## constants and type expressions -/

/-- a Python constant (`ast.Constant.value`, an IR default, a run-time value); floats are kept as their `repr` -/
inductive Const
  | int (i : Int) | float (repr : Str) | bool (b : Bool) | str (s : Str) | none | ellipsis
deriving DecidableEq, Repr, Inhabited

/-- `type(c).__name__` -/
def Const.typeName : Const → Str
  | .int _ => sInt | .float _ => sFloat | .bool _ => sBool | .str _ => sStr | .none => sNoneType | .ellipsis => sEllipsisT

/-- the AST `ast.parse(typ).body[0].value` of a type string -/
inductive TExpr
  | name (id : Str)
  | const (c : Const)
  | sub (value slice : TExpr)
  | tuple (elts : List TExpr)
  | attr (value : TExpr) (attr : Str)
  | list (elts : List TExpr)
  /-- `left | right` (PEP 604 union: `ast.BinOp` with `BitOr`) -/
  | binop (left right : TExpr)
deriving Repr, Inhabited

/-- `ast.iter_child_nodes` without the `ctx` nodes (which no visitor here looks at) -/
def TExpr.children : TExpr → List TExpr
  | .name _ => [] | .const _ => []
  | .sub v s => [v, s]
  | .tuple es => es
  | .attr v _ => [v]
  | .list es => es
  | .binop l r => [l, r]

mutual
def TExpr.size : TExpr → Nat
  | .name _ => 1 | .const _ => 1
  | .sub v s => 1 + v.size + s.size
  | .tuple es => 1 + sizeList es
  | .attr v _ => 1 + v.size
  | .list es => 1 + sizeList es
  | .binop l r => 1 + l.size + r.size
def sizeList : List TExpr → Nat
  | [] => 0
  | e :: es => e.size + sizeList es
end

/-- `ast.walk`: breadth-first, queue-based (`deque.popleft` / `extend(iter_child_nodes)`); fuel = number of nodes -/
def walkAux : Nat → List TExpr → List TExpr
  | 0, _ => []
  | _, [] => []
  | n + 1, x :: q => x :: walkAux n (q ++ x.children)
def walk (t : TExpr) : List TExpr := walkAux t.size [t]

def TExpr.isName (t : TExpr) (id : Str) : Bool := match t with | .name i => i == id | _ => false
/-- `typ in simple_types` (string keys) -/
def TExpr.simpleName : TExpr → Option Str
  | .name i => if simpleTypes.contains i then some i else none
  | _ => none

/-! ## `pure_utils` helpers -/

/-- `code_quoted(s)` on a `str` -/
def codeQuoted (s : Str) : Bool := decide (s.length > 6) && startsWith s ticks && endsWith s ticks
def isQuoteC (c : Char) : Bool := c == '"' || c == '\''
/-- `s[0] == s[-1] and s[0] in ("'", '"')` (for `len(s) ≥ 1`) -/
def sameQuoteEnds (s : Str) : Bool :=
  match s.head?, s.getLast? with
  | some a, some b => a == b && isQuoteC a
  | _, _ => false
/-- the test of `set_value`: `len(value) > 2 and value[0] + value[-1] in ('""', "''")` -/
def quoteWrapped (s : Str) : Bool := decide (s.length > 2) && sameQuoteEnds s
/-- `set_value(value)`: the constant actually stored (a quote-wrapped string loses its quotes) -/
def setValue : Const → Const
  | .str s => if quoteWrapped s then .str ((s.drop 1).dropLast) else .str s
  | c => c
/-- `quote(s)` (`mark='"'`): non-strings (incl. `bool`, a subclass of `int`) and already quoted strings unchanged -/
def quoteC : Const → Const
  | .str s => if s.length == 0 || (decide (s.length > 1) && sameQuoteEnds s) then .str s else .str ('"' :: s ++ ['"'])
  | c => c
/-- `paren_wrap_code` (Python ≥ 3.9) -/
def parenWrap (code : Str) : Str :=
  match code.head?, code.getLast? with
  | some a, some b =>
    if (a == '(' && b == ')') || (a == '[' && b == ']') || (a == '{' && b == '}') then code else '(' :: code ++ [')']
  | _, _ => code

/-! ## IR -/

/-- what CPython's `ast.parse` + `literal_eval` make of a code-quoted default (supplied with the input: the Python
    parser is not modelled).  Only the shapes the generator produces:
    numeric / bool literals, list literals of such, and expressions `literal_eval` rejects (BinOp, Call). -/
inductive CodeEval
  | scalar (c : Const) | emptySeq | single (c : Const) | multi (json : Str) | opaque (unparsed : Str)
deriving DecidableEq, Repr, Inhabited

/-- the value under the `default` key.  `str s` is a string that is **not** code-quoted; `none` is `NoneStr`
    (``"```(None)```"``); `code src ev` is ``"```src```"`` with `src` different from `None` / `(None)`. -/
inductive Default
  | int (i : Int) | float (r : Str) | bool (b : Bool) | str (s : Str) | none | code (src : Str) (ev : CodeEval)
deriving DecidableEq, Repr, Inhabited

/-- the Python object itself -/
def Default.raw : Default → Const
  | .int i => .int i | .float r => .float r | .bool b => .bool b | .str s => .str s
  | .none => .str noneStr
  | .code src _ => .str (ticks ++ src ++ ticks)

structure Param where
  name : Str
  /-- `none`: no `typ` key -/
  typ : Option TExpr
  doc : Str
  /-- `none`: no `default` key -/
  default : Option Default
deriving Repr, Inhabited

structure IR where
  name : Str
  doc : Str
  params : List Param
  /-- `returns["return_type"]` (its `name` field is ignored) -/
  returns : Option Param
deriving Repr, Inhabited

/-- structural `Except` map (the emitters map over `params.items()`) -/
def mapE {α β} (f : α → Except String β) : List α → Except String (List β)
  | [] => .ok []
  | a :: as => match f a with
    | .error e => .error e
    | .ok b => match mapE f as with
      | .error e => .error e
      | .ok bs => .ok (b :: bs)

/-! ## Part 1a — class attributes (`param2ast`, `_generic_param2ast`) -/

/-- an emitted value: a `Constant`, or any other expression kept as its `ast.unparse` text -/
inductive Val
  | c (c : Const) | expr (src : Str)
deriving DecidableEq, Repr, Inhabited

inductive ClassStmt
  | annAssign (name : Str) (ann : TExpr) (value : Option Val)
  | assign (name : Str) (value : Val)
deriving Repr, Inhabited

/-- `needs_quoting(typ)`: a bare `Name` is `str` itself; anything else (subscripts, PEP 604 `X | Y` = `binop`, dotted names,
    forward-reference string constants) is searched with `ast.walk` for a `str` name or a string constant -/
def needsQuoting (t : TExpr) : Bool :=
  match t with
  | .name i => i == sStr
  | t => (walk t).any (fun n => match n with
      | .const (.str _) => true
      | .name i => i == sStr
      | _ => false)

/-- `get_default_val(val)` of `param2ast`: `None if val is None else set_value(None if val == NoneStr else val)` -/
def getDefaultVal (v : Option Const) : Option Val :=
  v.map (fun x => if x == .str noneStr then .c .none else .c (setValue x))

/-- `_generic_param2ast`: value of the `AnnAssign` -/
def genericValue (d : Option Default) : Except String (Option Val) :=
  match d with
  | none => .ok none
  | some .none => .ok (some (.c .none))                      -- code-quoted, inner text `(None)`
  | some (.code src ev) =>
    -- `ast.parse` of the back-quoted text is a SyntaxError → `set_value(default)` (the string, back-quotes included)
    if src == sNone then .ok (some (.c .none)) else .ok (some (.c (setValue (Default.raw (.code src ev)))))
  | some (.str s) =>
    -- a bare string under a non-`str` type is parsed as an expression (`ast.parse(default).body[0].value`)
    if s.isEmpty then .error "raises:IndexError" else .ok (some (.expr s))
  | some d => .ok (some (.c (setValue d.raw)))

/-- the `if "default" in _param:` block of `param2ast`: the type the rest of the function sees -/
def retype (d : Option Const) (typ : Option TExpr) : Except String (Option TExpr) :=
  match d, typ with
  | some (.str s), none =>
    if contains s ['['] then .ok none
    else if s == noneStr then .ok (some (TExpr.sub (.name sOptional) (.name sAny)))
    else .ok (some (.name sStr))
  | some _, none => .error "raises:TypeError"                 -- `iter(())("[")` on a non-container default
  | some _, some (.name i) =>
    if i == sStrCap then .ok (some (.name sStr))
    else if astConstNames.contains i then .ok (some (.name sObject))
    else .ok typ
  | _, t => .ok t

/-- the default handed to `get_default_val` in the `needs_quoting` branch -/
def quotedDefault (d : Option Const) : Option Const :=
  match d with
  | none => none
  | some x => if x == .str noneStr then some x else some (quoteC x)

/-- `param2ast` once the type is known to be present -/
def param2astTyped (name : Str) (t : TExpr) (dflt : Option Default) : Except String ClassStmt :=
  let d := dflt.map Default.raw
  if needsQuoting t then .ok (.annAssign name t (getDefaultVal (quotedDefault d)))
  else if (t.simpleName).isSome then .ok (.annAssign name t (getDefaultVal d))
  else if t.isName sDict then
    match dflt with
    | none => .ok (.annAssign name (.name sDict) (some (.expr ['{','}'])))
    | some _ => .error "unsupported: dict with default"
  else
    match genericValue dflt with
    | .error e => .error e
    | .ok v => .ok (.annAssign name t v)

/-- `param2ast((name, _param))` -/
def param2ast (p : Param) : Except String ClassStmt :=
  let d := p.default.map Default.raw
  match retype d p.typ with
  | .error e => .error e
  | .ok none => .ok (.assign p.name ((getDefaultVal d).getD (.c .none)))      -- plain `Assign`
  | .ok (some t) => param2astTyped p.name t p.default

structure ClassRec where
  name : Str
  bases : List Str
  body : List ClassStmt
deriving Repr, Inhabited

/-- dict `update` with the single key `return_type` (keeps the position of an existing key) -/
def updateReturn (ps : List Param) (r : Param) : List Param :=
  let r' := { r with name := sReturnType }
  if ps.any (·.name == sReturnType) then ps.map (fun p => if p.name == sReturnType then r' else p) else ps ++ [r']

/-- `cdd.class_.emit.class_` (defaults: `emit_call=False`): attribute statements after the docstring -/
def emitClass (bases : List Str) (ir : IR) : Except String ClassRec := do
  let ps := match ir.returns with | some r => updateReturn ir.params r | none => ir.params
  return { name := ir.name, bases, body := ← mapE param2ast ps }

/-! ## Part 1b — function signature (`cdd.function.emit.function`) -/

structure FuncCfg where
  typeAnnotations : Bool := true
  kwOnly : Bool := true
  /-- `function_type`: `none` / `static` → no first argument -/
  functionType : Option Str := none
deriving Repr, Inhabited, DecidableEq

structure ArgRec where
  name : Str
  ann : Option TExpr
deriving Repr, Inhabited

/-- `ast.arguments` + `returns` of the emitted `FunctionDef` -/
structure FuncRec where
  name : Str
  args : List ArgRec
  defaults : List Val
  kwonly : List ArgRec
  kwDefaults : List Val
  kwarg : Option Str
  returns : Option TExpr
deriving Repr, Inhabited

/-- `param[1].get("default") in none_types` then `set_value(None)` else `set_value(default)` -/
def funcDefault (d : Option Default) : Val :=
  match d with
  | none => .c .none
  | some d => if d.raw == .str sNone || d.raw == .str noneStr then .c .none else .c (setValue d.raw)

def emitFunction (cfg : FuncCfg) (ir : IR) : FuncRec :=
  let ps := ir.params.filter (fun p => !endsWith p.name sKwargs)
  let first : List ArgRec := match cfg.functionType with
    | none => []
    | some ft => if ft == sStatic then [] else [{ name := ft, ann := none }]
  let fromParams : List ArgRec := ps.map (fun p => { name := p.name, ann := if cfg.typeAnnotations then p.typ else none })
  let defs := ps.map (fun p => funcDefault p.default)
  { name := ir.name
    args := if cfg.kwOnly then first else first ++ fromParams
    defaults := if cfg.kwOnly then [] else defs
    kwonly := if cfg.kwOnly then fromParams else []
    kwDefaults := if cfg.kwOnly then defs else []
    kwarg := (ir.params.find? (fun p => endsWith p.name sKwargs)).map (·.name)
    returns := if cfg.typeAnnotations then ir.returns.bind (·.typ) else none }

/-! ## Part 1c — argparse (`param2argparse_param`, `_resolve_arg`, `_parse_node_for_arg`, `infer_type_and_default`) -/

/-- the four loop variables of `_resolve_arg` -/
structure RSt where
  req : Option Bool := none          -- `_required`
  action : Option Str := none
  choices : Option (List Const) := none
  typ : Option Str := some sStr
deriving Repr, Inhabited, DecidableEq

def TExpr.constVal? : TExpr → Option Const
  | .const c => some c
  | _ => none
/-- `get_value(Constant)`: `None` becomes `NoneStr` -/
def getValueC : Const → Const
  | .none => .str noneStr
  | c => c

/-- `_parse_node_for_arg` -/
def parseNode (st : RSt) (node : TExpr) : RSt :=
  match node with
  | .tuple elts =>
    let maybe := elts.filterMap TExpr.constVal?
    if maybe.length == elts.length then { st with choices := some (maybe.map getValueC) } else st
  | .name id =>
    let st1 : RSt :=
      if id == sOptional then { st with req := some false }
      else if simpleTypes.contains id then { st with typ := some id }
      else if id != sUnion then { st with typ := some sStr }      -- FALLBACK_TYP
      else st
    if id == sList then { st1 with action := some sAppend } else st1
  | _ => st

structure Resolved where
  action : Option Str
  choices : Option (List Const)
  required : Bool
  typ : Option Str
deriving Repr, Inhabited, DecidableEq

/-- `_resolve_arg(action=None, choices=None, (name, _param), required, typ="str")` after `setdefault("typ", "Any")` -/
def resolveArg (name : Str) (typ : Option TExpr) (required : Bool) : Resolved :=
  let t := typ.getD (.name sAny)
  let (st, required) : RSt × Bool :=
    match t.simpleName with
    | some id => ({ typ := some id }, required)
    | none =>
      if t.isName sDict || endsWith name sKwargs then ({ typ := some sLoads }, !endsWith name sKwargs)
      else ((walk t).foldl parseNode {}, required)
  let req : Option Bool :=
    if st.req.isNone && requiredTyps.contains (lower (st.typ.getD [])) then some true else st.req
  { action := st.action, choices := st.choices, required := req.getD required, typ := st.typ }

/-- result of `infer_type_and_default` (its `required` result is discarded by the caller) -/
structure Infer where
  action : Option Str
  default : Option Const
  typ : Option Str
deriving Repr, Inhabited, DecidableEq

/-- the `elif default is None:` branch -/
def inferNone (action : Option Str) (typ : Option Str) : Infer :=
  let hasOpt := match typ with | some t => contains t sOptional | none => false
  let keep := match typ with | some t => [sAny, sPickleLoads, sLoads].contains t | none => false
  { action, default := none, typ := if !hasOpt && !keep then none else typ }

def inferConst (action : Option Str) (c : Const) (typ : Option Str) : Infer :=
  match c with
  | .none => inferNone action typ
  | c => { action, default := some c, typ := some c.typeName }

/-- `infer_type_and_default(action, default, typ, required)` -/
def infer (action : Option Str) (d : Option Default) (typ : Option Str) : Infer :=
  match d with
  | none => inferNone action typ
  | some .none => inferNone action typ           -- code-quoted `(None)` → `literal_eval` → `None`
  | some (.code _ ev) =>
    match ev with
    | .scalar c => inferConst action c typ
    | .emptySeq => { action := some sAppend, default := none, typ := none }
    | .single c => { action := some sAppend, default := some c, typ := some c.typeName }
    | .multi js => { action, default := some (.str js), typ := some sLoads }
    | .opaque u => { action, default := some (.str (ticks ++ parenWrap u ++ ticks)), typ := none }
  | some d => inferConst action d.raw typ

/-- `"default"` occurs in the prose (every entry of `DEFAULTS_TO_VARIANTS` contains it, compared case-folded) -/
def triggerFree (doc : Str) : Bool := !contains (lower doc) sDefault
/-- `extract_default(doc, emit_default_doc=…)` on prose without a default sentence: `(doc, None)`.
    Prose *with* such a sentence is outside this model (it belongs to C01). -/
def extractDefault (doc : Str) : Except String (Str × Option Default) :=
  if triggerFree doc then .ok (doc, none) else .error "unsupported: doc announces a default"

/-- keywords of one `argument_parser.add_argument('--name', …)` call -/
structure AddArg where
  flag : Str
  type : Option Str
  choices : Option (List Const)
  action : Option Str
  help : Option Str
  required : Bool
  default : Option Const
deriving Repr, Inhabited, DecidableEq

def isTruthy (o : Option Str) : Bool := match o with | some s => !s.isEmpty | none => false

/-- `param2argparse_param` after `_resolve_arg` (result `r`) and `extract_default` (result `(doc, _default)`);
    `help` is the text before `fill` -/
def argparseFinish (name : Str) (r : Resolved) (dflt : Option Default) (doc : Str) (docDefault : Option Default) : AddArg :=
  let inf := infer r.action (match dflt with | some d => some d | none => docDefault) r.typ
  let required := if inf.default.isNone && dflt == some .none then false else r.required
  let action := if isTruthy inf.action then inf.action else r.action
  let typ := match inf.typ with | some t => some t | none => r.typ
  let required := if typ == some sPickleLoads then false else required
  let typ := if typ == some sStr && action.isNone then none else typ
  { flag := '-' :: '-' :: name, type := typ, choices := r.choices.map (·.map setValue), action,
    help := if doc.isEmpty then none else some doc, required, default := inf.default.map setValue }

/-- `param2argparse_param((name, _param), …)` once `extract_default` has split the prose into `(doc, _default)`;
    the initial `required` is `_param.get("default") is not None` -/
def argparseCore (p : Param) (doc : Str) (docDefault : Option Default) : AddArg :=
  argparseFinish p.name (resolveArg p.name p.typ p.default.isSome) p.default doc docDefault

/-- `param2argparse_param((name, _param), word_wrap, emit_default_doc)` -/
def param2argparse (p : Param) : Except String AddArg :=
  match extractDefault p.doc with
  | .error e => .error e
  | .ok (doc, docDefault) => .ok (argparseCore p doc docDefault)

/-- `cdd.argparse_function.emit.argparse_function`: the `add_argument` calls, in body order -/
def emitArgparse (ir : IR) : Except String (List AddArg) := mapE param2argparse ir.params

/-! ## Part 2 — semantics of the emitted subset -/

/-- what executing the class body binds: `__annotations__` and the class attributes, in body order
    (names are dict keys of the IR, hence distinct) -/
structure ClassSem where
  annotations : List (Str × TExpr)
  values : List (Str × Val)
deriving Repr, Inhabited

def classAttrs (c : ClassRec) : ClassSem :=
  { annotations := c.body.filterMap (fun s => match s with | .annAssign n a _ => some (n, a) | .assign _ _ => none)
    values := c.body.filterMap (fun s => match s with
      | .annAssign n _ (some v) => some (n, v)
      | .annAssign _ _ none => none
      | .assign n v => some (n, v)) }

inductive Kind | positional | kwOnly | varKw
deriving Repr, DecidableEq, Inhabited

structure SigParam where
  name : Str
  kind : Kind
  ann : Option TExpr
  default : Option Val
deriving Repr, Inhabited

structure FuncSem where
  params : List SigParam
  returns : Option TExpr
deriving Repr, Inhabited

/-- `inspect.signature` of a `def` with these `arguments`: `defaults` belong to the *last* positional parameters,
    `kw_defaults` pair up with `kwonlyargs`; more defaults than parameters does not compile -/
def signature (f : FuncRec) : Except String FuncSem :=
  if f.defaults.length > f.args.length then .error "SyntaxError: more defaults than positional parameters"
  else if f.kwDefaults.length != f.kwonly.length then .error "ValueError: kw_defaults and kwonlyargs differ in length"
  else
    let nNo := f.args.length - f.defaults.length
    let pos : List SigParam :=
      (f.args.take nNo).map (fun a => { name := a.name, kind := .positional, ann := a.ann, default := none }) ++
      ((f.args.drop nNo).zip f.defaults).map (fun ad => { name := ad.1.name, kind := .positional, ann := ad.1.ann, default := some ad.2 })
    let kw : List SigParam :=
      (f.kwonly.zip f.kwDefaults).map (fun ad => { name := ad.1.name, kind := .kwOnly, ann := ad.1.ann, default := some ad.2 })
    let vk : List SigParam := match f.kwarg with
      | some n => [{ name := n, kind := .varKw, ann := none, default := none }]
      | none => []
    .ok { params := pos ++ kw ++ vk, returns := f.returns }

/-- the callable `type=` resolves to in a namespace holding `builtins` + `typing` (absent = `str`, the identity) -/
inductive Conv | int | float | bool | str
deriving Repr, DecidableEq, Inhabited

/-- an `argparse.Action` as `ArgumentParser._actions` shows it -/
structure Action where
  dest : Str
  conv : Conv
  choices : Option (List Const)
  default : Option Const
  required : Bool
  help : Option Str
  append : Bool
deriving Repr, DecidableEq, Inhabited

/-- `add_argument` evaluated in the scratch namespace: unknown `type=` names are a `NameError`, `action=` other
    than `'append'` is outside the emitted subset -/
def actionOf (a : AddArg) : Except String Action := do
  let conv ← match a.type with
    | none => pure Conv.str
    | some t =>
      if t == sInt then pure Conv.int else if t == sFloat then pure Conv.float
      else if t == sBool then pure Conv.bool else if t == sStr then pure Conv.str
      else if t == sComplex then throw "unsupported: complex"
      else throw "raises:NameError"
  let append ← match a.action with
    | none => pure false
    | some s => if s == sAppend then pure true else throw "unsupported: action"
  return { dest := a.flag.drop 2, conv, choices := a.choices, default := a.default, required := a.required,
           help := a.help, append }

/-- a command-line string together with what CPython's `int()` / `float()` make of it
    (`float` values as `repr`); `classify` computes it for canonical decimal spellings -/
structure Tok where
  text : Str
  asInt : Option Int
  asFloat : Option Str
deriving Repr, DecidableEq, Inhabited

def convert (c : Conv) (t : Tok) : Option Const :=
  match c with
  | .str => some (.str t.text)
  | .int => t.asInt.map .int
  | .float => t.asFloat.map .float
  | .bool => some (.bool (!t.text.isEmpty))

/-- canonical decimal integer spelling `-?[0-9]+` -/
def parseNat (s : Str) : Option Nat :=
  if s.isEmpty || !s.all isAsciiDigit then none else some (s.foldl (fun n c => 10 * n + (c.toNat - '0'.toNat)) 0)
def parseIntLit (s : Str) : Option Int :=
  match s with
  | '-' :: r => (parseNat r).map (fun n => -(n : Int))
  | s => (parseNat s).map (fun n => (n : Int))

/-- the integer a constant is numerically equal to, if any (`bool` is an `int`; a float `repr` of the form `n.0`) -/
def Const.asInteger : Const → Option Int
  | .int i => some i
  | .bool true => some 1
  | .bool false => some 0
  | .float r => if endsWith r ['.', '0'] then parseIntLit (r.take (r.length - 2)) else Option.none
  | _ => Option.none

/-- Python `==` between the constants that can meet in a `choices` test: numerically for int / bool / integral
    floats, otherwise equal constants (floats by `repr`) -/
def pyEq (a b : Const) : Bool :=
  match a.asInteger, b.asInteger with
  | some x, some y => x == y
  | _, _ => a == b

/-- `argparse._get_value` + `_check_value` for one occurrence of the option -/
def convertChecked (a : Action) (t : Tok) : Option Const :=
  match convert a.conv t with
  | none => none
  | some v => match a.choices with
    | none => some v
    | some cs => if cs.any (pyEq v) then some v else none

def acceptsTok (a : Action) (t : Tok) : Bool := (convertChecked a t).isSome

/-- spelling `-?[0-9]+.[0-9]+` (already a `repr`) or an integer spelling (`float('3')` is `3.0`) -/
def parseFloatLit (s : Str) : Option Str :=
  let body := match s with | '-' :: r => r | r => r
  match split1 body '.' with
  | [a, b] => if (parseNat a).isSome && (parseNat b).isSome then some s else none
  | [_] => (parseIntLit s).map (fun i => intToStr i ++ ['.', '0'])
  | _ => none
def classify (s : Str) : Tok := { text := s, asInt := parseIntLit s, asFloat := parseFloatLit s }

/-- does the action turn this command-line string into a value (type conversion and `choices`)? -/
def accepts (a : Action) (s : Str) : Bool := acceptsTok a (classify s)

/-- a run-time value in the parsed namespace -/
inductive RVal | one (c : Const) | many (cs : List Const)
deriving Repr, DecidableEq, Inhabited

def lookupAll (argv : List (Str × Tok)) (flag : Str) : List Tok := (argv.filter (·.1 == flag)).map (·.2)

/-- value of one destination after `parse_args(argv)`; `argv` is a list of `--flag value` pairs -/
def parseOne (argv : List (Str × Tok)) (a : Action) : Except String (Str × RVal) :=
  match lookupAll argv ('-' :: '-' :: a.dest) with
  | [] =>
    if a.required then .error "exit: required"
    else match a.default with
      | some (.str s) =>
        -- a string default goes through the type conversion (not through `choices`)
        (match convert a.conv (classify s) with
         | some v => .ok (a.dest, .one v)
         | none => .error "exit: invalid default")
      | some c => .ok (a.dest, .one c)
      | none => .ok (a.dest, .one .none)
  | toks =>
    match toks.map (convertChecked a) with
    | vs =>
      if vs.any Option.isNone then .error "exit: invalid value"
      else if a.append then
        (match a.default with
         | none => .ok (a.dest, .many (vs.filterMap id))
         | some _ => .error "unsupported: append onto a default")
      else .ok (a.dest, .one ((vs.getLast?.bind id).getD .none))

/-- abstract `ArgumentParser.parse_args`: unknown flags exit; then every action is settled in order -/
def parseArgs (acts : List Action) (argv : List (Str × Tok)) : Except String (List (Str × RVal)) :=
  if argv.any (fun ft => !acts.any (fun a => ('-' :: '-' :: a.dest) == ft.1)) then .error "exit: unrecognized"
  else mapE (parseOne argv) acts

/-- the populated parser -/
def actions (ir : IR) : Except String (List Action) :=
  match emitArgparse ir with
  | .error e => .error e
  | .ok adds => mapE actionOf adds

end EmitIface
