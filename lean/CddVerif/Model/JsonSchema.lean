import CddVerif.Py.Str
import CddVerif.Gen.JsonSchemaTables
/-!
# C06 model — JSON-schema emit / parse (`cdd/json_schema/{emit,parse}.py`, `utils/{emit,parse}_utils.py`)

* `J` — JSON values with *ordered* objects (a Python `dict` is an association list with insertion order).
* `emitProp` / `emitT` / `emit` — port of `param2json_schema_property` / `emit.json_schema`, decision by decision
  (`emit` is `Except`: `Typ.emitError` — the real function raises on the ill-formed `Literal[]`, which is outside the
  domain; `emitT` is the dict it returns otherwise).  The input
  is the structured interface description `IR` (types as a small grammar `Typ`: the six JSON-representable names,
  `Literal[str, …]`, and `Optional[…]` of those).  The string predicates the code applies to the type string
  (`typ in typ2json_type`, `startswith("Optional[")`, `[len("Optional["):-1]`, `startswith("Literal[")`, the
  `ast.parse` of the `Literal[...]`) are the corresponding structural tests on `Typ`; `Typ.render` is the string the
  harness hands to the real code and the correspondence compares on every case.  The two type tables are
  REGENERATED from the source (`Gen.JsonSchemaTables`) and looked up by *name*.
* `parseProp` / `parse` — port of `json_schema_property_to_param` / `parse.json_schema` on JSON values (strings, not
  `Typ`: the parser builds type *strings*), for property objects without `anyOf` / `$ref` / `nullable` / `typ` keys
  (everything the emitter can produce and the mutants the harness builds; other inputs → `error "out-of-fragment"`).
  Python exceptions are `Except.error` (only ok-vs-raises is compared, the exception class is not part of the property).
* `emitDesc` / `parseDesc` — **reference** model (DESIGN §1 tier B) of the top-level `description`:
  `deindent(docstring(doc-only) + docstring(returns-only)).lstrip("\n") or ""` and `docstring.parse.docstring(description)`
  *on the trigger-free prose domain* `docOk` / `retOk` (printable ASCII, none of the docstring tokens, lines without
  edge blanks, return entry short enough not to be word-wrapped at 100 columns).  Outside that domain the two
  functions say nothing about the code; the correspondence runs them on the domain only.
* `validSchema` — decidable fragment of the draft 2020-12 meta-schema for every keyword the emitter can produce
  (`$id $schema description type properties required default pattern format`), tied to
  `jsonschema.Draft202012Validator.check_schema` by the harness (also on invalid mutants).
* `validates` — instance validation for the keywords of an emitted *property* schema (`type`, `pattern`).
* `patAccepts` — semantics of `re.search(pattern, s)` for patterns `m₁|m₂|…` of literal strings without
  regular-expression metacharacters (`plainChar`).  The emitter does not escape: for members *with* metacharacters the
  emitted pattern means something else (or nothing) — the model does not speak about its meaning there (`Typ.plain`),
  while emit/parse themselves are modelled for every member string.
-/
namespace JsonSchema
open Py
open Gen.JsonSchemaTables

-- `js!"abc"`: a string literal as an explicit list of character literals (reduces under `decide`)
open Lean in
macro:max "js!" s:str : term => do
  let cs := s.getString.toList
  let elems := cs.map (fun c => Syntax.mkCharLit c)
  `(([$(elems.toArray),*] : List Char))

/-! ## JSON values -/

inductive J where
  | null | bool (b : Bool) | int (i : Int) | float (repr : Str) | str (s : Str)
  | arr (xs : List J) | obj (kvs : List (Str × J))
  deriving Repr, Inhabited

mutual
def J.beq : J → J → Bool
  | .null, .null => true
  | .bool a, .bool b => a == b
  | .int a, .int b => a == b
  | .float a, .float b => a == b
  | .str a, .str b => a == b
  | .arr a, .arr b => J.beqs a b
  | .obj a, .obj b => J.beqKvs a b
  | _, _ => false
def J.beqs : List J → List J → Bool
  | [], [] => true
  | x :: xs, y :: ys => J.beq x y && J.beqs xs ys
  | _, _ => false
def J.beqKvs : List (Str × J) → List (Str × J) → Bool
  | [], [] => true
  | (k, x) :: xs, (l, y) :: ys => k == l && J.beq x y && J.beqKvs xs ys
  | _, _ => false
end

mutual
theorem J.beq_eq : ∀ a b : J, J.beq a b = true → a = b
  | .null, b => by cases b <;> simp [J.beq]
  | .bool a, b => by cases b <;> simp [J.beq]
  | .int a, b => by cases b <;> simp [J.beq]
  | .float a, b => by cases b <;> simp [J.beq]
  | .str a, b => by cases b <;> simp [J.beq]
  | .arr a, b => by
    cases b <;> simp [J.beq]
    exact J.beqs_eq a _
  | .obj a, b => by
    cases b <;> simp [J.beq]
    exact J.beqKvs_eq a _
theorem J.beqs_eq : ∀ a b : List J, J.beqs a b = true → a = b
  | [], b => by cases b <;> simp [J.beqs]
  | x :: xs, b => by
    cases b with
    | nil => simp [J.beqs]
    | cons y ys =>
      simp [J.beqs]
      intro h1 h2
      exact ⟨J.beq_eq x y h1, J.beqs_eq xs ys h2⟩
theorem J.beqKvs_eq : ∀ a b : List (Str × J), J.beqKvs a b = true → a = b
  | [], b => by cases b <;> simp [J.beqKvs]
  | (k, x) :: xs, b => by
    cases b with
    | nil => simp [J.beqKvs]
    | cons y ys =>
      obtain ⟨l, y⟩ := y
      simp [J.beqKvs]
      intro h0 h1 h2
      exact ⟨⟨h0, J.beq_eq x y h1⟩, J.beqKvs_eq xs ys h2⟩
end

mutual
theorem J.beq_refl : ∀ a : J, J.beq a a = true
  | .null => by simp [J.beq]
  | .bool a => by simp [J.beq]
  | .int a => by simp [J.beq]
  | .float a => by simp [J.beq]
  | .str a => by simp [J.beq]
  | .arr a => by simp [J.beq]; exact J.beqs_refl a
  | .obj a => by simp [J.beq]; exact J.beqKvs_refl a
theorem J.beqs_refl : ∀ a : List J, J.beqs a a = true
  | [] => by simp [J.beqs]
  | x :: xs => by simp [J.beqs]; exact ⟨J.beq_refl x, J.beqs_refl xs⟩
theorem J.beqKvs_refl : ∀ a : List (Str × J), J.beqKvs a a = true
  | [] => by simp [J.beqKvs]
  | (k, x) :: xs => by simp [J.beqKvs]; exact ⟨J.beq_refl x, J.beqKvs_refl xs⟩
end

instance : DecidableEq J := fun a b =>
  if h : J.beq a b = true then isTrue (J.beq_eq a b h)
  else isFalse (fun e => h (e ▸ J.beq_refl a))

/-- `d.get(k)` on an ordered dict (Python dict keys are unique; first match) -/
def lookup {α} (k : Str) : List (Str × α) → Option α
  | [] => none
  | (k', v) :: rest => if k' = k then some v else lookup k rest

def hasKey {α} (k : Str) (d : List (Str × α)) : Bool := (lookup k d).isSome

/-- Python truthiness of a JSON value (`if x:`) -/
def J.truthy : J → Bool
  | .null => false
  | .bool b => b
  | .int i => i != 0
  | .float r => !(r = js!"0.0" || r = js!"-0.0")
  | .str s => !s.isEmpty
  | .arr xs => !xs.isEmpty
  | .obj kvs => !kvs.isEmpty

/-! ## The interface description (input of the emitter) -/

/-- the six type names of the JSON-representable domain -/
inductive Base | int | float | str | bool | dict | list
  deriving DecidableEq, Repr

def Base.name : Base → Str
  | .int => js!"int" | .float => js!"float" | .str => js!"str" | .bool => js!"bool" | .dict => js!"dict" | .list => js!"list"

inductive Core
  | base (b : Base)
  | lit (members : List Str)      -- `Literal['m1', 'm2', …]` (string members)
  deriving DecidableEq, Repr

structure Typ where
  optional : Bool                 -- `Optional[…]`
  core : Core
  deriving DecidableEq, Repr

/-- `'{}'.format(m)` -/
def quote (m : Str) : Str := '\'' :: (m ++ ['\''])

def Core.render : Core → Str
  | .base b => b.name
  | .lit ms => js!"Literal[" ++ join js!", " (ms.map quote) ++ js!"]"

def Typ.render (t : Typ) : Str :=
  if t.optional then js!"Optional[" ++ t.core.render ++ js!"]" else t.core.render

/-- typed default values; `none` is `None` / `NoneStr` ("```(None)```"); `float` carries `repr(x)` -/
inductive Default
  | int (i : Int) | float (repr : Str) | bool (b : Bool) | str (s : Str) | none
  deriving DecidableEq, Repr

structure Param where
  typ : Typ
  doc : Option Str := none
  default : Option Default := none
  deriving DecidableEq, Repr

structure Ret where
  typ : Typ
  doc : Option Str := none
  deriving DecidableEq, Repr

structure IR where
  name : Option Str               -- `None` is formatted as "None"
  doc : Str
  params : List (Str × Param)     -- an `OrderedDict`: names are unique (hypothesis `Nodup` where it matters)
  returns : Option Ret
  deriving DecidableEq, Repr

/-! ## Emit -/

/-- Python `str` ordering (`sorted` on strings): lexicographic by code point -/
def strLe : Str → Str → Bool
  | [], _ => true
  | _ :: _, [] => false
  | a :: as, b :: bs => if a.toNat < b.toNat then true else if b.toNat < a.toNat then false else strLe as bs

def insertSorted (x : Str) : List Str → List Str
  | [] => [x]
  | y :: ys => if strLe x y then x :: y :: ys else y :: insertSorted x ys

/-- `sorted(members)` (strings: equal elements are identical, so stability is immaterial) -/
def sortStrs : List Str → List Str
  | [] => []
  | x :: xs => insertSorted x (sortStrs xs)

/-- `typ2json_type[t] if t in typ2json_type else t` -/
def jsonTypeOf (t : Str) : Str := (lookup t typ2jsonType).getD t

/-- `"|".join(sorted(members))` -/
def patternOf (ms : List Str) : Str := join ['|'] (sortStrs ms)

/-- `_param.get("default", False) in none_types` for a typed default -/
def Default.isNone : Default → Bool
  | .none => noneInNoneTypes
  | .str s => noneTypeStrs.contains s
  | _ => false

def Default.toJ : Default → J
  | .int i => .int i
  | .float r => .float r
  | .bool b => .bool b
  | .str s => .str s
  | .none => .null

/-- the `type` (and `pattern`) the emitter writes for a type (when it does not raise, see `emitError`).
    `typ in typ2json_type` → table value, required; otherwise `Optional[` is stripped (inner looked up in the table),
    else required; a `Literal[` then becomes `pattern` + `typ2json_type["str"]` (`type(enum[0]).__name__`; a missing
    `"str"` row would be a KeyError in the code — here the raw name, which `emitted_valid` cannot accept). -/
def emitType (t : Typ) : Str × Option Str :=
  match t.core with
  | .base b => (jsonTypeOf b.name, none)
  | .lit ms => (jsonTypeOf js!"str", some (patternOf ms))

/-- `param2json_schema_property` raises on the (ill-formed, outside the domain) `Literal[]`: `ast.parse("Literal[]")`
    is a SyntaxError.  A one-member `Literal['a']` — whose subscript is the member itself, not a `Tuple` — is emitted
    like any other `Literal` (since the `fix:` commit for C06-single-member-literal). -/
def Typ.emitError (t : Typ) : Option Str :=
  match t.core with
  | .lit [] => some js!"SyntaxError"
  | _ => none

/-- the default the emitter writes: `del _param["default"]` for a member of `none_types` -/
def emittedDefault (p : Param) : Option J := p.default.bind (fun d => if d.isNone then none else some d.toJ)

/-- the key/value list of an emitted property, by its four optional parts (keys in a fixed order; key order inside a
    property is not compared).  `if _param.get("doc")`: a truthy doc is renamed `description`, an empty one stays `doc`. -/
def dfltKvs : Option J → List (Str × J)
  | some d => [(js!"default", d)]
  | none => []
def docKvs : Option Str → List (Str × J)
  | some d => if d.isEmpty then [(js!"doc", .str d)] else [(js!"description", .str d)]
  | none => []
def patKvs : Option Str → List (Str × J)
  | some s => [(js!"pattern", .str s)]
  | none => []
def propKvs (dflt : Option J) (doc : Option Str) (ty : Str) (pat : Option Str) : List (Str × J) :=
  dfltKvs dflt ++ docKvs doc ++ [(js!"type", .str ty)] ++ patKvs pat

/-- `param2json_schema_property` (when it returns): the property object and whether the name is appended to `required`. -/
def emitProp (p : Param) : J × Bool :=
  (.obj (propKvs (emittedDefault p) p.doc (emitType p.typ).1 (emitType p.typ).2), !p.typ.optional)

/-- the return entry as the ReST emitter writes it (`:return: doc` only for a truthy doc; no word-wrap: domain) -/
def retText (r : Ret) : Str :=
  (match r.doc with
   | some d => if d.isEmpty then [] else js!":return: " ++ d ++ ['\n']
   | none => []) ++ js!":rtype: ```" ++ r.typ.render ++ js!"```"

/-- reference model of the top-level `description` on the trigger-free domain -/
def emitDesc (doc : Str) (ret : Option Ret) : Str :=
  match ret with
  | none => doc
  | some r => (if doc.isEmpty then [] else doc ++ ['\n']) ++ retText r

def schemaUrl : Str := js!"https://json-schema.org/draft/2020-12/schema"

/-- `"https://offscale.io/{}.schema.json".format(ir.get("name"))` -/
def idOf (name : Option Str) : Str :=
  js!"https://offscale.io/" ++ (name.getD js!"None") ++ js!".schema.json"

def emitProps (ps : List (Str × Param)) : List (Str × J) := ps.map (fun np => (np.1, (emitProp np.2).1))
def emitRequired (ps : List (Str × Param)) : List Str := (ps.filter (fun np => (emitProp np.2).2)).map (·.1)

/-- the first parameter (in order) on which `param2json_schema_property` raises -/
def emitError : List (Str × Param) → Option Str
  | [] => none
  | np :: rest => match np.2.typ.emitError with
    | some e => some e
    | none => emitError rest

/-- the dict `cdd.json_schema.emit.json_schema` returns when no parameter raises -/
def emitT (ir : IR) : J :=
  .obj [(js!"$id", .str (idOf ir.name)),
        (js!"$schema", .str schemaUrl),
        (js!"description", .str (emitDesc ir.doc ir.returns)),
        (js!"type", .str js!"object"),
        (js!"properties", .obj (emitProps ir.params)),
        (js!"required", .arr ((emitRequired ir.params).map .str))]

/-- `cdd.json_schema.emit.json_schema` -/
def emit (ir : IR) : Except Str J :=
  match emitError ir.params with
  | some e => .error e
  | none => .ok (emitT ir)

/-! ## Parse -/

/-- `s.split("|")` (structural, so that it can be reasoned about and evaluated by `decide`) -/
def splitBar : Str → List Str
  | [] => [[]]
  | c :: cs =>
    match splitBar cs with
    | [] => [[c]]   -- unreachable: `splitBar` never returns `[]`
    | l :: ls => if c = '|' then [] :: l :: ls else (c :: l) :: ls

/-- `s.split("\n")` -/
def splitNl : Str → List Str
  | [] => [[]]
  | c :: cs =>
    match splitNl cs with
    | [] => [[c]]
    | l :: ls => if c = '\n' then [] :: l :: ls else (c :: l) :: ls

/-- `str.isalpha` on ASCII (the only use, below, has the same outcome for every definition that implies non-empty) -/
def isalpha (s : Str) : Bool := !s.isEmpty && s.all isAsciiLetter

/-- `all(filter(str.isalpha, maybe_enum))` — `all` over the members that *are* alphabetic of their truthiness:
    always `True` (see `Proofs.JsonSchema.maybeEnum_always`) — every non-empty `pattern` becomes a `Literal`. -/
def maybeEnumOk (ms : List Str) : Bool := (ms.filter isalpha).all (fun m => !m.isEmpty)

def noneStr : Str := js!"```(None)```"

/-- parsed parameter: `typ` is a *string*; `doc` / `default` are whatever JSON the schema carried -/
structure PParam where
  typ : Option Str
  doc : Option J
  default : Option J
  extra : List (Str × J)          -- keys passed through untouched (`format`, unknown keywords, …)
  deriving DecidableEq, Repr

def consumed : List Str := [js!"description", js!"doc", js!"type", js!"pattern", js!"default"]
def outOfFragment : List Str := [js!"anyOf", js!"$ref", js!"nullable", js!"typ"]

/-- `if "description" in _param: _param["doc"] = _param.pop("description")` (an existing `doc` key stays otherwise) -/
def pickDoc (kvs : List (Str × J)) : Option J :=
  match lookup js!"description" kvs with
  | some d => some d
  | none => lookup js!"doc" kvs

/-- `if _param.get("type"): _param["typ"] = json_type2typ[_param.pop("type")]`; second component: a falsy `type`
    is neither used nor popped -/
def typeStep (typ0 : Option Str) (t : Option J) : Except Str (Option Str × List (Str × J)) :=
  match t with
  | some t =>
    if t.truthy then
      match t with
      | .str s => match lookup s jsonType2typ with
        | some r => .ok (some r, [])
        | none => .error js!"KeyError"
      | _ => .error js!"KeyError"         -- KeyError / TypeError (unhashable): only ok-vs-raises is compared
    else .ok (typ0, [(js!"type", t)])
  | none => .ok (typ0, [])

/-- `"Literal[{}]".format(", ".join(map("'{}'".format, maybe_enum)))` -/
def literalOf (ms : List Str) : Str := js!"Literal[" ++ join js!", " (ms.map quote) ++ js!"]"

/-- `if _param.get("pattern"): maybe_enum = pattern.split("|"); if all(filter(str.isalpha, maybe_enum)): typ = Literal[…]; del pattern` -/
def patternStep (typ1 : Option Str) (p : Option J) : Except Str (Option Str × List (Str × J)) :=
  match p with
  | some p =>
    if p.truthy then
      match p with
      | .str s =>
        if maybeEnumOk (splitBar s) then .ok (some (literalOf (splitBar s)), [])
        else .ok (typ1, [(js!"pattern", p)])
      | _ => .error js!"AttributeError"
    else .ok (typ1, [(js!"pattern", p)])
  | none => .ok (typ1, [])

/-- `if name not in required and _param.get("typ") and "Optional[" not in _param["typ"] (or _param.pop("nullable", False)):
    typ = "Optional[{}]".format(typ)` -/
def wrapOpt (required : List Str) (name t : Str) : Str :=
  if !required.contains name && !t.isEmpty && !Py.contains t js!"Optional[" then js!"Optional[" ++ t ++ js!"]" else t

/-- `if _param.get("default", False) in none_types: _param["default"] = NoneStr` -/
def normDefaultJ : J → J
  | .null => if noneInNoneTypes then .str noneStr else .null
  | .str s => if noneTypeStrs.contains s then .str noneStr else .str s
  | d => d

/-- `json_schema_property_to_param((name, _param), required)` -/
def parseProp (required : List Str) (name : Str) (v : J) : Except Str PParam :=
  match v with
  | .obj kvs =>
    if outOfFragment.any (fun k => hasKey k kvs) then .error js!"out-of-fragment" else
    -- if name.endswith("kwargs"): typ = "Optional[dict]"
    let typ0 : Option Str := if endsWith name js!"kwargs" then some js!"Optional[dict]" else none
    match typeStep typ0 (lookup js!"type" kvs) with
    | .error e => .error e
    | .ok (typ1, keptType) =>
    match patternStep typ1 (lookup js!"pattern" kvs) with
    | .error e => .error e
    | .ok (typ2, keptPattern) =>
    .ok { typ := typ2.map (wrapOpt required name), doc := pickDoc kvs,
          default := (lookup js!"default" kvs).map normDefaultJ,
          extra := keptType ++ keptPattern ++ kvs.filter (fun kv => !consumed.contains kv.1) }
  | _ => .error js!"not-a-dict"

structure PRet where
  typ : Option Str
  doc : Option Str
  deriving DecidableEq, Repr

structure PIR where
  name : Option J
  doc : Str
  params : List (Str × PParam)
  returns : Option PRet
  deriving DecidableEq, Repr

def isRetLine (l : Str) : Bool := startsWith l js!":return:" || startsWith l js!":rtype:"

/-- first line with the given prefix, prefix removed -/
def findLine (pre : Str) : List Str → Option Str
  | [] => none
  | l :: ls => if startsWith l pre then some (l.drop pre.length) else findLine pre ls

/-- reference model of `cdd.docstring.parse.docstring(description)` on the trigger-free domain: the header is every
    line before the first `:return:` / `:rtype:` line; the type is what stands between the backticks -/
def parseDesc (s : Str) : Str × Option PRet :=
  let ls := splitNl s
  let docLines := ls.takeWhile (fun l => !isRetLine l)
  let retLines := ls.dropWhile (fun l => !isRetLine l)
  (join ['\n'] docLines,
   if retLines.isEmpty then none
   else some { typ := (findLine js!":rtype: ```" retLines).map (fun t => t.takeWhile (· ≠ '`')),
               doc := findLine js!":return: " retLines })

def J.isNested : J → Bool | .arr _ => true | .obj _ => true | _ => false
def J.str? : J → Option Str | .str s => some s | _ => none

/-- `frozenset(schema["required"]) if schema.get("required") else frozenset()` (members that are not strings can
    never equal a parameter name; unhashable members raise) -/
def requiredSet (j : Option J) : Except Str (List Str) :=
  match j with
  | none => .ok []
  | some r =>
    if !r.truthy then .ok [] else
    match r with
    | .arr xs => if xs.any J.isNested then .error js!"TypeError" else .ok (xs.filterMap J.str?)
    | .str s => .ok (s.map (fun c => [c]))
    | .obj kvs => .ok (kvs.map (·.1))
    | _ => .error js!"TypeError"

def parseProps (required : List Str) : List (Str × J) → Except Str (List (Str × PParam))
  | [] => .ok []
  | (n, v) :: rest =>
    match parseProp required n v with
    | .error e => .error e
    | .ok p => match parseProps required rest with
      | .error e => .error e
      | .ok ps => .ok ((n, p) :: ps)

/-- `cdd.json_schema.parse.json_schema` -/
def parse (j : J) : Except Str PIR :=
  match j with
  | .obj kvs =>
    match requiredSet (lookup js!"required" kvs) with
    | .error e => .error e
    | .ok required =>
    let desc : Except Str Str := match lookup js!"description" kvs with
      | none => .ok []
      | some (.str s) => .ok s
      | some _ => .error js!"AssertionError"
    match desc with
    | .error e => .error e
    | .ok desc =>
    let (doc, ret) := parseDesc desc
    let props : Except Str (List (Str × PParam)) := match lookup js!"properties" kvs with
      | none => .ok []
      | some (.obj ps) => parseProps required ps
      | some _ => .error js!"AttributeError"
    match props with
    | .error e => .error e
    | .ok params =>
    let name : Option J := match lookup js!"name" kvs with
      | some n => some n
      | none => match lookup js!"id" kvs with
        | some n => some n
        | none => lookup js!"title" kvs
    .ok { name := name, doc := doc, params := params, returns := ret }
  | _ => .error js!"not-a-dict"

/-! ## The 2020-12 meta-schema fragment -/

def simpleTypes : List Str :=
  [js!"array", js!"boolean", js!"integer", js!"null", js!"number", js!"object", js!"string"]

def J.isStr : J → Bool | .str _ => true | _ => false

/-- array of unique strings (`stringArray`: `items: string`, `uniqueItems`) -/
def uniqueStrs : List J → Bool
  | [] => true
  | x :: xs => x.isStr && !xs.contains x && uniqueStrs xs

/-- `$id`: a string matching `^[^#]*#?$` (Python `re.search`; `$` also matches before one final newline) -/
def idOk : J → Bool
  | .str s =>
    let rest := s.dropWhile (· ≠ '#')
    rest.isEmpty || rest = ['#'] || rest = ['#', '\n']
  | _ => false

/-- `type`: one of `simpleTypes`, or a non-empty array of unique `simpleTypes` -/
def typeOk : J → Bool
  | .str s => simpleTypes.contains s
  | .arr xs => !xs.isEmpty && uniqueStrs xs && xs.all (fun x => match x with | .str s => simpleTypes.contains s | _ => false)
  | _ => false

def printable (c : Char) : Bool := 0x20 ≤ c.toNat && c.toNat < 0x7F

/-- the characters with a special meaning in a Python regular expression -/
def metaChars : List Char := ['.', '^', '$', '*', '+', '?', '{', '}', '[', ']', '\\', '|', '(', ')']

/-- printable ASCII that stands for itself in a regular expression -/
def plainChar (c : Char) : Bool := printable c && !metaChars.contains c

/-- characters of the regular expressions this fragment vouches for: alternations (`|`) of literal strings of
    `plainChar`s (every such string is a valid regular expression; anything else is answered `false`:
    under-approximation) -/
def patChar (c : Char) : Bool := plainChar c || c = '|'

def patternOk : J → Bool
  | .str s => s.all patChar
  | _ => false

/-- the keywords whose value is not itself a (map of) schema(s): `default` and keywords unknown to the meta-schema
    (`doc`, `x_typ`, …) accept anything -/
def kwCheck (k : Str) (v : J) : Bool :=
  if k = js!"$id" then idOk v
  else if k = js!"$schema" then v.isStr
  else if k = js!"description" then v.isStr
  else if k = js!"type" then typeOk v
  else if k = js!"required" then (match v with | .arr xs => uniqueStrs xs | _ => false)
  else if k = js!"pattern" then patternOk v
  else if k = js!"format" then v.isStr
  else true

mutual
/-- the decidable fragment: `validSchema j = true` ⇒ `check_schema(j)` passes; on the mutants the harness builds the
    two agree in both directions -/
def validSchema : J → Bool
  | .bool _ => true
  | .obj kvs => validKvs kvs
  | _ => false
def validKvs : List (Str × J) → Bool
  | [] => true
  | (k, v) :: rest => validKw k v && validKvs rest
/-- one keyword: `properties` must be an object whose values are schemas -/
def validKw (k : Str) : J → Bool
  | .obj ps => if k = js!"properties" then validProps ps else kwCheck k (.obj ps)
  | v => if k = js!"properties" then false else kwCheck k v
def validProps : List (Str × J) → Bool
  | [] => true
  | (_, v) :: rest => validSchema v && validProps rest
end

/-! ## Instance validation for property schemas (`type`, `pattern`) -/

/-- `p in s` (substring) -/
def isInfix (p s : Str) : Bool := Py.contains s p

/-- `re.search(pat, s) is not None` for `pat = m₁|m₂|…` with literal word-character alternatives -/
def patAccepts (pat s : Str) : Bool := (splitBar pat).any (fun alt => isInfix alt s)

/-- `repr(float)` without exponent whose fraction is all zeros (`1.0`, `-0.0`): an integer for JSON-schema -/
def integralRepr (r : Str) : Bool :=
  match splitOn1 '.' r [] with
  | [i, f] => !i.isEmpty && f.all (· = '0') && (i.all isAsciiDigit || (i.head? = some '-' && i.tail.all isAsciiDigit))
  | _ => false

def typeAccepts (t : Str) (inst : J) : Bool :=
  if t = js!"integer" then (match inst with | .int _ => true | .float r => integralRepr r | _ => false)
  else if t = js!"number" then (match inst with | .int _ => true | .float _ => true | _ => false)
  else if t = js!"string" then inst.isStr
  else if t = js!"boolean" then (match inst with | .bool _ => true | _ => false)
  else if t = js!"object" then (match inst with | .obj _ => true | _ => false)
  else if t = js!"array" then (match inst with | .arr _ => true | _ => false)
  else if t = js!"null" then (match inst with | .null => true | _ => false)
  else false

/-- does `inst` validate against a property schema whose assertion keywords are `type` (a string) and `pattern`?
    (`description`, `default`, `format`, unknown keywords are annotations) -/
def validates (schema : J) (inst : J) : Bool :=
  match schema with
  | .bool b => b
  | .obj kvs =>
    (match lookup js!"type" kvs with
     | some (.str t) => typeAccepts t inst
     | some _ => false            -- outside the fragment (type arrays are not produced by the emitter)
     | none => true) &&
    (match lookup js!"pattern" kvs, inst with
     | some (.str p), .str s => patAccepts p s
     | _, _ => true)              -- `pattern` only constrains strings
  | _ => false

/-! ## The domain the theorems quantify over -/

/-- members of a `Literal` *return* type (it travels through the docstring of the description): non-empty words of
    letters, digits, underscore -/
def wordChar (c : Char) : Bool := isAsciiLetter c || isAsciiDigit c || c = '_'
def memberOk (m : Str) : Bool := !m.isEmpty && m.all wordChar

def Typ.okRet (t : Typ) : Bool :=
  match t.core with
  | .base _ => true
  | .lit ms => !ms.isEmpty && ms.all memberOk

/-- characters of a `Literal` member of a *parameter*: any printable ASCII character except
    * `|` — it is the **separator** of the emitted pattern (`"|".join(members)`), the parser splits on it, so a member
      containing it comes back as two members;
    * `'` and `\` — the parser re-quotes the members with `"'{}'".format(m)`, without escaping. -/
def memberChar (c : Char) : Bool := printable c && c ≠ '|' && c ≠ '\'' && c ≠ '\\'
def memberWide (m : Str) : Bool := m.all memberChar

/-- a parameter type of the domain.  For a `Literal`: at least one member, every member of `memberChar`s (blanks,
    hyphens, dots, brackets, … allowed; the empty string too), but not the empty string *alone* (its pattern `""` is
    falsy and the parser then leaves the type `str`), and the rebuilt `Literal[...]` string must not contain the text
    `Optional[` (the parser's `"Optional[" not in typ` test would not re-wrap an `Optional[Literal['Optional[', …]]`). -/
def Typ.ok (t : Typ) : Bool :=
  match t.core with
  | .base _ => true
  | .lit ms => !ms.isEmpty && ms.all memberWide && decide (ms ≠ [[]]) &&
      !Py.contains (literalOf (sortStrs ms)) js!"Optional["

/-- every `Literal` member stands for itself as a regular expression (no metacharacter): the region on which the
    emitted, *unescaped* pattern is a valid regular expression that means its members -/
def Typ.plain (t : Typ) : Bool :=
  match t.core with
  | .base _ => true
  | .lit ms => ms.all (fun m => m.all plainChar)

/-- the docstring tokens (ReST, Google) whose presence anywhere switches the docstring parser's behaviour -/
def triggers : List Str :=
  [js!":param", js!":cvar", js!":ivar", js!":var", js!":type", js!":raises", js!":return", js!":rtype",
   js!"Args:", js!"Kwargs:", js!"Raises:", js!"Returns:"]

/-- a line of trigger-free prose: printable ASCII, no edge blanks, none of the tokens, not a numpydoc underline -/
def lineOk (l : Str) : Bool :=
  l.all printable && l.head? ≠ some ' ' && l.getLast? ≠ some ' ' &&
  triggers.all (fun t => !Py.contains l t) && !startsWith l js!"--"

/-- top-level prose: empty, or lines of trigger-free prose with a non-empty first and last line -/
def docOk (d : Str) : Bool :=
  d.isEmpty || ((splitNl d).all lineOk && (splitNl d).head? ≠ some [] && (splitNl d).getLast? ≠ some [])

def lowerAscii (s : Str) : Str := s.map lowerC

/-- return entry: type in the domain; doc absent or one non-empty line of trigger-free prose that does not
    announce a default; both lines short enough (≤ 100 columns) not to be word-wrapped -/
def retOk (r : Ret) : Bool :=
  r.typ.okRet && (js!":rtype: ```" ++ r.typ.render ++ js!"```").length ≤ 100 &&
  (match r.doc with
   | none => true
   | some d => !d.isEmpty && lineOk d && !Py.contains (lowerAscii d) js!"efault" && (js!":return: " ++ d).length ≤ 100)

/-- `repr` of a finite float without exponent: `-?digits.digits` -/
def floatReprOk (r : Str) : Bool :=
  match splitOn1 '.' r [] with
  | [i, f] => !f.isEmpty && f.all isAsciiDigit &&
    ((!i.isEmpty && i.all isAsciiDigit) || (i.head? = some '-' && !i.tail.isEmpty && i.tail.all isAsciiDigit))
  | _ => false

def identChar (c : Char) : Bool := isAsciiLetter c || isAsciiDigit c || c = '_'

/-- a default of the parameter's own type (`Optional[T]`: of `T`, or `None`; `Literal`: one of the members) -/
def typedDefault (t : Typ) (d : Default) : Bool :=
  match d with
  | .none => t.optional
  | .int _ => t.core = .base .int || t.core = .base .float
  | .float r => t.core = .base .float && floatReprOk r
  | .bool _ => t.core = .base .bool
  | .str s => t.core = .base .str || (match t.core with | .lit ms => ms.contains s | _ => false)

def paramOk (p : Param) : Bool :=
  p.typ.ok && (match p.default with | some d => typedDefault p.typ d | none => true)

/-- the JSON-representable domain of the property (any number of parameters) -/
def IR.ok (ir : IR) : Bool :=
  (match ir.name with | some n => n.all identChar | none => true) &&
  docOk ir.doc &&
  ir.params.all (fun np => paramOk np.2) &&
  (match ir.returns with | some r => retOk r | none => true)

/-- the sub-domain on which the unescaped patterns are what they are meant to be (see `Typ.plain`) -/
def IR.plain (ir : IR) : Bool := ir.params.all (fun np => np.2.typ.plain)

end JsonSchema
