/-!
# A `while` loop as a step function with a decreasing measure (property C11)

`Out.next s'`  — the condition held, the body ran and reached the end (or `continue`) with state `s'`
`Out.exitCond` — the condition was evaluated and is false
`Out.exitBreak`/`Out.exitReturn` — the condition held and the body left the loop
`Out.raise`    — evaluating the condition or the body raised

Every call of `step` corresponds to one evaluation of the `while` header in the real code, so
`run`'s counter equals the number of times a tracer sees the header line.
The field `dec` is the termination argument; Lean accepts `run` only because of it.
-/
namespace Loop

inductive Out (σ : Type) where
  | next (s : σ)
  | exitCond
  | exitBreak (s : σ)
  | raise
deriving Repr, DecidableEq

structure WhileLoop (σ : Type) where
  step : σ → Out σ
  measure : σ → Nat
  dec : ∀ s s', step s = .next s' → measure s' < measure s

inductive Exit | cond | brk | raise
deriving DecidableEq, Repr

/-- run the loop: final state, how it ended, number of header evaluations -/
def WhileLoop.run {σ : Type} (L : WhileLoop σ) (s : σ) : σ × Exit × Nat :=
  match h : L.step s with
  | .next s' =>
    let r := L.run s'
    (r.1, r.2.1, r.2.2 + 1)
  | .exitCond => (s, .cond, 1)
  | .exitBreak s' => (s', .brk, 1)
  | .raise => (s, .raise, 1)
termination_by L.measure s
decreasing_by exact L.dec s s' h

/-- fuel-indexed twin (reduces in the kernel, used for `decide` witnesses) -/
def WhileLoop.runFuel {σ : Type} (L : WhileLoop σ) : Nat → σ → Option (σ × Exit × Nat)
  | 0, _ => none
  | f + 1, s =>
    match L.step s with
    | .next s' => (L.runFuel f s').map (fun r => (r.1, r.2.1, r.2.2 + 1))
    | .exitCond => some (s, .cond, 1)
    | .exitBreak s' => some (s', .brk, 1)
    | .raise => some (s, .raise, 1)

/-- **Iteration bound:** the header is evaluated at most `measure s + 1` times. -/
theorem WhileLoop.run_count_le {σ : Type} (L : WhileLoop σ) (s : σ) : (L.run s).2.2 ≤ L.measure s + 1 := by
  induction hk : L.measure s using Nat.strongRecOn generalizing s with
  | _ k ih =>
    unfold WhileLoop.run
    split
    · rename_i s' h
      have hd := L.dec s s' h
      have := ih (L.measure s') (by omega) s' rfl
      simp only; omega
    · simp
    · simp
    · simp

/-- with `measure s + 1` fuel the fuelled twin agrees with `run` (so `run` really is "the loop") -/
theorem WhileLoop.runFuel_eq {σ : Type} (L : WhileLoop σ) (s : σ) (f : Nat) (hf : L.measure s < f) :
    L.runFuel f s = some (L.run s) := by
  induction f generalizing s with
  | zero => omega
  | succ f ih =>
    unfold WhileLoop.runFuel WhileLoop.run
    split
    · rename_i s' h
      have hd := L.dec s s' h
      split
      · rename_i s'' h'
        rw [h] at h'; cases h'
        rw [ih s' (by omega)]; rfl
      all_goals (rename_i h'; rw [h] at h'; cases h')
    · rename_i h; split <;> (rename_i h'; rw [h] at h'; try cases h') <;> rfl
    · rename_i s' h; split <;> (rename_i h'; rw [h] at h'; try cases h') <;> rfl
    · rename_i h; split <;> (rename_i h'; rw [h] at h'; try cases h') <;> rfl

end Loop
