import CddVerif.Py.Str
/-!
# Model of the OpenAPI generators (property C16)

Ported decision-by-decision from

* `cdd/compound/openapi/utils/emit_openapi_utils.py:components_paths_from_name_model_route_id_crud` → `step`
* `cdd/compound/openapi/emit.py:openapi` → `openapi`
* `cdd/compound/openapi/utils/parse_utils.py:extract_entities` → `extractEntities` (character level)
* `cdd/compound/openapi/parse.py:openapi` → `parseOpenapi` (`yaml.safe_load` / `json.loads` is a parameter)
* `cdd/routes/emit/bottle_constants_utils.py` + `cdd/routes/parse/bottle.py:bottle` → `templatePayload`
  (what `bottle()` returns for a route function produced by the create / read / destroy template, as a function of
  the entity name) and `payloadViaParse` (the same value computed through `parseOpenapi`)
* `cdd/compound/openapi/gen_routes.py:gen_routes` → `pickPk`, `genRoutes`; `upsert_routes` → `visibleRoutes`
* `cdd/compound/openapi/gen_openapi.py:openapi_bulk` → `bulkKey`, `bulkSchemas`, `groupBy`, `construct`, `bulk`

Python `dict` = association list in insertion order (`setKey` keeps the position of an existing key).
JSON values are the type `J`.  Only `CddVerif.Py.Str` is imported (this file is linked into the driver).
-/
namespace OpenApi
open Py

open Lean in
/-- `c!"abc"` is the character list `['a','b','c']` (string literals do not reduce in the kernel). -/
macro:max "c!" s:str : term => do
  let cs := s.getString.toList
  let elems ← cs.mapM fun c => `($(Syntax.mkCharLit c))
  `(([$elems.toArray,*] : List Char))

/-- JSON-like values (Python `None/bool/int/float/str/list/dict`); a float is carried as its `repr`. -/
inductive J where
  | null
  | bool (b : Bool)
  | num (n : Int)
  | flt (repr : Str)
  | str (s : Str)
  | arr (xs : List J)
  | obj (kvs : List (Str × J))
deriving Repr, Inhabited

abbrev Dict := List (Str × J)

/-- the Python exception classes the modelled code can raise -/
inductive PyErr | typeError | keyError | attributeError | stopIteration | assertionError
deriving Repr, DecidableEq, Inhabited

def PyErr.name : PyErr → String
  | .typeError => "TypeError"
  | .keyError => "KeyError"
  | .attributeError => "AttributeError"
  | .stopIteration => "StopIteration"
  | .assertionError => "AssertionError"

/-- `r` returned a value satisfying `p` (for `decide`d statements about `Except` results) -/
def okAnd {α} (r : Except PyErr α) (p : α → Bool) : Bool :=
  match r with
  | .ok a => p a
  | .error _ => false
/-- `r` raised `e` -/
def raises {α} (r : Except PyErr α) (e : PyErr) : Bool :=
  match r with
  | .ok _ => false
  | .error x => x == e

/-! ### Python dict operations on association lists -/

def hasKey {α} (d : List (Str × α)) (k : Str) : Bool := d.any (·.1 == k)

def lookup {α} : List (Str × α) → Str → Option α
  | [], _ => none
  | (k', v) :: rest, k => if k' == k then some v else lookup rest k

/-- `d[k] = v` -/
def setKey {α} (d : List (Str × α)) (k : Str) (v : α) : List (Str × α) :=
  if d.any (·.1 == k) then d.map (fun kv => if kv.1 == k then (k, v) else kv) else d ++ [(k, v)]

/-- `d.update(b)` -/
def update {α} (d b : List (Str × α)) : List (Str × α) := b.foldl (fun acc kv => setKey acc kv.1 kv.2) d

def keys {α} (d : List (Str × α)) : List Str := d.map (·.1)

/-! ### structural equality (for the driver and for `decide`d examples) -/
mutual
def J.beq : J → J → Bool
  | .null, .null => true
  | .bool a, .bool b => a == b
  | .num a, .num b => a == b
  | .flt a, .flt b => a == b
  | .str a, .str b => a == b
  | .arr a, .arr b => beqList a b
  | .obj a, .obj b => beqKvs a b
  | _, _ => false
def beqList : List J → List J → Bool
  | [], [] => true
  | x :: xs, y :: ys => x.beq y && beqList xs ys
  | _, _ => false
def beqKvs : List (Str × J) → List (Str × J) → Bool
  | [], [] => true
  | (k, x) :: xs, (l, y) :: ys => k == l && x.beq y && beqKvs xs ys
  | _, _ => false
end

/-! ### equality of JSON values as Python compares dicts (key order ignored; keys assumed unique) -/
mutual
def J.eqv : J → J → Bool
  | .null, .null => true
  | .bool a, .bool b => a == b
  | .num a, .num b => a == b
  | .flt a, .flt b => a == b
  | .str a, .str b => a == b
  | .arr a, .arr b => eqvList a b
  | .obj a, .obj b => a.length == b.length && eqvKvs a b
  | _, _ => false
def eqvList : List J → List J → Bool
  | [], [] => true
  | x :: xs, y :: ys => x.eqv y && eqvList xs ys
  | _, _ => false
/-- every key of the first dict is in the second, with an equal value -/
def eqvKvs : List (Str × J) → List (Str × J) → Bool
  | [], _ => true
  | (k, v) :: rest, b => (match lookup b k with | some w => v.eqv w | none => false) && eqvKvs rest b
end

/-- two dicts list the same keys in the same order with `eqv` values (used for `paths` and `requestBodies`) -/
def dictEqv : Dict → Dict → Bool
  | [], [] => true
  | (k, v) :: a, (k', v') :: b => k == k' && v.eqv v' && dictEqv a b
  | _, _ => false

/-! ### `$ref`s and their resolution -/

def refKey : Str := c!"$ref"

/-- `[s]` for a string value, `[]` otherwise -/
def J.strVal : J → List Str
  | .str s => [s]
  | _ => []

mutual
/-- every string value stored under a key `"$ref"`, anywhere in the value, in document order -/
def J.refs : J → List Str
  | .obj kvs => refsKvs kvs
  | .arr xs => refsList xs
  | _ => []
def refsKvs : List (Str × J) → List Str
  | [] => []
  | (k, v) :: rest =>
    (if k = refKey then v.strVal else []) ++ v.refs ++ refsKvs rest
def refsList : List J → List Str
  | [] => []
  | x :: xs => x.refs ++ refsList xs
end

/-- a local JSON pointer `#/a/b/c` → `["a","b","c"]` (RFC 6901 without `~0`/`~1` escapes) -/
def pointer (r : Str) : Option (List Str) :=
  if startsWith r c!"#/" then some (split1 (r.drop 2) '/') else none

/-- walk a key path through nested dicts -/
def getPath : J → List Str → Option J
  | j, [] => some j
  | .obj kvs, k :: ks => (lookup kvs k).bind (fun v => getPath v ks)
  | _, _ :: _ => none

/-- the reference `r` resolves inside the document `doc` -/
def resolves (doc : J) (r : Str) : Bool :=
  match pointer r with
  | some segs => (getPath doc segs).isSome
  | none => false

/-- **closed document:** every `$ref` of the document resolves to a value defined in the same document -/
def Closed (doc : J) : Prop := ∀ r ∈ doc.refs, resolves doc r = true
instance (doc : J) : Decidable (Closed doc) := by unfold Closed; infer_instance
def closedB (doc : J) : Bool := doc.refs.all (resolves doc)
def dangling (doc : J) : List Str := doc.refs.filter (fun r => !resolves doc r)

/-! ### path templates, declared parameters, operations -/

/-- the `{x}` template parameters of a path, left to right (`cur` = parameter being read) -/
def tparams : Str → Option Str → List Str
  | [], _ => []
  | c :: cs, none => if c == '{' then tparams cs (some []) else tparams cs none
  | c :: cs, some acc => if c == '}' then acc.reverse :: tparams cs none else tparams cs (some (c :: acc))

/-- names of the `in: path` entries of a path item's `parameters` list -/
def declared (item : J) : List Str :=
  match item with
  | .obj kvs =>
    match lookup kvs c!"parameters" with
    | some (.arr ps) =>
      ps.filterMap (fun p => match p with
        | .obj pk => (match lookup pk c!"in", lookup pk c!"name" with
          | some (.str i), some (.str n) => if i == c!"path" then some n else none
          | _, _ => none)
        | _ => none)
    | _ => []
  | _ => []

def httpMethods : List Str :=
  [c!"get", c!"put", c!"post", c!"delete", c!"options", c!"head", c!"patch", c!"trace"]

/-- the HTTP methods of one path item, in dict order -/
def methodsOf (item : J) : List Str :=
  match item with
  | .obj kvs => (keys kvs).filter (httpMethods.contains ·)
  | _ => []

def pathsOf (doc : J) : Dict :=
  match getPath doc [c!"paths"] with
  | some (.obj kvs) => kvs
  | _ => []

def bodiesOfDoc (doc : J) : Dict :=
  match getPath doc [c!"components", c!"requestBodies"] with
  | some (.obj kvs) => kvs
  | _ => []

/-- the path items that carry at least one operation -/
def withOps (paths : Dict) : Dict := paths.filter (fun kv => !(methodsOf kv.2).isEmpty)

/-- every (path, method) of the document, in dict order -/
def opsOfPaths (paths : Dict) : List (Str × Str) :=
  paths.flatMap (fun kv => (methodsOf kv.2).map (fun m => (kv.1, m)))
def allOps (doc : J) : List (Str × Str) := opsOfPaths (pathsOf doc)

/-- the `$ref` of the `requestBody` of every operation of one path item -/
def rbRefsItem (item : J) : List Str :=
  match item with
  | .obj ops => ops.flatMap (fun mo => match mo.2 with
      | .obj okv => (match lookup okv c!"requestBody" with
        | some (.obj rb) => (match lookup rb refKey with
          | some (.str r) => [r]
          | _ => [])
        | _ => [])
      | _ => [])
  | _ => []
/-- every request body referenced by an operation of the document -/
def requestBodyRefs (doc : J) : List Str := (pathsOf doc).flatMap (fun kv => rbRefsItem kv.2)

def ParamsDeclared (doc : J) : Prop :=
  ∀ kv ∈ pathsOf doc, ∀ x ∈ tparams kv.1 none, x ∈ declared kv.2
instance (doc : J) : Decidable (ParamsDeclared doc) := by unfold ParamsDeclared; infer_instance
def paramsDeclaredB (doc : J) : Bool :=
  (pathsOf doc).all (fun kv => (tparams kv.1 none).all (fun x => (declared kv.2).contains x))

/-! ### `cdd.compound.openapi.emit` -/

structure Entry where
  name : Str
  /-- the JSON-schema `dict` of the model -/
  model : Dict
  route : Str
  id : Str
  crud : Str
deriving Repr, Inhabited

/-- `{k: v for k, v in d.items() if not k.startswith("$")}` -/
def stripDollar (d : Dict) : Dict := d.filter (fun kv => !startsWith kv.1 c!"$")

def schemaPrefix : Str := c!"#/components/schemas/"
def bodyPrefix : Str := c!"#/components/requestBodies/"
def schemaRef (name : Str) : Str := schemaPrefix ++ name
def bodyName (name : Str) : Str := name ++ c!"Body"
def bodyRef (name : Str) : Str := bodyPrefix ++ bodyName name
def aObject (name : Str) : Str := c!"A `" ++ name ++ c!"` object."
def serverError : Str := c!"ServerError"

def refObj (r : Str) : J := .obj [(refKey, .str r)]
def jsonContent (r : Str) : J := .obj [(c!"application/json", .obj [(c!"schema", refObj r)])]
def response (desc r : Str) : J := .obj [(c!"description", .str desc), (c!"content", jsonContent r)]

/-- the `post` operation object written for `"C" in crud` -/
def postOp (name : Str) : J := .obj [
  (c!"summary", .str (aObject name)),
  (c!"requestBody", .obj [(c!"required", .bool true), (refKey, .str (bodyRef name))]),
  (c!"responses", .obj [
    (c!"201", response (aObject name) (schemaRef name)),
    (c!"400", response (aObject serverError) (schemaRef serverError))])]

def paramObj (id name : Str) : J := .obj [
  (c!"name", .str id),
  (c!"in", .str c!"path"),
  (c!"description", .str (c!"Primary key of target `" ++ name ++ c!"`")),
  (c!"required", .bool true),
  (c!"schema", .obj [(c!"type", .str c!"string")])]

def getOp (name : Str) : J := .obj [
  (c!"summary", .str (aObject name)),
  (c!"responses", .obj [
    (c!"200", response (aObject name) (schemaRef name)),
    (c!"404", response (aObject serverError) (schemaRef serverError))])]

def deleteOp (name : Str) : J := .obj [
  (c!"summary", .str (c!"Delete one `" ++ name ++ c!"`")),
  (c!"responses", .obj [(c!"204", .obj [])])]

def bodyObj (name : Str) : J := .obj [
  (c!"description", .str (aObject name)),
  (c!"required", .bool true),
  (c!"content", jsonContent (schemaRef name))]

/-- `not frozenset(crud) - frozenset("CRUD")` -/
def crudOK (crud : Str) : Bool := crud.all (fun c => c == 'C' || c == 'R' || c == 'U' || c == 'D')

/-- `"{route}/{{{id}}}".format(route=route, id=_id)` -/
def itemRoute (route id : Str) : Str := route ++ c!"/{" ++ id ++ c!"}"

/-- the two mutable dicts `components` (its two sub-dicts) and `paths` -/
structure Doc where
  requestBodies : Dict
  schemas : Dict
  paths : Dict
deriving Repr, Inhabited

/-- the path item written at `{route}/{id}` -/
def itemFor (e : Entry) : Dict :=
  let item0 : Dict := [(c!"parameters", .arr [paramObj e.id e.name])]
  let item1 := if e.crud.contains 'R' then setKey item0 c!"get" (getOp e.name) else item0
  if e.crud.contains 'D' then setKey item1 c!"delete" (deleteOp e.name) else item1

/-- `components_paths_from_name_model_route_id_crud(components, paths, name, model, route, _id, crud)` -/
def step (d : Doc) (e : Entry) : Doc :=
  let hasC := e.crud.contains 'C'
  let paths1 := if hasC then setKey d.paths e.route (.obj [(c!"post", postOp e.name)]) else d.paths
  let paths2 := if crudOK e.crud then setKey paths1 (itemRoute e.route e.id) (.obj (itemFor e)) else paths1
  { schemas := setKey d.schemas e.name (.obj (stripDollar e.model)),
    requestBodies := if hasC then setKey d.requestBodies (bodyName e.name) (bodyObj e.name) else d.requestBodies,
    paths := paths2 }

/-- `cdd.tests.mocks.json_schema.server_error_schema` -/
def serverErrorSchema : Dict := [
  (c!"$id", .str c!"https://offscale.io/error_json.schema.json"),
  (c!"$schema", .str c!"https://json-schema.org/draft/2020-12/schema"),
  (c!"description", .str c!"Error schema"),
  (c!"type", .str c!"object"),
  (c!"properties", .obj [
    (c!"error", .obj [(c!"description", .str c!"Name of the error"), (c!"type", .str c!"string")]),
    (c!"error_description", .obj [(c!"description", .str c!"Description of the error"), (c!"type", .str c!"string")]),
    (c!"error_code", .obj [
      (c!"description", .str c!"Code of the error (usually is searchable in a KB for further information)"),
      (c!"type", .str c!"string")]),
    (c!"status_code", .obj [(c!"description", .str c!"Status code (usually for HTTP)"), (c!"type", .str c!"number")])]),
  (c!"required", .arr [.str c!"error", .str c!"error_description"])]

def init : Doc :=
  { requestBodies := [], schemas := [(serverError, .obj (stripDollar serverErrorSchema))], paths := [] }

/-- the returned dict -/
def Doc.toJ (d : Doc) : J := .obj [
  (c!"openapi", .str c!"3.0.0"),
  (c!"info", .obj [(c!"version", .str c!"0.0.1"), (c!"title", .str c!"REST API")]),
  (c!"components", .obj [(c!"requestBodies", .obj d.requestBodies), (c!"schemas", .obj d.schemas)]),
  (c!"paths", .obj d.paths)]

def openapiDoc (es : List Entry) : Doc := es.foldl step init
/-- `cdd.compound.openapi.emit.openapi(name_model_route_id_cruds)` -/
def openapi (es : List Entry) : J := (openapiDoc es).toJ

/-- the operations an entry asks for: Create→POST on the collection, Read→GET and Delete→DELETE on the item -/
def requested (e : Entry) : List (Str × Str) :=
  (if e.crud.contains 'C' then [(e.route, c!"post")] else []) ++
  (if e.crud.contains 'R' then [(itemRoute e.route e.id, c!"get")] else []) ++
  (if e.crud.contains 'D' then [(itemRoute e.route e.id, c!"delete")] else [])

/-- the dict keys an entry may write in `paths` -/
def pathKeys (e : Entry) : List Str := [e.route, itemRoute e.route e.id]

/-! ### `extract_entities` (character level) -/

structure EE where
  /-- reversed -/
  entities : List Str
  ticks : Nat
  /-- reversed -/
  stack : List Char

/-- `add_then_clear_stack` -/
def EE.flush (st : EE) : EE :=
  { st with entities := if st.stack.isEmpty then st.entities else st.stack.reverse :: st.entities, stack := [] }

def eeStep (st : EE) (ch : Char) : EE :=
  if isSpaceC ch then { st.flush with ticks := 0 }
  else if st.ticks > 2 then { st.flush with ticks := 0, stack := [ch] }
  else if ch == '`' then { st with ticks := st.ticks + 1 }
  else if !st.stack.isEmpty then { st with stack := ch :: st.stack }
  else st

def extractEntities (s : Str) : List Str :=
  ((s.foldl eeStep { entities := [], ticks := 0, stack := [] }).flush).entities.reverse

/-! ### `cdd.compound.openapi.parse.openapi` -/

/-- the loop `for entity in entities: openapi_str = openapi_str.replace(...)`; returns the rewritten string and
    `non_error_entity` -/
def rewriteRefs (s : Str) : Str × Option Str :=
  (extractEntities s).foldl (fun (acc : Str × Option Str) ent =>
    (replace acc.1 (c!"$ref: ```" ++ ent ++ c!"```") (c!"{'$ref': '#/components/schemas/" ++ ent ++ c!"'}"),
     if ent != serverError then some ent else acc.2)) (s, none)

/-- Python truthiness of a JSON value (`v or {}`) -/
def truthy : J → Bool
  | .null => false
  | .bool b => b
  | .num n => n != 0
  | .flt r => !(r == c!"0.0" || r == c!"-0.0")
  | .str s => !s.isEmpty
  | .arr xs => !xs.isEmpty
  | .obj kvs => !kvs.isEmpty

/-- the part of `parse.openapi` after `safe_load`/`loads`: `loaded` is what the loader returned for the rewritten string -/
def parsePost (loaded : J) (nonErr : Option Str) (method summary : Str) : Except PyErr J :=
  match loaded with
  | .obj d0 =>
    let d1 : Dict := match nonErr with
      | some ent =>
        let d := setKey d0 c!"summary" (.str (aObject ent))
        if method == c!"post" || method == c!"patch" then
          setKey d c!"requestBody" (.obj [(refKey, .str (bodyRef ent)), (c!"required", .bool true)])
        else d
      | none => setKey d0 c!"summary" (.str summary)
    match lookup d1 c!"responses" with
    | some (.obj rs) => .ok (.obj (setKey d1 c!"responses" (.obj (rs.map (fun kv => (kv.1, if truthy kv.2 then kv.2 else .obj []))))))
    | some _ => .error .attributeError
    | none => .ok (.obj d1)
  | _ => .error .typeError

/-- `openapi(openapi_str, routes_dict, summary)`; `load` stands for `yaml.safe_load` / `json.loads` (not modelled) -/
def parseOpenapi (s : Str) (load : Str → J) (method summary : Str) : Except PyErr J :=
  let (s', nonErr) := rewriteRefs s
  parsePost (load s') nonErr method summary

/-! ### the route templates and what `bottle()` reads back from them -/

inductive Kind | create | read | destroy
deriving Repr, DecidableEq, Inhabited

def Kind.method : Kind → Str
  | .create => c!"post"
  | .read => c!"get"
  | .destroy => c!"delete"

def yamlResponses (ok err name : Str) : Str :=
  c!"\nresponses:\n  '" ++ ok ++ c!"':\n    description: A `" ++ name ++
  c!"` object.\n    content:\n      application/json:\n        schema:\n          $ref: ```" ++ name ++
  c!"```\n  '" ++ err ++ c!"':\n    description: A `ServerError` object.\n    content:\n      application/json:\n        schema:\n          $ref: ```ServerError```"

/-- the text between "```yml" and the closing "```" that `bottle()` passes on (with its slice arithmetic) -/
def templateYaml : Kind → Str → Str
  | .create, name => yamlResponses c!"201" c!"400" name
  | .read, name => yamlResponses c!"200" c!"404" name
  | .destroy, _ => c!"\nresponses:\n  '204':"

/-- `ir["doc"][:yml_start].rstrip()` -/
def templateSummary : Kind → Str → Str
  | .create, name => c!"Create `" ++ name ++ c!"`"
  | .read, name => c!"Find one `" ++ name ++ c!"` or error"
  | .destroy, name => c!"Delete one `" ++ name ++ c!"`"

def loadedResponses (ok err name : Str) : J := .obj [
  (c!"responses", .obj [
    (ok, response (aObject name) (schemaRef name)),
    (err, response (aObject serverError) (schemaRef serverError))])]

/-- what `yaml.safe_load` returns for the rewritten template text (assumed; exercised by the correspondence) -/
def templateLoaded : Kind → Str → J
  | .create, name => loadedResponses c!"201" c!"400" name
  | .read, name => loadedResponses c!"200" c!"404" name
  | .destroy, _ => .obj [(c!"responses", .obj [(c!"204", .null)])]

/-- `bottle(f)` for a template-generated `f`, through the model of `parse.openapi` -/
def payloadViaParse (k : Kind) (name : Str) : Except PyErr J :=
  parseOpenapi (templateYaml k name) (fun _ => templateLoaded k name) k.method (templateSummary k name)

/-- `bottle(f)` for a template-generated `f`, closed form (for `name ≠ "ServerError"`) -/
def templatePayload : Kind → Str → J
  | .create, name => .obj [
      (c!"responses", .obj [
        (c!"201", response (aObject name) (schemaRef name)),
        (c!"400", response (aObject serverError) (schemaRef serverError))]),
      (c!"summary", .str (aObject name)),
      (c!"requestBody", .obj [(refKey, .str (bodyRef name)), (c!"required", .bool true)])]
  | .read, name => .obj [
      (c!"responses", .obj [
        (c!"200", response (aObject name) (schemaRef name)),
        (c!"404", response (aObject serverError) (schemaRef serverError))]),
      (c!"summary", .str (aObject name))]
  | .destroy, name => .obj [
      (c!"responses", .obj [(c!"204", .obj [])]),
      (c!"summary", .str (c!"Delete one `" ++ name ++ c!"`"))]

/-! ### `gen_routes` -/

/-- `next(map(itemgetter(0), filter(lambda p: p[1].get("doc", "").startswith("[PK]"), params.items())), next(iter(params.keys())))`;
    a parameter is (name, its `doc` if the key is present); a parameter without `doc` is simply not the `[PK]` one -/
def pickPkGo : List (Str × Option Str) → Str → Except PyErr Str
  | [], dflt => .ok dflt
  | (_, none) :: rest, dflt => pickPkGo rest dflt
  | (k, some doc) :: rest, dflt => if startsWith doc c!"[PK]" then .ok k else pickPkGo rest dflt
def pickPk : List (Str × Option Str) → Except PyErr Str
  | [] => .error .stopIteration
  | (k, d) :: rest => pickPkGo ((k, d) :: rest) k

/-- the search before the fix (`p[1]["doc"]`): `KeyError` on the first parameter without `doc` that is examined -/
def pickPkGoPinned : List (Str × Option Str) → Str → Except PyErr Str
  | [], dflt => .ok dflt
  | (_, none) :: _, _ => .error .keyError
  | (k, some doc) :: rest, dflt => if startsWith doc c!"[PK]" then .ok k else pickPkGoPinned rest dflt
def pickPkPinned : List (Str × Option Str) → Except PyErr Str
  | [] => .error .stopIteration
  | (k, d) :: rest => pickPkGoPinned ((k, d) :: rest) k

/-- one decorated function of a routes file: decorator path, decorator method, `bottle(function)` -/
structure RouteFn where
  /-- the variable the decorator is an attribute of (`@app.get(...)`) -/
  app : Str
  path : Str
  method : Str
  payload : J
deriving Repr, Inhabited

def bottleItem (route id : Str) : Str := route ++ c!"/:" ++ id

/-- the route functions `gen_routes` emits for (name, route, primary key, crud), in its order (C, then R, U, D);
    `"U" in crud` calls `None` in the real code and is outside the domain -/
def genRoutes (app : Str) (e : Entry) : List RouteFn :=
  (if e.crud.contains 'C' then
    [{ app := app, path := e.route, method := c!"post", payload := templatePayload .create e.name }] else []) ++
  (if e.crud.contains 'R' then
    [{ app := app, path := bottleItem e.route e.id, method := c!"get", payload := templatePayload .read e.name }] else []) ++
  (if e.crud.contains 'D' then
    [{ app := app, path := bottleItem e.route e.id, method := c!"delete", payload := templatePayload .destroy e.name }] else [])

/-- `upsert_routes` on one routes file: the first batch creates the file (prelude + routes), every later batch is
    appended after a blank line, in the order post, get, delete — the order `gen_routes` emits.
    Result: the route functions `openapi_bulk` sees in the file = all batches, in order. -/
def visibleRoutes (batches : List (List RouteFn)) : List RouteFn := batches.flatten

/-- the file as it was read before the fix: later batches were appended with no separating newline, so the first
    appended function lost its decorator (`… = 204@app.post('/x')`), `get_route_meta` raised `StopIteration` inside
    `filter`, and `openapi_bulk` silently stopped reading the file there — only the creating batch was visible -/
def visibleRoutesPinned : List (List RouteFn) → List RouteFn
  | [] => []
  | first :: _ => first

/-! ### `openapi_bulk` -/

/-- `table["name"].replace("_tbl", "", 1).title()` -/
def bulkKey (table : Str) : Str := title (replace1 table c!"_tbl" [])

structure Table where
  /-- `__tablename__` -/
  name : Str
  /-- `cdd.json_schema.emit.json_schema(table)` -/
  schema : Dict
deriving Repr, Inhabited

/-- `{k: v for k, v in val.items() if not k.startswith("$")}` for one value of the schemas dict -/
def stripSchema (v : J) : J :=
  match v with
  | .obj s => .obj (stripDollar s)
  | v => v

/-- the `"schemas"` dict comprehension over `dict(map(…), ServerError=server_error_schema)` -/
def bulkSchemas (ts : List Table) : Dict :=
  (setKey (ts.foldl (fun (acc : Dict) t => setKey acc (bulkKey t.name) (.obj t.schema)) []) serverError
    (.obj serverErrorSchema)).map (fun kv => (kv.1, stripSchema kv.2))

/-- `itertools.groupby(routes, key=path)`: maximal runs of consecutive equal paths -/
def groupBy : List RouteFn → List (Str × List RouteFn)
  | [] => []
  | r :: rs =>
    match groupBy rs with
    | (k, g) :: rest => if k == r.path then (k, r :: g) :: rest else (r.path, [r]) :: (k, g) :: rest
    | [] => [(r.path, [r])]

/-- `update_d(*dicts)` where each dict is `{method: bottle(f)}`: one dict → itself, two → `d.update(arg)`,
    more → `TypeError` (update_d takes at most two positional arguments) -/
def updateD : List RouteFn → Except PyErr Dict
  | [a] => .ok [(a.method, a.payload)]
  | [a, b] => .ok (setKey [(a.method, a.payload)] b.method b.payload)
  | _ => .error .typeError

/-- the object name read from the `get` (else `delete`) summary: text between the first two backticks, or "Object" -/
def objectName (pathDict : Dict) : Except PyErr Str :=
  let src : J := match lookup pathDict c!"get" with
    | some v => v
    | none => match lookup pathDict c!"delete" with
      | some v => v
      | none => .obj [(c!"summary", .str c!"`Object`")]
  match src with
  | .obj kvs =>
    match lookup kvs c!"summary" with
    | some (.str s) =>
      let fst := findI s c!"`"
      let snd := findAtI s c!"`" (fst + 1).toNat
      let n := slice s (some (fst + 1)) (some snd)
      .ok (if n.isEmpty then c!"Object" else n)
    | some _ => .error .attributeError
    | none => .error .keyError
  | _ => .error .typeError

def bulkParam (pk objName : Str) : J := .obj [
  (c!"description", .str (c!"Primary key of target `" ++ objName ++ c!"`")),
  (c!"in", .str c!"path"),
  (c!"name", .str pk),
  (c!"required", .bool true),
  (c!"schema", .obj [(c!"type", .str c!"string")])]

/-- `":pk"` segments become `"{pk}"` -/
def convertRoute (route : Str) : Str :=
  join c!"/" ((split1 route '/').map (fun r => if startsWith r c!":" then c!"{" ++ r.drop 1 ++ c!"}" else r))

def routeParams (route objName : Str) : List J :=
  ((split1 route '/').filter (fun r => startsWith r c!":")).map (fun r => bulkParam (r.drop 1) objName)

/-- the request body registered for one value of the (merged) path dict, if it has a truthy `requestBody` -/
def bodyOf (v : J) : Except PyErr (Option (Str × J)) :=
  match v with
  | .obj kvs =>
    match lookup kvs c!"requestBody" with
    | some rb =>
      if truthy rb then
        match rb with
        | .obj rbk =>
          match lookup rbk refKey with
          | some (.str ref) =>
            let bodyNm := (rpartition ref c!"/").2.2
            let key := (rpartition bodyNm c!"Body").1
            .ok (some (bodyNm, .obj [
              (c!"content", jsonContent (schemaRef key)),
              (c!"description", .str (aObject key)),
              (c!"required", .bool true)]))
          | some _ => .error .attributeError
          | none => .error .keyError
        | _ => .error .typeError
      else .ok none
    | none => .ok none
  | _ => .ok none

/-- the request bodies registered for one (merged) path dict, in `values()` order -/
def bodiesOf : Dict → Except PyErr (List (Str × J))
  | [] => .ok []
  | (_, v) :: rest =>
    match bodyOf v with
    | .error e => .error e
    | .ok h =>
      match bodiesOf rest with
      | .error e => .error e
      | .ok tl => .ok (match h with | some x => x :: tl | none => tl)

/-- the first half of `construct_parameters_and_request_bodies`: `parameters` and the rewritten route -/
def withParams (route : Str) (pathDict : Dict) : Except PyErr (Str × Dict) :=
  if Py.contains route c!":" then
    let pd0 := setKey pathDict c!"parameters" (.arr [])
    match objectName pd0 with
    | .ok obj => .ok (convertRoute route, setKey pd0 c!"parameters" (.arr (routeParams route obj)))
    | .error e => .error e
  else .ok (route, pathDict)

/-- `construct_parameters_and_request_bodies(route, path_dict)`; returns (route', path_dict', new request bodies) -/
def construct (route : Str) (pathDict : Dict) : Except PyErr (Str × Dict × List (Str × J)) :=
  match withParams route pathDict with
  | .ok (route', pd) =>
    match bodiesOf pd with
    | .ok bodies => .ok (route', pd, bodies)
    | .error e => .error e
  | .error e => .error e

/-- `dict(map(lambda k_v: construct(k_v[0], update_d(*…)), groupby(…)))` with the shared `request_bodies` -/
def bulkGroups : List (Str × List RouteFn) → Dict → Dict → Except PyErr (Dict × Dict)
  | [], rb, paths => .ok (rb, paths)
  | (k, g) :: rest, rb, paths =>
    match updateD g with
    | .ok pd =>
      match construct k pd with
      | .ok (route', pd', bodies) => bulkGroups rest (update rb bodies) (setKey paths route' (.obj pd'))
      | .error e => .error e
    | .error e => .error e

/-- `parse_route`: the functions decorated on `app_name` -/
def ofApp (appName : Str) (routes : List RouteFn) : List RouteFn := routes.filter (fun r => r.app == appName)

def bulkDoc (appName : Str) (ts : List Table) (routes : List RouteFn) : Except PyErr Doc :=
  match bulkGroups (groupBy (ofApp appName routes)) [] [] with
  | .ok (rb, paths) => .ok { requestBodies := rb, schemas := bulkSchemas ts, paths := paths }
  | .error e => .error e

/-- `openapi_bulk(app_name, model_paths, routes_paths)` on the tables found in the model files and the route
    functions visible in the routes files, in file order -/
def bulk (appName : Str) (ts : List Table) (routes : List RouteFn) : Except PyErr J :=
  (bulkDoc appName ts routes).map Doc.toJ

/-! ### `parse_model`: which nodes of a model file are SQLAlchemy models (`parser_utils.infer`) -/

/-- what `parse_model` sees of one `ClassDef` / `Call` node of a model file (nodes come in `ast.walk` order) -/
inductive SrcNode
  /-- `class C(b1, b2, …)`: the `id`s of the bases that are plain names, in order (a dotted base has no `id`);
      what `cdd.sqlalchemy.parse.sqlalchemy(node)` gives for it (`none`: it raises) -/
  | classDef (baseIds : List Str) (table : Option Table)
  /-- `f(a0, a1, …, k=v)`: number of positional arguments; the `id` of `a1` when it is a plain name;
      what `cdd.sqlalchemy.parse.sqlalchemy_table(node)` gives for it (`none`: it raises) -/
  | call (nargs : Nat) (arg1 : Option Str) (table : Option Table)
deriving Repr, Inhabited

inductive Inferred | sqlalchemy | sqlalchemyTable | class_ | none
deriving Repr, DecidableEq, Inhabited

/-- `infer(node)` for `ClassDef` / `Call`:
    `ClassDef`: `"sqlalchemy"` iff ANY plain-name base is `Base`, else `"class_"`;
    `Call`: `"sqlalchemy_table"` iff `len(args) > 2 and args[1].id == "metadata"` (`AttributeError` when `args[1]` has no `id`), else `None` -/
def inferNode : SrcNode → Except PyErr Inferred
  | .classDef baseIds _ => .ok (if baseIds.any (· == c!"Base") then .sqlalchemy else .class_)
  | .call nargs arg1 _ =>
    if nargs > 2 then
      match arg1 with
      | some id => .ok (if id == c!"metadata" then .sqlalchemyTable else .none)
      | none => .error .attributeError
    else .ok .none

/-- `filter(lambda node: (infer(node) or "").startswith("sqlalchemy"), …)` followed by the parse of every kept node -/
def discover : List SrcNode → Except PyErr (List Table)
  | [] => .ok []
  | n :: rest =>
    match inferNode n with
    | .error e => .error e
    | .ok k =>
      if k == .sqlalchemy || k == .sqlalchemyTable then
        match (match n with | .classDef _ t => t | .call _ _ t => t) with
        | none => .error .assertionError
        | some t =>
          match discover rest with
          | .ok ts => .ok (t :: ts)
          | .error e => .error e
      else discover rest

/-- `openapi_bulk` from the nodes of the model files -/
def bulkSrc (appName : Str) (nodes : List SrcNode) (routes : List RouteFn) : Except PyErr J :=
  match discover nodes with
  | .ok ts => bulk appName ts routes
  | .error e => .error e

end OpenApi
