import CddVerif.Py.Str
/-!
# Effect-trace model of `cdd exmod` — property C20

Ported decision by decision from

* `cdd/__main__.py`            : `exmod(mock_imports=False, **args_dict)`; `--emit` is `action="append"` ⇒ a *list*
* `cdd/compound/exmod.py`      : `exmod`, `_create_sqlalchemy_mod`, `_add_imports_to_sqlalchemy_create_all`,
                                 `exmod_single_folder`
* `cdd/compound/exmod_utils.py`: `get_module_contents`, `emit_files_from_module_and_return_imports`,
                                 `emit_file_on_hierarchy`, `_emit_symbol`
* `cdd/shared/emit/file.py`    : `file` (one `open(filename, mode)` + `write`)
* `cdd/shared/pkg_utils.py`    : `relative_filename` (identity for files outside the interpreter's library directories)
* `cdd/shared/pure_utils.py`   : `find_module_filepath`

Every `makedirs / mkdir / open(…, "a") / open(…, "w"|"wt") + write` of that code is an `Effect` carrying the path string
the code computes; every `print(…, file=EXMOD_OUT_STREAM)` is a `print` effect.  The file system is an explicit state
(directories, Python files abstracted to their top-level statements) because the code branches on `path.isdir`,
`path.isfile` and on the names defined in an existing target file.  Paths are Python `str` (`List Char`) and the
`posixpath` functions are ported at string level — several decisions are string tests on paths
(`output_directory.replace(sep, ".").endswith(new_module_name)`, `name.startswith(module_name)`, …).

The code is modelled *as it is*: a single `--emit X` runs the whole thing twice (the list is mapped over `exmod` and the
body then continues with `emit_name[0]`), the top folder is visited twice per run, `emit_file_on_hierarchy` returns
`None` so `imports` is always empty, …

Assumed, not modelled (DESIGN §4 C20 ¬V): `importlib.util.find_spec` (table `Env.specs`), `setuptools.find_packages`
(unfiltered walk `Env.allPackages`, names without glob metacharacters so `fnmatchcase` is equality), the parsers and
emitters called on each symbol (they return for the generated symbols; `json_schema` / `pydantic` / `sqlalchemy` raise
`TypeError` at the emitter call for every symbol: unexpected keyword `<kind>_name`), `black`, the OS.
Only `filesystem_layout="as_input"` is modelled (the CLI offers no other).
-/
namespace Exmod
open Py

abbrev Path := Str

/-! ## posixpath -/

def isAbs (p : Path) : Bool := p.head? == some '/'
/-- one step of `posixpath.join` -/
def join2 (a b : Path) : Path :=
  if isAbs b then b
  else if a.isEmpty || a.getLast? == some '/' then a ++ b
  else a ++ '/' :: b
def joinL (a : Path) (bs : List Path) : Path := bs.foldl join2 a
def rstripSlash (s : Path) : Path := (s.reverse.dropWhile (· == '/')).reverse
/-- `p[:p.rfind('/')+1]` -/
def headRaw (p : Path) : Path := (p.reverse.dropWhile (· != '/')).reverse
/-- `posixpath.basename` = `p[p.rfind('/')+1:]` -/
def basename (p : Path) : Path := (p.reverse.takeWhile (· != '/')).reverse
/-- `posixpath.dirname` -/
def dirname (p : Path) : Path :=
  let h := headRaw p
  if h.all (· == '/') then h else rstripSlash h
/-- the form under which a path is looked up in the abstract file system (trailing slashes dropped) -/
def norm (p : Path) : Path := if p.all (· == '/') then p else rstripSlash p
/-- `posixpath.splitext(p)[0]` for names with at most the usual single extension -/
def splitextRoot (p : Path) : Path :=
  let b := basename p
  match rfind b ['.'] with
  | some i => if i == 0 || (b.take i).all (· == '.') then p else p.take (p.length - (b.length - i))
  | none => p

/-- `p` is the directory `out` itself or lies below it (component-wise: `out/…`) -/
def underB (out p : Path) : Bool := p == out || (out ++ ['/']).isPrefixOf p

/-! ## abstract Python files and file system -/

structure ImportFrom where
  module : Option Str
  names : List (Str × Option Str)
  level : Nat := 0
deriving DecidableEq, Repr

/-- top-level statement of a module, as far as `exmod` looks at it -/
inductive Stmt
  | def_ (name : Str)            -- ClassDef / FunctionDef / AsyncFunctionDef (`hasattr(node, "name")`)
  | from_ (imp : ImportFrom)      -- ImportFrom at module level
  | all_ (names : List Str)      -- `__all__ = [<str constants>]`, single `Name` target
  | other
deriving DecidableEq, Repr

structure PyFile where
  body : List Stmt
  /-- every `ImportFrom` node of the file in `ast.walk` order (module level ones and nested ones) -/
  walk : List ImportFrom
deriving DecidableEq, Repr

structure FS where
  dirs : List Path
  files : List (Path × PyFile)
deriving DecidableEq, Repr

namespace FS
def isdir (fs : FS) (p : Path) : Bool := fs.dirs.contains (norm p)
def isfile (fs : FS) (p : Path) : Bool := fs.files.any (·.1 == p)
def pexists (fs : FS) (p : Path) : Bool := fs.isdir p || fs.isfile p
def read (fs : FS) (p : Path) : Option PyFile := (fs.files.find? (·.1 == p)).map (·.2)
def addDir (fs : FS) (p : Path) : FS := { fs with dirs := fs.dirs ++ [norm p] }
def setFile (fs : FS) (p : Path) (f : PyFile) : FS :=
  if fs.isfile p then { fs with files := fs.files.map (fun kv => if kv.1 == p then (p, f) else kv) }
  else { fs with files := fs.files ++ [(p, f)] }
end FS

/-! ## effects, errors, the trace monad -/

inductive Effect
  | print (s : Str)      -- `print(…, file=EXMOD_OUT_STREAM)`
  | mkdir (p : Path)     -- one `os.mkdir(p)` call (also those issued by `os.makedirs`)
  | openA (p : Path)     -- `open(p, "a")`
  | openW (p : Path)     -- `open(p, "w"|"wt")` followed by `write`
deriving DecidableEq, Repr

def Effect.isPrint : Effect → Bool
  | .print _ => true
  | _ => false
/-- the path a non-print effect creates or modifies -/
def Effect.target? : Effect → Option Path
  | .print _ => none
  | .mkdir p => some p
  | .openA p => some p
  | .openW p => some p

inductive Err
  | assertion | moduleNotFound | typeError | fileNotFound | fileExists | attributeError | notADirectory
deriving DecidableEq, Repr

/-- ghost record of one `(name, original path, IR)` triple handed to `emit_file_on_hierarchy` (not an effect: it is
    only used to state the hypotheses of the confinement theorem and to count the cases inside its domain) -/
structure Item where
  /-- `module_name` of the enclosing `emit_files_from_module_and_return_imports` call -/
  moduleName : Str
  /-- `name_orig_ir[0]`: the dict key after `[len(module_name) + 1:]` -/
  key : Str
  /-- `name_orig_ir[1]` -/
  orig : Path
  /-- file the AST node was parsed from, and `node.name` -/
  file : Path
  node : Str
  /-- `path.isfile(module_root_dir)`: the call works on one imported module file (second phase) -/
  fromFile : Bool
  /-- `output_directory` of the enclosing folder visit -/
  outputDirectory : Path
deriving DecidableEq, Repr

structure Res (α : Type) where
  trace : List Effect
  fs : FS
  val : Except Err α
  items : List Item := []

/-- a result without ghost items -/
def Res.leaf {α} (t : List Effect) (fs : FS) (v : Except Err α) : Res α := ⟨t, fs, v, []⟩

/-- computations that read and change the file system and log their effects -/
def M (α : Type) := FS → Res α

namespace M
def pure {α} (a : α) : M α := fun fs => Res.leaf [] fs (.ok a)
def bind {α β} (m : M α) (f : α → M β) : M β := fun fs =>
  let r := m fs
  match r.val with
  | .ok a => let r2 := f a r.fs; ⟨r.trace ++ r2.trace, r2.fs, r2.val, r.items ++ r2.items⟩
  | .error e => ⟨r.trace, r.fs, .error e, r.items⟩
instance : Monad M where
  pure := M.pure
  bind := M.bind
end M
/-- `raise` -/
def raise {α} (e : Err) : M α := fun fs => Res.leaf [] fs (.error e)
/-- ghost: remember an item (no effect, no change) -/
def note (it : Item) : M Unit := fun fs => ⟨[], fs, .ok (), [it]⟩
/-- log an effect and apply its change to the file system -/
def effect (e : Effect) (upd : FS → FS) : M Unit := fun fs => Res.leaf [e] (upd fs) (.ok ())
/-- sequential `for x in xs: body(x)` (stops at the first exception) -/
def forEach {α} : List α → (α → M Unit) → M Unit
  | [], _ => M.pure ()
  | x :: xs, body => M.bind (body x) (fun _ => forEach xs body)
/-- eager `list(map(f, xs))` -/
def mapM' {α β} : List α → (α → M β) → M (List β)
  | [], _ => M.pure []
  | x :: xs, f => M.bind (f x) (fun b => M.bind (mapM' xs f) (fun bs => M.pure (b :: bs)))
/-- re-raise with another exception class (`except AssertionError as e: raise ModuleNotFoundError(e)`) -/
def mapErr {α} (m : M α) (f : Err → Err) : M α := fun fs =>
  let r := m fs
  match r.val with
  | .ok a => ⟨r.trace, r.fs, .ok a, r.items⟩
  | .error e => ⟨r.trace, r.fs, .error (f e), r.items⟩

def isdir (p : Path) : M Bool := fun fs => Res.leaf [] fs (.ok (fs.isdir p))
def isfile (p : Path) : M Bool := fun fs => Res.leaf [] fs (.ok (fs.isfile p))
def pexists (p : Path) : M Bool := fun fs => Res.leaf [] fs (.ok (fs.pexists p))
/-- `open(p, "rt").read()` + `ast.parse` -/
def readFile (p : Path) : M PyFile := fun fs =>
  match fs.read p with
  | some f => Res.leaf [] fs (.ok f)
  | none => Res.leaf [] fs (.error .fileNotFound)

def print (s : Str) : M Unit := effect (.print s) id

/-- `os.mkdir(p)`; with `existOk` the `except OSError: if not exist_ok or not path.isdir(name): raise` of `makedirs` -/
def osMkdir (p : Path) (existOk : Bool) : M Unit := fun fs =>
  if fs.pexists p then
    Res.leaf [.mkdir p] fs (if existOk && fs.isdir p then .ok () else .error .fileExists)
  else if !fs.isdir (dirname (norm p)) then Res.leaf [.mkdir p] fs (.error .fileNotFound)
  else Res.leaf [.mkdir p] (fs.addDir p) (.ok ())

/-- `os.makedirs(name, exist_ok=existOk)` (fuel ≥ number of characters of `name`) -/
def makedirsAux : Nat → Path → Bool → M Unit
  | 0, name, existOk => osMkdir name existOk
  | fuel + 1, name, existOk => do
    -- head, tail = path.split(name); if not tail: head, tail = path.split(head)
    let (head, tail) := if (basename name).isEmpty then (dirname (dirname name), basename (dirname name))
                        else (dirname name, basename name)
    if !head.isEmpty && !tail.isEmpty && !(← pexists head) then
      makedirsAux fuel head existOk
    osMkdir name existOk
def makedirs (name : Path) (existOk : Bool := false) : M Unit := makedirsAux name.length name existOk

/-- `open(p, "a").close()` -/
def openA (p : Path) : M Unit := fun fs =>
  if fs.isfile p then Res.leaf [.openA p] fs (.ok ())
  else if fs.isdir p then Res.leaf [.openA p] fs (.error .fileExists)
  else if !fs.isdir (dirname p) then Res.leaf [.openA p] fs (.error .fileNotFound)
  else Res.leaf [.openA p] (fs.setFile p ⟨[], []⟩) (.ok ())

/-- `cdd.shared.emit.file.file(node, filename, mode="wt")`: the new content is a function of the old one -/
def writeFile (p : Path) (content : Option PyFile → PyFile) : M Unit := fun fs =>
  if fs.isdir p then Res.leaf [.openW p] fs (.error .fileExists)
  else if !fs.isdir (dirname p) then Res.leaf [.openW p] fs (.error .fileNotFound)
  else Res.leaf [.openW p] (fs.setFile p (content (fs.read p))) (.ok ())

/-! ## configuration -/

inductive EmitKind
  | argparse | class_ | function | jsonSchema | pydantic | sqlalchemy | sqlalchemyTable | sqlalchemyHybrid
deriving DecidableEq, Repr

/-- `emit_name in frozenset(("sqlalchemy", "sqlalchemy_hybrid", "sqlalchemy_table"))` -/
def EmitKind.isSql : EmitKind → Bool
  | .sqlalchemy | .sqlalchemyTable | .sqlalchemyHybrid => true
  | _ => false
/-- `_emit_symbol` passes `<emit_name>_name=name` (mapped for argparse / sqlalchemy_table / sqlalchemy_hybrid only); the
    emitters of these three kinds take no such keyword ⇒ `TypeError` at the call, before anything is written -/
def EmitKind.emitterRaises : EmitKind → Bool
  | .jsonSchema | .pydantic | .sqlalchemy => true
  | _ => false
/-- does the emitted top-level node carry a `.name` (ClassDef / FunctionDef)?  `sqlalchemy_table` emits an `Assign`. -/
def EmitKind.definesName : EmitKind → Bool
  | .sqlalchemyTable => false
  | _ => true

structure Cfg where
  /-- `--emit`, `action="append"` -/
  emitNames : List EmitKind
  module : Str
  blacklist : List Str
  whitelist : List Str
  /-- `path.realpath(output_directory)` -/
  out : Path
  target : Option Str
  sqlSub : Bool
  recursive : Bool
  dryRun : Bool
deriving Repr

/-- oracles for what is outside the model -/
structure Env where
  /-- `importlib.util.find_spec(name).origin` for the importable modules -/
  specs : List (Str × Path)
  /-- `setuptools.find_packages(module_root_dir)` without include/exclude, in its own order -/
  allPackages : List Str
deriving Repr

/-! ## `find_spec` / `find_module_filepath` -/

def INIT : Str := ['_', '_', 'i', 'n', 'i', 't', '_', '_', '.', 'p', 'y']
def GOLD : Str := ['g', 'o', 'l', 'd']
def SQLMOD : Str := ['s', 'q', 'l', 'a', 'l', 'c', 'h', 'e', 'm', 'y', '_', 'm', 'o', 'd']

def lookup (specs : List (Str × Path)) (name : Str) : Option Path := (specs.find? (·.1 == name)).map (·.2)

/-- `find_spec(name)`: importing the parent package is part of it (a missing parent raises `ModuleNotFoundError`) -/
def findSpec (env : Env) (name : Str) : Except Err (Option Path) :=
  match lookup env.specs name with
  | some p => .ok (some p)
  | none =>
    let parent := (rpartition name ['.']).1
    if parent.isEmpty then .ok none
    else match lookup env.specs parent with
      | some o => if basename o == INIT then .ok none else .error .moduleNotFound
      | none => .error .moduleNotFound

/-- `find_module_filepath(module_name, submodule_name, none_when_no_spec)` -/
def findModuleFilepath (env : Env) (moduleName : Option Str) (sub : Option Str) (noneWhenNoSpec : Bool := false) :
    M (Option Path) := do
  match moduleName with
  | none => raise .assertion
  | some mn =>
    match findSpec env mn with
    | .error e => raise e
    | .ok none => if noneWhenNoSpec then pure none else raise .assertion
    | .ok (some origin) =>
      match sub with
      | none => pure (some origin)
      | some s =>
        let parent := dirname origin
        let c1 := joinL parent [s, INIT]
        let c2 := join2 parent (s ++ ['.', 'p', 'y'])
        if (← pexists c1) then pure (some c1)
        else if (← pexists c2) then pure (some c2)
        else pure (some origin)

/-! ## `get_module_contents` -/

/-- Python dict `d[k] = v` on an association list: an existing key keeps its position -/
def dictSet {β} (d : List (Str × β)) (k : Str) (v : β) : List (Str × β) :=
  if d.any (·.1 == k) then d.map (fun kv => if kv.1 == k then (k, v) else kv) else d ++ [(k, v)]

def defNames (f : PyFile) : List Str := f.body.filterMap (fun | .def_ n => some n | _ => none)

/-- first `__all__ = […]` of the body (`next(…, iter(()))`: nothing when there is none) -/
def allVar (f : PyFile) : List Str := (f.body.findSome? (fun | .all_ ns => some ns | _ => none)).getD []

/-- `mod_to_symbol[import_from.module].append(name.name)` for the names exposed through `__all__` -/
def modToSymbol (f : PyFile) : List (Option Str × List Str) :=
  let av := allVar f
  f.walk.foldl (fun acc imp =>
    imp.names.foldl (fun acc nm =>
      let hit := (nm.2.isNone && av.contains nm.1) || (match nm.2 with | some a => av.contains a | none => false)
      if hit then
        if acc.any (·.1 == imp.module) then acc.map (fun kv => if kv.1 == imp.module then (kv.1, kv.2 ++ [nm.1]) else kv)
        else acc ++ [(imp.module, [nm.1])]
      else acc) acc) []

/-- an entry of the dict `get_module_contents` returns: key ↦ (file the node was parsed from, `node.name`) -/
abbrev Content := Str × (Path × Str)

/-- `get_module_contents` on a *file* -/
def contentsOfFile (env : Env) (file : Path) : M (List Content) := do
  let f ← readFile file
  let m2s := modToSymbol f
  -- dict comprehension over (module_name, submodule_name, node of the resolved file)
  let triples := m2s.flatMap (fun ms => ms.2.map (fun s => (ms.1, s)))
  let parts ← mapM' triples (fun (ms : Option Str × Str) => do
    match (← findModuleFilepath env ms.1 (some ms.2) true) with
    | none => pure []
    | some fp =>
      let g ← readFile fp
      let pre : Str := match ms.1 with | some m => if m.isEmpty then [] else m ++ ['.'] | none => []
      pure ((defNames g).map (fun n => ((pre ++ ms.2 ++ ['.'] ++ n, (fp, n)) : Content))))
  let res := parts.flatten.foldl (fun d (kv : Content) => dictSet d kv.1 kv.2) []
  -- res.update(nodes of this file's body that have a name)   (current_module is None)
  pure ((defNames f).foldl (fun d n => dictSet d n (file, n)) res)

/-- `get_module_contents(obj, module_root_dir)` -/
def getModuleContents (env : Env) (moduleRootDir : Path) : M (List Content) := do
  if (← isfile moduleRootDir) then contentsOfFile env moduleRootDir
  else
    let initp := join2 moduleRootDir INIT
    if (← isfile initp) then contentsOfFile env initp else pure []

/-! ## `_emit_symbol`, `emit_file_on_hierarchy`, `emit_files_from_module_and_return_imports` -/

/-- arguments that stay fixed during one `exmod_single_folder` -/
structure Ctx where
  emit : EmitKind
  dryRun : Bool
  newModuleName : Str
  outputDirectory : Path
  firstOutputDirectory : Path

def quoted (p : Str) : Str := ['\''] ++ p ++ ['\'']
def msg (verb : Str) (p : Path) : Str := verb ++ ['\t'] ++ quoted p
def MKDIR : Str := ['m', 'k', 'd', 'i', 'r']
def TOUCH : Str := ['t', 'o', 'u', 'c', 'h']
def WRITE : Str := ['w', 'r', 'i', 't', 'e']

/-- insertion sort, duplicates removed (`sorted(frozenset(…))`) -/
def insertSorted (lt : Str → Str → Bool) (x : Str) : List Str → List Str
  | [] => [x]
  | y :: ys => if x == y then y :: ys else if lt x y then x :: y :: ys else y :: insertSorted lt x ys
def strLt : Str → Str → Bool
  | [], [] => false
  | [], _ :: _ => true
  | _ :: _, [] => false
  | a :: as, b :: bs => if a.toNat < b.toNat then true else if a.toNat > b.toNat then false else strLt as bs
def sortedUnique (l : List Str) : List Str := l.foldl (fun acc x => insertSorted strLt x acc) []

/-- content of the emitted file: a fresh module, or `merge_modules(existent_mod, gen_node)` + `merge_assignment_lists` -/
def emittedContent (kind : EmitKind) (name : Str) : Option PyFile → PyFile
  | none => ⟨[.other] ++ (if kind.definesName then [.def_ name] else [.other]) ++ [.all_ [name]], []⟩
  | some old =>
    let alls := old.body.flatMap (fun | .all_ ns => ns | _ => [])
    ⟨old.body.filter (fun | .all_ _ => false | _ => true) ++ (if kind.definesName then [.def_ name] else [.other]) ++
       [.all_ (sortedUnique (alls ++ [name]))], old.walk⟩

/-- `_emit_symbol` -/
def emitSymbol (c : Ctx) (name : Str) (emitFilename initFilepath : Path) : M Unit := do
  -- gen_node = emitter(intermediate_repr, word_wrap=…, **{"<emit_name>_name": name})
  if c.emit.emitterRaises then raise .typeError
  if c.dryRun then print (msg WRITE emitFilename)
  else writeFile emitFilename (emittedContent c.emit name)
  if name != ['_', '_', 'i', 'n', 'i', 't', '_', '_'] && !(← isfile initFilepath) then
    if c.dryRun then print (msg WRITE emitFilename)
    else
      let module := replace (splitextRoot (emitFilename.drop ((dirname c.firstOutputDirectory).length + 1))) ['/'] ['.']
      let imp : ImportFrom := { module := some module, names := [(name, none)], level := 0 }
      writeFile initFilepath (fun _ => ⟨[.other, .from_ imp, .all_ [name]], [imp]⟩)

/-- `output_dir_is_module` -/
def outputDirIsModule (c : Ctx) : Bool := endsWith (replace c.outputDirectory ['/'] ['.']) c.newModuleName

/-- first half of `emit_file_on_hierarchy`: `mod_path`, its creation, the `touch` of `dirname(mod_path)/__init__.py` -/
def efhPrepare (c : Ctx) (modName : Str) : M Unit := do
  let modPath := if outputDirIsModule c then c.outputDirectory
                 else joinL c.outputDirectory [c.newModuleName, replace modName ['.'] ['/']]
  if !(← isdir modPath) then
    if c.dryRun then print (msg MKDIR modPath) else makedirs modPath
  let initFilepath := join2 (dirname modPath) INIT
  if c.dryRun then print (msg TOUCH initFilepath) else openA initFilepath

/-- second half of `emit_file_on_hierarchy` (`filesystem_layout == "as_input"`): `emit_filename`, `init_filepath`,
    the look into an existing target file, `_emit_symbol` -/
def efhEmit (c : Ctx) (name : Str) (rel : Path) (irName : Option Str) : M Unit := do
  let base := if outputDirIsModule c then c.outputDirectory else join2 c.outputDirectory c.newModuleName
  let emitFilename := join2 base rel
  let initFilepath2 := join2 base (join2 (dirname rel) INIT)
  let isfileEmit ← isfile emitFilename
  let symbolInFile ← (do
    if isfileEmit then
      let existent ← readFile emitFilename
      pure ((defNames existent).any (· == name))
    else
      let emitFilenameDir := dirname emitFilename
      if !(← isdir emitFilenameDir) then
        if c.dryRun then print (msg MKDIR emitFilenameDir) else makedirs emitFilenameDir
      pure false : M Bool)
  -- `ir.get("name") or ir["params"] or ir["returns"]`
  if !symbolInFile && irName.isSome then
    emitSymbol c name emitFilename initFilepath2

/-- `name` after `if not name and ir.get("name") is not None: name = ir.get("name")` -/
def efhName (name0 : Str) (irName : Option Str) : Str :=
  match irName with
  | some n => if name0.isEmpty then n else name0
  | none => name0

/-- `relative_filename_path` -/
def efhRel (moduleName : Str) (orig : Path) : Path :=
  let moduleNameAsPath := replace moduleName ['.'] ['/']
  if startsWith orig (moduleNameAsPath ++ ['/']) then orig.drop (moduleNameAsPath.length + 1) else orig

/-- `emit_file_on_hierarchy(name_orig_ir, …)`; `irName` is `ir.get("name")` (`none` in a dry run: the IR is then the
    empty `{"params": {}, "returns": {}}`) -/
def emitFileOnHierarchy (c : Ctx) (moduleName : Str) (key : Str) (orig : Path) (irName : Option Str) : M Unit := do
  if orig.isEmpty then raise .assertion
  efhPrepare c (rpartition key ['.']).1
  efhEmit c (efhName (rpartition key ['.']).2.2 irName) (efhRel moduleName orig) irName

/-- `emit_files_from_module_and_return_imports` (always returns `[]`: `emit_file_on_hierarchy` returns `None`) -/
def emitFiles (env : Env) (c : Ctx) (moduleName : Str) (moduleRootDir : Path) : M Unit := do
  let contents ← getModuleContents env moduleRootDir
  forEach contents (fun (kv : Content) => do
    let key := if startsWith kv.1 moduleName then kv.1.drop (moduleName.length + 1) else kv.1
    let fromFile ← isfile moduleRootDir
    let orig :=
      if fromFile then join2 c.outputDirectory (basename moduleRootDir)
      else
        -- relative_filename(node.__file__): unchanged for a file outside the interpreter's library directories
        let filename := kv.2.1
        if startsWith filename moduleName then filename.drop (moduleName.length + 1) else filename
    -- dry run: the IR is the empty dict; otherwise the parser's result (it carries the node's name)
    let irName := if c.dryRun then none else some kv.2.2
    note { moduleName := moduleName, key := key, orig := orig, file := kv.2.1, node := kv.2.2,
           fromFile := fromFile, outputDirectory := c.outputDirectory }
    emitFileOnHierarchy c moduleName key orig irName)

/-! ## `exmod_single_folder` -/

def pairLt (a b : Path × Str) : Bool := strLt a.1 b.1 || (a.1 == b.1 && strLt a.2 b.2)
def insertPair (x : Path × Str) : List (Path × Str) → List (Path × Str)
  | [] => [x]
  | y :: ys => if x == y then y :: ys else if pairLt x y then x :: y :: ys else y :: insertPair x ys
/-- `groupby(sorted(…, key=itemgetter(0)), key=itemgetter(0))`: one group per distinct (filepath, module) -/
def sortedGroups (l : List (Path × Str)) : List (Path × Str) := l.foldl (fun acc x => insertPair x acc) []

structure Run where
  cfg : Cfg
  env : Env
  emit : EmitKind
  moduleRoot : Str
  newModuleName : Str

/-- the `proceed` gate of `exmod_single_folder` -/
def modPathOf (moduleRoot moduleName : Str) : Str :=
  if startsWith moduleName (moduleRoot ++ ['.']) then moduleName else moduleRoot ++ ['.'] ++ moduleName
def proceed (blacklist whitelist : List Str) (modPath : Str) : Bool :=
  (blacklist.length + whitelist.length == 0) ||
  (!blacklist.contains modPath && (whitelist.contains modPath || whitelist.isEmpty))

def finalInitPath (outputDirectory : Path) (newModuleName : Str) : Path :=
  if endsWith outputDirectory (['/'] ++ replace newModuleName ['.'] ['/']) then join2 outputDirectory INIT
  else joinL outputDirectory [newModuleName, INIT]

/-- `exmod_single_folder` -/
def singleFolder (r : Run) (moduleName : Str) (moduleRootDir outputDirectory : Path) : M Unit := do
  let modPath := modPathOf r.moduleRoot moduleName
  if !proceed r.cfg.blacklist r.cfg.whitelist modPath then return ()
  let c : Ctx := { emit := r.emit, dryRun := r.cfg.dryRun, newModuleName := r.newModuleName,
                   outputDirectory := outputDirectory, firstOutputDirectory := r.cfg.out }
  emitFiles r.env c moduleName moduleRootDir
  -- `if not imports:` (always) — parse the `__init__` of the folder
  let topLevelInit := join2 moduleRootDir INIT
  let mod ← readFile topLevelInit
  let froms := mod.body.filterMap (fun | .from_ i => some i | _ => none)
  -- sorted(map(…)) is eager: every find_module_filepath / parse happens before the first emission
  let entries ← mapM' froms (fun (imp : ImportFrom) => do
    match imp.module with
    | none => raise .attributeError
    | some m =>
      let (a, _, b) := rpartition m ['.']
      let fp? ← if a.isEmpty then findModuleFilepath r.env (some b) none else findModuleFilepath r.env (some a) (some b)
      match fp? with
      | none => raise .assertion
      | some fp =>
        let _ ← readFile fp
        pure (fp, m))
  forEach (sortedGroups entries) (fun (g : Path × Str) => emitFiles r.env c g.2 g.1)
  let initFilepath := finalInitPath outputDirectory r.newModuleName
  if r.cfg.dryRun then print (msg WRITE initFilepath)
  else
    makedirs (dirname initFilepath) true
    writeFile initFilepath (fun _ => ⟨[.other, .all_ []], []⟩)

/-! ## `exmod` -/

/-- `_create_sqlalchemy_mod` -/
def createSqlalchemyMod (sqlDir : Path) : M Unit := do
  osMkdir sqlDir false
  openA (join2 sqlDir INIT)
  writeFile (join2 sqlDir ['c', 'o', 'n', 'n', 'e', 'c', 't', 'i', 'o', 'n', '.', 'p', 'y']) (fun _ => ⟨[.other], []⟩)
  writeFile (join2 sqlDir ['c', 'r', 'e', 'a', 't', 'e', '_', 't', 'a', 'b', 'l', 'e', 's', '.', 'p', 'y']) (fun _ => ⟨[.other], []⟩)

/-- `_add_imports_to_sqlalchemy_create_all` -/
def addImportsToCreateAll (sqlDir : Path) : M Unit := do
  let p := join2 sqlDir ['c', 'r', 'e', 'a', 't', 'e', '_', 't', 'a', 'b', 'l', 'e', 's', '.', 'p', 'y']
  let _ ← readFile p
  writeFile p (fun _ => ⟨[.other], []⟩)

def newModuleNameOf (cfg : Cfg) (moduleRoot : Str) : Str :=
  if moduleRoot.isEmpty then GOLD
  else match cfg.target with
    | some t => if t.isEmpty then moduleRoot ++ ['_', '_', '_'] ++ GOLD else t
    | none => moduleRoot ++ ['_', '_', '_'] ++ GOLD

/-- `find_packages(module_root_dir, include=whitelist or ("*",), exclude=blacklist or ())` on metacharacter-free names -/
def packagesOf (cfg : Cfg) (env : Env) : List Str :=
  env.allPackages.filter (fun p => (cfg.whitelist.isEmpty || cfg.whitelist.contains p) && !cfg.blacklist.contains p)

/-- `elif dry_run: print("mkdir …") elif not path.isdir(output_directory): makedirs(output_directory)` -/
def announceOut (cfg : Cfg) : M Unit := do
  if cfg.dryRun then print (msg MKDIR cfg.out)
  else if !(← isdir cfg.out) then makedirs cfg.out

/-- `exmod(emit_name=<str>, …)`; `announce = false` is the continuation of the outer (list) call, whose `if` chain has
    already taken the first branch -/
def exmodStr (cfg : Cfg) (env : Env) (emit : EmitKind) (announce : Bool) : M Unit := do
  if announce then announceOut cfg
  let (moduleRoot, _, submodule) := rpartition cfg.module ['.']
  let newModuleName := newModuleNameOf cfg moduleRoot
  let sqlDir := join2 cfg.out SQLMOD
  let makeSqlalchemyMod := emit.isSql && cfg.sqlSub && !cfg.dryRun && !(← isdir sqlDir)
  if makeSqlalchemyMod then createSqlalchemyMod sqlDir
  let origin? ← mapErr (if moduleRoot.isEmpty then findModuleFilepath env (some cfg.module) none
                        else findModuleFilepath env (some moduleRoot) (some submodule))
                  (fun e => if e == .assertion then .moduleNotFound else e)
  let moduleRootDir := dirname (origin?.getD [])
  let r : Run := { cfg := cfg, env := env, emit := emit, moduleRoot := moduleRoot, newModuleName := newModuleName }
  let packages := packagesOf cfg env
  singleFolder r cfg.module moduleRootDir cfg.out
  if makeSqlalchemyMod then addImportsToCreateAll sqlDir
  -- the same top folder again, then (if recursive) every package below it
  singleFolder r cfg.module moduleRootDir cfg.out
  if cfg.recursive then
    forEach packages (fun (package : Str) =>
      let rel := replace package ['.'] ['/']
      singleFolder r package (join2 moduleRootDir rel) (join2 cfg.out rel))

/-- `cdd exmod …` from the command line: `emit_name` is the list collected by `--emit` -/
def exmodCli (cfg : Cfg) (env : Env) : M Unit := do
  forEach cfg.emitNames (fun e => exmodStr cfg env e true)
  match cfg.emitNames with
  | [e] => exmodStr cfg env e false
  | _ => raise .assertion

/-! ## the domain of the confinement theorem (`C20.confined_partial`), as a decidable predicate -/

/-- `mod_name` / `name` as `emit_file_on_hierarchy` derives them from the key -/
def Item.modName (it : Item) : Str := (rpartition it.key ['.']).1
def Item.name (it : Item) : Str := (rpartition it.key ['.']).2.2

/-- an item whose key was stripped at a component boundary:
    * the directory derived from the key is relative (`mod_name` does not begin with `.` or `/`);
    * the original path is not cut by `relative_filename_path[len(module_name_as_path + sep):]`;
    * first phase (the folder's `__init__`): the original path is the node's own absolute file and the derived name is
      still the node's name (what `[len(module_name) + 1:]` breaks when a name merely *starts with* the module name). -/
def itemOk (it : Item) : Bool :=
  !isAbs (replace it.modName ['.'] ['/']) &&
  !startsWith it.orig (replace it.moduleName ['.'] ['/'] ++ ['/']) &&
  (it.fromFile || (it.orig == it.file && isAbs it.file && it.name == it.node))

/-- `new_module_name` of the run -/
def Cfg.newModuleName (cfg : Cfg) : Str := newModuleNameOf cfg (rpartition cfg.module ['.']).1

/-- the trace of a run from an initial file system -/
def run (cfg : Cfg) (env : Env) (fs : FS) : Res Unit := exmodCli cfg env fs
def trace (cfg : Cfg) (env : Env) (fs : FS) : List Effect := (run cfg env fs).trace

/-- hypotheses of `C20.confined_partial`:
    the output directory is an absolute path without trailing slash whose parent exists; the new module name is relative
    and the output directory's dotted path does not end with it (else `mod_path = output_directory` and
    `dirname(mod_path)/__init__.py` is touched); package names give relative directories; every item of the run is `itemOk` -/
def inDomain (cfg : Cfg) (env : Env) (fs : FS) : Bool :=
  isAbs cfg.out && cfg.out.getLast? != some '/' && fs.isdir (dirname cfg.out) &&
  !isAbs cfg.newModuleName && !endsWith (replace cfg.out ['/'] ['.']) cfg.newModuleName &&
  env.allPackages.all (fun p => !isAbs (replace p ['.'] ['/'])) &&
  (run cfg env fs).items.all itemOk

end Exmod
