import CddVerif.Py.Str
import CddVerif.Model.Loop
import CddVerif.Model.DocstringUtils
/-!
# The remaining `while` loops of the non-test code (property C11)

* `skipLoop`   — `cdd/docstring/emit.py:docstring`, leading blank-line skip
* `unionLoop`  — `cdd/docstring/utils/parse_utils.py:_union_literal_from_sentence_phase0` (index and quote
                 counters only: the `union` list never influences control flow)
* `findLoop`   — `cdd/shared/ast_utils.py:find_in_ast` (`while len(current_search)`), abstracted to the length of
                 `current_search` with the body's extra `pop(0)`s / `return` supplied by an arbitrary oracle
(the three loops of `docstring_utils` are in `Model/DocstringUtils.lean`).
-/
namespace Loops
open Py Loop

/-! ### emit.docstring -/

theorem slice_nonempty {α} (l : List α) (a b : Nat) (h : (slice l (some (a : Int)) (some (b : Int))) ≠ []) :
    a < b ∧ a < l.length := by
  unfold slice clampIdx at h
  simp only at h
  have ha : ¬ ((a : Int) < 0) := by omega
  have hb : ¬ ((b : Int) < 0) := by omega
  simp only [ha, hb, if_false] at h
  have hl : ((l.drop (if (a:Int) > l.length then l.length else (a:Int).toNat)).take
      ((if (b:Int) > l.length then l.length else (b:Int).toNat) - (if (a:Int) > l.length then l.length else (a:Int).toNat))).length ≠ 0 := by
    intro h0; exact h (List.eq_nil_of_length_eq_zero h0)
  simp only [List.length_take, List.length_drop] at hl
  split at hl <;> split at hl <;> omega

/-- state: (`prev_nl`, `next_nl`) with `next_nl = -1` for "not found" -/
def skipLoop (s : Str) : WhileLoop (Nat × Int) where
  step st :=
    if st.2 > -1 then
      let line := slice s (some (st.1 : Int)) (some st.2)
      if !isspace line then .exitBreak st
      else .next ((st.2 + 1).toNat, findAtI s ['\n'] (st.2 + 1).toNat)
    else .exitCond
  measure st := s.length - st.1
  dec := by
    intro st s' h
    split at h
    · rename_i hgt
      dsimp only at h
      split at h
      · cases h
      · rename_i hsp
        cases h
        have hsp' : isspace (slice s (some (st.1 : Int)) (some st.2)) = true := by simpa using hsp
        have hne : slice s (some (st.1 : Int)) (some st.2) ≠ [] := by
          intro h0; rw [h0] at hsp'; simp [isspace] at hsp'
        have hn : st.2 = ((st.2.toNat : Nat) : Int) := by omega
        rw [hn] at hne
        have := slice_nonempty s st.1 st.2.toNat hne
        simp only; omega
    · cases h

/-- the loop as entered by `docstring()`: `prev_nl, next_nl = 0, s.find("\n")` (only when `next_nl != -1`) -/
def skipRun (s : Str) : (Nat × Int) × Exit × Nat := (skipLoop s).run (0, findI s ['\n'])

/-! ### `_union_literal_from_sentence_phase0` (index progression) -/

structure UState where
  i : Nat
  q1 : Nat := 0   -- quotes["'"]
  q2 : Nat := 0   -- quotes['"']
deriving Repr

/-- one pass through the body: the new state -/
def unionBody (s : Array Char) (st : UState) : UState :=
  let ch := s[st.i]!
  let isSp := isSpaceC ch
  -- i += count_iter_items(takewhile(str.isspace, sentence[i:])) - 1
  let i1 := if isSp then st.i + (((s.toList.drop st.i).takeWhile isSpaceC).length - 1) else st.i
  if ch == '\'' || ch == '"' then
    let bump := st.i == 0 || s[st.i - 1]! != '\\'
    let q1 := if bump && ch == '\'' then st.q1 + 1 else st.q1
    let q2 := if bump && ch == '"' then st.q2 + 1 else st.q2
    let i2 := if i1 + 2 < s.size && (q1 + q2) % 2 == 0 && s[i1 + 1]! == ',' then i1 + 1 else i1
    { i := i2 + 1, q1 := q1, q2 := q2 }
  else { st with i := i1 + 1 }

theorem unionBody_progress (s : Array Char) (st : UState) : st.i < (unionBody s st).i := by
  unfold unionBody
  dsimp only
  generalize hi1 : (if isSpaceC s[st.i]! = true then st.i + (((s.toList.drop st.i).takeWhile isSpaceC).length - 1) else st.i) = i1
  have h1 : st.i ≤ i1 := by rw [← hi1]; split <;> omega
  split
  · simp only
    have h2 : ∀ (c : Prop) [Decidable c], i1 ≤ (if c then i1 + 1 else i1) := by
      intro c _; split <;> omega
    exact Nat.lt_succ_of_le (Nat.le_trans h1 (h2 _))
  · simp only; omega

def unionLoop (s : Array Char) : WhileLoop UState where
  step st := if st.i < s.size then .next (unionBody s st) else .exitCond
  measure st := s.size - st.i
  dec := by
    intro st s' h
    split at h
    · cases h
      have := unionBody_progress s st
      omega
    · cases h

/-! ### `find_in_ast` (abstract) -/

/-- oracle answer for one iteration of the body: how many further `pop(0)` the `for` loop performs
    (each guarded by `if len(current_search)`), and whether the body returns -/
structure FindStep where
  extraPops : Nat
  returns : Bool

/-- state: (len(current_search), remaining oracle answers) -/
def findLoop : WhileLoop (Nat × List FindStep) where
  step st :=
    match st.1, st.2 with
    | 0, _ => .exitCond
    | k + 1, [] => .next (k, [])
    | k + 1, o :: os => if o.returns then .exitBreak (k, os) else .next (k - min o.extraPops k, os)
  measure st := st.1
  dec := by
    intro st s' h
    split at h
    · cases h
    · cases h; simp_all
    · split at h
      · cases h
      · cases h; simp_all; omega

end Loops
