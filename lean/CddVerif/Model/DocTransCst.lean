import CddVerif.Model.Cst
/-!
# Model of the write-back half of `cdd doctrans` (property C07)

* `cdd/shared/ast_cst_utils.py`: `find_cst_at_ast`, `maybe_replace_doc_str_in_function_or_class`,
  `maybe_replace_function_return_type`, `maybe_replace_function_args` (the header text surgery on `List Char`);
* `cdd/compound/doctrans_utils.py`: `doctransify_cst` (the loop over the definitions of the new AST);
* `cdd/shared/ast_utils.py`: `get_doc_str`; `cdd/shared/cst_utils.py`: `reindent_block_with_pass_body`;
* `cdd/compound/doctrans.py`: `doctrans` as an effect trace.

Not modelled (taken as inputs / oracles, see `World`): CPython's `ast.parse` of the header text, and the AST-level
stage (`ast_parse`, `DocTrans.visit`, `cmp_ast`) whose result is the list of `FnEdit`s — one per `ClassDef` /
`FunctionDef` / `AsyncFunctionDef` of the *new* tree, in `ast.walk` order.  Expressions (annotations, defaults)
are compared and printed through their `ast.unparse` text.
-/
namespace DocTransCst
open Py Cst

/-- exception class name -/
abbrev Err := String

/-! ## Signatures (text level) -/

structure HArg where
  name : Str
  ann : Option Str := none
deriving DecidableEq, Repr, Inhabited

/-- `ast.arguments` with expressions as `ast.unparse` text -/
structure HArgs where
  posonly : List HArg := []
  args : List HArg := []
  vararg : Option HArg := none
  kwonly : List HArg := []
  kwDefaults : List (Option Str) := []
  kwarg : Option HArg := none
  defaults : List Str := []
deriving DecidableEq, Repr, Inhabited

structure Sig where
  args : HArgs := {}
  returns : Option Str := none
deriving DecidableEq, Repr, Inhabited

inductive DefKind | cls | fn | asyncFn
deriving DecidableEq, Repr, Inhabited

/-- what `get_doc_str` can see in `node.body[0]` of the new AST node -/
inductive Body0
  | noBody                    -- `node.body == []`  (IndexError)
  | notExpr                   -- first statement is not an `Expr`
  | nonConst                  -- `Expr` whose value is not a `Constant`
  | str (s : Str)             -- string constant
  | noneConst                 -- the constant `None` (→ `NoneStr`)
  | falsy                     -- `0`, `False`, `b""`, … (→ `""` through `or ""`)
  | truthy (isBytes : Bool)   -- any other non-`str` constant (`...`, `1`, `b"x"`, `True`)
deriving DecidableEq, Repr, Inhabited

/-- what the AST-level stage decided for one definition (one node of `walk(new_tree)` that is a class / function) -/
structure FnEdit where
  kind : DefKind
  name : Str
  lineno : Nat
  body0 : Body0
  /-- `new_node.args`, `new_node.returns` (functions only) -/
  sig : Sig := {}
deriving DecidableEq, Repr, Inhabited

def DefKind.cstType : DefKind → String
  | .cls => "ClassDefinitionStart"
  | _ => "FunctionDefinitionStart"

def DefKind.astType : DefKind → Str
  | .cls => "ClassDef".toList
  | .fn => "FunctionDef".toList
  | .asyncFn => "AsyncFunctionDef".toList

/-! ## `find_cst_at_ast` -/

/-- the three-part test of `find_cst_at_ast` -/
def matchesNode (e : FnEdit) (n : Node) : Bool :=
  decide (n.start ≤ e.lineno) && decide (e.lineno ≤ n.stop) && n.kind == e.kind.cstType && n.name == some e.name

/-- index of the first matching node (`cst_node_found is None` ↦ `none`) -/
def findCstFrom (e : FnEdit) : List Node → Nat → Option Nat
  | [], _ => none
  | n :: rest, i => if matchesNode e n then some i else findCstFrom e rest (i + 1)

def findCst (e : FnEdit) (nodes : List Node) : Option Nat := findCstFrom e nodes 0

/-! ## `get_doc_str` and `maybe_replace_doc_str_in_function_or_class` -/

/-- `new_doc_str = get_doc_str(node) or ""` -/
inductive NewDoc
  | empty
  | text (s : Str)
  | bad (isBytes : Bool)
deriving DecidableEq, Repr

def noneStr : Str := ['`', '`', '`', '(', 'N', 'o', 'n', 'e', ')', '`', '`', '`']

/-- `get_doc_str(node) or ""`.  `get_doc_str` tests `isinstance(node, (AsyncFunctionDef, ClassDef, FunctionDef))`,
    which holds for every definition `doctransify_cst` hands it: the answer does not depend on the kind. -/
def newDocOf (b : Body0) : Except Err NewDoc :=
  match b with
  | .noBody => .error "IndexError"
  | .notExpr => .ok .empty
  | .nonConst => .ok .empty
  | .str s => .ok (if s.isEmpty then .empty else .text s)
  | .noneConst => .ok (.text noneStr)
  | .falsy => .ok .empty
  | .truthy b => .ok (.bad b)

def tq3 : Str := ['"', '"', '"']

/-- `omit_whitespace` : `str.translate` deleting `" "`, `"\n"`, `"\t"` -/
def omitWhitespace (s : Str) : Str := s.filter (fun c => !(c == ' ' || c == '\n' || c == '\t'))

/-- number of leading `str.isspace` characters -/
def leadingWs (s : Str) : Nat := (s.takeWhile isSpaceC).length

/-- `len(tab)` (`DOCTRANS_TAB` unset) -/
def tabLen : Int := 4

/-- the text built by `formatted_doc_str` -/
def formattedDocValue (afterValue : Str) (doc : Str) : Str :=
  let s := lstripChars afterValue ['\n']
  let n := leadingWs s
  let space := s.take n
  let linePrefix := slice s none (some ((n : Int) - tabLen))
  let body := rstrip (join ['\n'] ((split1 doc '\n').map (fun line => linePrefix ++ line)))
  ['\n'] ++ space ++ tq3 ++ body ++ ['\n'] ++ space ++ tq3

/-- `formatted_doc_str` → `TripleQuoted(is_double_q, is_docstr=True, value, line numbers of the node after the header)` -/
def formattedDoc (after : Node) (doc : Str) (isDoubleQ : Option Bool) : Node :=
  { kind := "TripleQuoted", start := after.start, stop := after.stop, value := formattedDocValue after.value doc,
    isDoubleQ := isDoubleQ, isDocstr := some true }

/-- `UnchangingLine(0, 0, "")` -/
def emptyLine : Node := { kind := "UnchangingLine", start := 0, stop := 0, value := [] }

/-- `isinstance(cur_node_after_func, TripleQuoted) and cur_node_after_func.is_docstr` -/
def isDocTQ (n : Node) : Bool := n.kind == "TripleQuoted" && n.isDocstr == some true

def deltaLine (delta affector : String) (k : DefKind) (name : Str) : Str :=
  let d := delta.toList
  d ++ List.replicate (20 - d.length) ' ' ++ affector.toList ++ ['\t'] ++ k.astType ++ ['\t', '`'] ++ name ++ ['`']

/-- replace element `i` (no-op when out of range) -/
def setAt {α} : List α → Nat → α → List α
  | [], _, _ => []
  | _ :: xs, 0, y => y :: xs
  | x :: xs, i + 1, y => x :: setAt xs i y

/-- `list.insert(i, y)` for `i ≤ len` -/
def insertAt {α} : List α → Nat → α → List α
  | xs, 0, y => y :: xs
  | [], _ + 1, y => [y]
  | x :: xs, i + 1, y => x :: insertAt xs i y

/-- `del list[i]` (no-op when out of range) -/
def deleteAt {α} : List α → Nat → List α
  | [], _ => []
  | _ :: xs, 0 => xs
  | x :: xs, i + 1 => x :: deleteAt xs i

/-- `maybe_replace_doc_str_in_function_or_class`: new list and the debug line printed (if any). -/
def replaceDoc (nodes : List Node) (idx : Nat) (e : FnEdit) : Except Err (List Node × List Str) := do
  let nd ← newDocOf e.body0
  let after := (nodes[idx + 1]?).getD emptyLine
  let existing := isDocTQ after
  match nd, existing with
  | .empty, false => pure (nodes, [])
  | .empty, true => pure (deleteAt nodes (idx + 1), [deltaLine "Delta.removed" "docstr" e.kind e.name])
  | .bad isBytes, false =>
    -- `doc_str.split("\n")` on a non-`str`
    .error (if isBytes then "TypeError" else "AttributeError")
  | .bad _, true =>
    -- `omit_whitespace(new_doc_str)` = `str.translate(<non-str>, …)`
    .error "TypeError"
  | .text d, false =>
    pure (insertAt nodes (idx + 1) (formattedDoc after d (some true)), [deltaLine "Delta.added" "docstr" e.kind e.name])
  | .text d, true =>
    let cur := slice (strip after.value) (some 3) (some (-3))
    if omitWhitespace cur != omitWhitespace d then
      -- `cur_node_after_func.value.partition(cur_doc_str_only)` — `ValueError: empty separator`
      if cur.isEmpty then .error "ValueError"
      else pure (setAt nodes (idx + 1) (formattedDoc after d after.isDoubleQ),
                 [deltaLine "Delta.replaced" "docstr" e.kind e.name])
    else pure (nodes, [])

/-! ## header text surgery -/

def sArrow : Str := ['-', '>']
def sDefSp : Str := ['d', 'e', 'f', ' ']
def sSpDefSp : Str := [' ', 'd', 'e', 'f', ' ']
def sParDefSp : Str := [')', 'd', 'e', 'f', ' ']

/-- `s.rfind(p, None, end)` with Python's treatment of a negative `end` -/
def rfindEndI (s p : Str) (e : Int) : Int := rfindI (slice s none (some e)) p

/-- `remove_return_typ` -/
def removeReturnTyp (statement : Str) : Str :=
  rstrip (slice statement none (some (rfindI statement sArrow))) ++ [':']

/-- `add_return_typ` (`ret` = `to_code(new_node.returns).rstrip("\n")`) -/
def addReturnTyp (statement ret : Str) : Str :=
  let (pre, col, post) := rpartition statement [':']
  pre ++ [' ', '-', '>', ' '] ++ ret ++ col ++ post

/-- a rebuilt `FunctionDefinitionStart` -/
def headerNode (old : Node) (value : Str) : Node :=
  { kind := "FunctionDefinitionStart", start := old.start, stop := old.stop, value := value, name := old.name }

/-- `maybe_replace_function_return_type`: new header value (if replaced) and the `Delta` -/
def replaceReturn (cur new : Option Str) (value : Str) : Option (Str × String) :=
  if cur == new then none
  else match cur, new with
    | some _, some r => some (addReturnTyp (removeReturnTyp value) r, "Delta.replaced")
    | some _, none => some (removeReturnTyp value, "Delta.removed")
    | none, some r => some (addReturnTyp value r, "Delta.added")
    | none, none => none

/-- the `for i in range(len(cur_args))` loop of `maybe_replace_function_args` (`!=` on AST nodes is identity,
    so two annotations differ unless both are `None`); `new_args[i]` may raise `IndexError` -/
def argsDelta : List HArg → List HArg → Except Err (Option String)
  | [], _ => .ok none
  | _ :: _, [] => .error "IndexError"
  | c :: cs, n :: ns =>
    match c.ann, n.ann with
    | none, none => argsDelta cs ns
    | none, some _ => .ok (some "Delta.added")
    | some _, none => .ok (some "Delta.removed")
    | some _, some _ => .ok (some "Delta.replaced")

/-- `"{arg_name}{annotation}"` -/
def synthArg (a : HArg) : Str :=
  a.name ++ (match a.ann with | none => [] | some t => [':', ' '] ++ t)

/-- `", ".join(name[: annotation] for arg in new_node.args.args)` -/
def synthArgs (args : List HArg) : Str := join [',', ' '] (args.map synthArg)

/-- `function_name_starts_at` -/
def fnNameStartsAt (v : Str) : Int :=
  if startsWith v sDefSp then 4
  else
    let i := findI v sSpDefSp
    (if i == -1 then findI v sParDefSp else i) + 4 + 1

/-- the three slices located by `maybe_replace_function_args`:
    `value[: arg_start_idx + 1]` and `value[func_end - 1 :]` -/
def locateParens (v : Str) : Str × Str :=
  let start := fnNameStartsAt v
  let argStart : Int := findAtI v ['('] start.toNat
  let funcEnd : Int := rfindI v [':']
  let returnType : Int := rfindEndI v sArrow funcEnd
  let funcEnd : Int := if returnType > -1 then returnType else funcEnd
  let funcEnd : Int := rfindEndI v [')'] funcEnd + 1
  (slice v none (some (argStart + 1)), slice v (some (funcEnd - 1)) none)

/-- the re-synthesised header of `maybe_replace_function_args` -/
def replaceArgsValue (v : Str) (newArgs : List HArg) : Str :=
  let (pre, post) := locateParens v
  pre ++ synthArgs newArgs ++ post

/-- `maybe_replace_function_args` -/
def replaceArgs (cur new : HArgs) (value : Str) : Except Err (Option Str × Option String) :=
  if cur == new then .ok (none, none)
  else do
    let d ← argsDelta cur.args new.args
    pure (some (replaceArgsValue value new.args), d)

/-- `reindent_block_with_pass_body` -/
def reindentWithPass (s : Str) : Str :=
  replace1 (join ['\n'] ((split1 s '\n').map lstrip)) [' ', ' ', ' ', ' '] [] ++ [' ', 'p', 'a', 's', 's']

/-! ## `doctransify_cst` -/

/-- CPython's parse of a (re-indented, `pass`-bodied) header: `ast_parse(…).body[0]` reduced to `.args` / `.returns` -/
abbrev HeaderParser := Str → Except Err Sig

/-- one iteration of the `for _node in …walk(node)` loop for a class / function node:
    (lines printed, new list or the exception raised) -/
def applyEdit (parse : HeaderParser) (nodes : List Node) (e : FnEdit) : List Str × Except Err (List Node) :=
  match findCst e nodes with
  | none => ([], .ok nodes)
  | some idx =>
    match replaceDoc nodes idx e with
    | .error x => ([], .error x)
    | .ok (nodes1, log1) =>
      if e.kind == .cls then (log1, .ok nodes1)
      else
        match nodes1[idx]? with
        | none => (log1, .ok nodes1)   -- unreachable: `idx` is a valid index
        | some hdr =>
          match parse (reindentWithPass hdr.value) with
          | .error x => (log1, .error x)
          | .ok cur =>
            let (nodes2, log2) :=
              match replaceReturn cur.returns e.sig.returns hdr.value with
              | none => (nodes1, [])
              | some (v, d) => (setAt nodes1 idx (headerNode hdr v), [deltaLine d "return_type" e.kind e.name])
            let hdr2 := (nodes2[idx]?).getD hdr
            match replaceArgs cur.args e.sig.args hdr2.value with
            | .error x => (log1 ++ log2, .error x)
            | .ok (v?, d?) =>
              let nodes3 := match v? with | none => nodes2 | some v => setAt nodes2 idx (headerNode hdr2 v)
              let log3 := match d? with | none => [] | some d => [deltaLine d "args" e.kind e.name]
              (log1 ++ log2 ++ log3, .ok nodes3)

/-- the loop of `doctransify_cst` over the definitions of the new tree -/
def doctransifyLoop (parse : HeaderParser) : List Node → List FnEdit → List Str × Except Err (List Node)
  | nodes, [] => ([], .ok nodes)
  | nodes, e :: es =>
    match applyEdit parse nodes e with
    | (log, .error x) => (log, .error x)
    | (log, .ok nodes') =>
      let r := doctransifyLoop parse nodes' es
      (log ++ r.1, r.2)

/-- `doctransify_cst` (the list it leaves behind) -/
def doctransifyCst (parse : HeaderParser) (nodes : List Node) (edits : List FnEdit) : Except Err (List Node) :=
  (doctransifyLoop parse nodes edits).2

/-! ## `doctrans` as an effect trace -/

inductive Effect
  | openRead
  | read
  | closeRead
  | print (line : Str)
  /-- `open(filename, "wt")`: the file is truncated here -/
  | openWrite
  | write (s : Str)
  | closeWrite
deriving DecidableEq, Repr

/-- the stages of `doctrans` that are not modelled here -/
structure World where
  /-- `ast_parse` → `DocTrans(...).visit` → `fix_missing_locations` → `cmp_ast(node, original)`:
      `(changed, definitions of the new tree in walk order)` or the exception raised -/
  astStage : Str → Except Err (Bool × List FnEdit)
  parseHeader : HeaderParser

/-- `"".join(map(attrgetter("value"), cst_list))` -/
def joinValues (nodes : List Node) : Str := (nodes.map (·.value)).flatten

/-- `cdd.compound.doctrans.doctrans`: the effects on the outside world, in order, and the outcome.
    `file` is what `open(filename).read()` yields (or the exception it raises). -/
def doctrans (w : World) (file : Except Err Str) : List Effect × Except Err Unit :=
  match file with
  | .error x => ([.openRead], .error x)
  | .ok src =>
    let t0 := [Effect.openRead, .read, .closeRead]
    match w.astStage src with
    | .error x => (t0, .error x)
    | .ok (false, _) => (t0, .ok ())
    | .ok (true, edits) =>
      let r := doctransifyLoop w.parseHeader (cstParse src) edits
      let t1 := t0 ++ r.1.map Effect.print
      match r.2 with
      | .error x => (t1, .error x)
      | .ok nodes => (t1 ++ [.openWrite, .write (joinValues nodes), .closeWrite], .ok ())

/-- A variant that opens the file for writing *before* the CST stage (what the code must not do);
    used only to show that the atomicity statement is falsifiable. -/
def doctransEarlyOpen (w : World) (file : Except Err Str) : List Effect × Except Err Unit :=
  match file with
  | .error x => ([.openRead], .error x)
  | .ok src =>
    let t0 := [Effect.openRead, .read, .closeRead]
    match w.astStage src with
    | .error x => (t0, .error x)
    | .ok (false, _) => (t0, .ok ())
    | .ok (true, edits) =>
      let r := doctransifyLoop w.parseHeader (cstParse src) edits
      let t1 := t0 ++ [Effect.openWrite] ++ r.1.map Effect.print
      match r.2 with
      | .error x => (t1, .error x)
      | .ok nodes => (t1 ++ [.write (joinValues nodes), .closeWrite], .ok ())

/-- file content after a trace, starting from `content` -/
def fileAfter : Str → List Effect → Str
  | c, [] => c
  | _, .openWrite :: rest => fileAfter [] rest
  | c, .write s :: rest => fileAfter (c ++ s) rest
  | c, _ :: rest => fileAfter c rest

/-! ## `ast.unparse` of an `arguments` node (the reference rendering of a full parameter list) -/

def unparseArg (a : HArg) : Str := synthArg a

/-- positional part: `posonly ++ args` with right-aligned defaults and the `/` marker -/
def unparsePositional (nPosonly : Nat) : Nat → List HArg → List (Option Str) → List Str
  | _, [], _ => []
  | i, a :: as, ds =>
    let d := ds.head?.getD none
    let piece := unparseArg a ++ (match d with | some x => ['='] ++ x | none => [])
    let pieces := if i + 1 == nPosonly then [piece, ['/']] else [piece]
    pieces ++ unparsePositional nPosonly (i + 1) as ds.tail

/-- `ast._Unparser.visit_arguments` -/
def unparseArgs (a : HArgs) : Str :=
  let all := a.posonly ++ a.args
  let ds : List (Option Str) := List.replicate (all.length - a.defaults.length) none ++ a.defaults.map some
  let pos := unparsePositional a.posonly.length 0 all ds
  let star : List Str :=
    match a.vararg with
    | some v => [['*'] ++ unparseArg v]
    | none => if a.kwonly.isEmpty then [] else [['*']]
  let kwo : List Str := (a.kwonly.zip a.kwDefaults).map (fun (x, d) =>
    unparseArg x ++ (match d with | some v => ['='] ++ v | none => []))
  let kw : List Str := match a.kwarg with | some k => [['*', '*'] ++ unparseArg k] | none => []
  join [',', ' '] (pos ++ star ++ kwo ++ kw)

end DocTransCst
