import CddVerif.Py.Str
import CddVerif.Model.Loop
/-!
# Faithful port of the index walkers of `cdd/shared/docstring_utils.py` (properties C11, C15)

Python ints are `Int`, `None` is `Option`, `IndexError`/`TypeError` are `Except String`.
The three `while` loops are `Loop.WhileLoop` instances (termination argument = field `dec`);
`for … in range(…)` loops are bounded by construction.
Every function returns, besides its value, nothing else; loop header counts are exposed by the
`*Count` variants for the trace correspondence of C11.
-/
namespace DocUtils
open Py Loop

abbrev S := Array Char

def n (s : S) : Int := s.size

/-- Python `s[i]` (negative indices allowed); `none` = IndexError -/
def at? (s : S) (i : Int) : Option Char :=
  if 0 ≤ i then s[i.toNat]? else if 0 ≤ (s.size : Int) + i then s[((s.size : Int) + i).toNat]? else none

theorem at?_bounds (s : S) (i : Int) (c : Char) (h : at? s i = some c) : -(s.size : Int) ≤ i ∧ i < s.size := by
  unfold at? at h
  split at h
  · rename_i h0
    have := Array.getElem?_eq_some_iff.mp h
    obtain ⟨hlt, _⟩ := this
    omega
  · split at h
    · omega
    · cases h

/-- Python `s[a:b]` -/
def sl (s : S) (a b : Option Int) : Str := slice s.toList a b

def leadingWs (l : Str) : Nat := (l.takeWhile isSpaceC).length

def restTokens : List String := [":param", ":cvar", ":ivar", ":var", ":type", ":raises", ":return", ":rtype"]
def googleTokens : List String := ["Args:", "Kwargs:", "Raises:", "Returns:"]
def numpySet : List String := ["Parameters", "Returns"]
def tokensSet : List String := restTokens ++ googleTokens ++ numpySet

def inSet (set : List String) (l : Str) : Bool := set.any (fun t => t.toList == l)
def startsWithAny (set : List String) (l : Str) : Bool := set.any (fun t => t.toList.isPrefixOf l)
/-- `x.count("-") == len(x)` -/
def allDashes (l : Str) : Bool := l.all (· == '-')

inductive Style | rest | google | numpydoc deriving DecidableEq, Repr
/-- `derive_docstring_format` -/
def deriveFormat (s : S) : Style :=
  let l := s.toList
  if restTokens.any (fun t => contains l t.toList) then .rest
  else if googleTokens.any (fun t => contains l t.toList) then .google
  else .numpydoc

/-- `_get_token_start_idx` -/
def tokenStartIdx (s : S) : Int := Id.run do
  let mut stack : Array Char := #[]
  for idx in [0:s.size] do
    let ch := s[idx]!
    if ch == '\n' then
      let st := stack.toList
      let ind := leadingWs st
      let line := st.drop ind
      if inSet numpySet line then
        let i := ind + idx + 1
        let nl := findAtI s.toList ['\n'] i
        let nextLine := sl s (some (i : Int)) (some nl)
        if allDashes nextLine then return (idx : Int) - stack.size
      else if startsWithAny tokensSet line then return (idx : Int) - stack.size
      stack := #[]
    else stack := stack.push ch
  return -1

/-- `_last_doc_str_token` -/
def lastDocStrToken (s : S) : Option Int := Id.run do
  let mut lastFound : Option Int := none
  let mut pen : Array Char := #[]
  let mut stack : Array Char := #[]
  for i in [0:s.size] do
    let ch := s[i]!
    if isSpaceC ch then
      if !stack.isEmpty then
        if allDashes stack.toList then
          if inSet numpySet pen.toList then lastFound := some ((i : Int) - stack.size + pen.size)
        else if inSet tokensSet stack.toList then lastFound := some ((i : Int) - stack.size)
        pen := stack
        stack := #[]
    else stack := stack.push ch
  return lastFound

/-- `for v in range(hi, 0, -1): if s[v] == "\n": v += 1; break` → final value of the loop variable
    (`none` if the range is empty).  Structural on the countdown. -/
def scanBackNlAux (s : S) : Nat → Option Int → Except String (Option Int)
  | 0, v => .ok v
  | k + 1, _ =>
    match at? s ((k + 1 : Nat) : Int) with
    | none => .error "IndexError"
    | some c => if c == '\n' then .ok (some ((k + 1 : Nat) + 1 : Int)) else scanBackNlAux s k (some ((k + 1 : Nat) : Int))
def scanBackNl (s : S) (hi : Int) : Except String (Option Int) :=
  if hi ≤ 0 then .ok none else scanBackNlAux s hi.toNat none

/-- `for i in range(hi, 0, -1): if s[i] == "\n": r = i + 1; break` → `some r` only on a hit -/
def scanBackNlHit (s : S) : Nat → Except String (Option Int)
  | 0 => .ok none
  | k + 1 =>
    match at? s ((k + 1 : Nat) : Int) with
    | none => .error "IndexError"
    | some c => if c == '\n' then .ok (some ((k + 1 : Nat) + 1 : Int)) else scanBackNlHit s k

/-- `_get_start_of_last_found` -/
def startOfLastFound (s : S) (lastFound : Int) : Except String (Option Int) := scanBackNl s (lastFound - 1)

/-- `_get_end_of_last_found_numpydoc` -/
def endOfLastFoundNumpydoc (s : S) (lastFound lastFoundStarts : Int) : Except String (Option Int) := do
  let countdownFrom := lastFoundStarts - 1
  let nls ← scanBackNl s (countdownFrom - 1)
  if inSet numpySet (sl s nls (some countdownFrom)) then
    let mut lastTok : Option Int := none
    let mut stack : Array Char := #[]
    for idx in [lastFound.toNat:s.size] do
      let c := s[idx]!
      if c == '\n' then
        if stack.any (· == ':') then lastTok := some idx
        stack := #[]
      else stack := stack.push c
    match lastTok with
    | none => return none
    | some lta =>
      -- for i in range(lta, 0, -1): if s[i] == "\n": starts = i + 1; break   (default: lta)
      match ← scanBackNlHit s lta.toNat with
      | none => return some lta
      | some v => return some v
  else return none

/-- `_get_end_of_last_found` -/
def endOfLastFound (s : S) (lastFound : Int) (lastFoundStarts : Option Int) (fmt : Style) : Except String (Option Int) := do
  let mut e : Option Int := none
  for k in [lastFound.toNat:s.size] do
    e := some k
    if s[k]! == '\n' then break
  let ends ← match e with | some v => pure (v + 1) | none => throw "TypeError"
  let seg := sl s lastFoundStarts (some lastFound)
  if fmt == .numpydoc && allDashes seg then
    endOfLastFoundNumpydoc s lastFound (lastFoundStarts.getD 0)
  else return some ends

/-- `_find_end_of_args_returns` -/
def findEndOfArgsReturns (s : S) (lastFoundEnds : Option Int) : Int :=
  let smallest := leadingWs (sl s lastFoundEnds none)
  match lastFoundEnds with
  | some e => if smallest == 0 then e - 1 else n s - 1
  | none => n s - 1

def countUntilNl (l : Str) : Nat := (l.takeWhile (· != '\n')).length

/-! ### the three `while` loops -/

/-- `while idx != 0 and doc_str[idx] != "\n": idx -= 1` -/
def loopA (s : S) : WhileLoop Int where
  step idx :=
    if idx == 0 then .exitCond
    else match at? s idx with
      | none => .raise
      | some c => if c == '\n' then .exitCond else .next (idx - 1)
  measure idx := if 0 ≤ idx then idx.toNat else (idx + s.size + 1).toNat
  dec := by
    intro idx s' h
    split at h
    · cases h
    · rename_i hne
      split at h
      · cases h
      · rename_i c hc
        split at h
        · cases h
        · cases h
          have hb := at?_bounds s idx c hc
          have : idx ≠ 0 := by simpa using hne
          split <;> split <;> omega

/-- `while i < len(doc_str) and doc_str[i] != "\n": i += 1` -/
def loopB (s : S) : WhileLoop Int where
  step i :=
    if i < n s then
      match at? s i with
      | none => .raise
      | some c => if c != '\n' then .next (i + 1) else .exitCond
    else .exitCond
  measure i := (n s - i).toNat
  dec := by
    intro i s' h
    split at h
    · rename_i hlt
      split at h
      · cases h
      · split at h
        · cases h; unfold n at *; omega
        · cases h
    · cases h

/-- state of the loop of `_get_token_last_idx_if_no_next_token` -/
structure CState where
  lineStart : Nat
  lineEnd : Nat
  lineNo : Int := 0
  prevNo : Option Int := none
  prevIndent : Nat := 0
  prevEnd : Nat
deriving Repr

/-- `while line_end < len(doc_str): …` -/
def loopC (s : S) : WhileLoop CState where
  step st :=
    if st.lineEnd < s.size then
      let lineEnd := st.lineEnd + countUntilNl (sl s (some st.lineStart) none)
      let line := sl s (some st.lineStart) (some lineEnd)
      let lineNo := st.lineNo + 1
      let st1 : CState :=
        if isspace line then st
        else if some (lineNo - 2) == st.prevNo then
          let sw := leadingWs line
          if sw ≥ st.prevIndent then { st with prevNo := some lineNo, prevIndent := sw, prevEnd := lineEnd } else st
        else if line.contains ':' then
          { st with prevNo := some lineNo, prevIndent := leadingWs line, prevEnd := lineEnd }
        else st
      .next { st1 with lineNo := lineNo, lineStart := lineEnd, lineEnd := lineEnd + 1 }
    else .exitCond
  measure st := s.size - st.lineEnd
  dec := by
    intro st s' h
    split at h
    · cases h; simp only; omega
    · cases h

/-- `_get_token_last_idx_if_no_next_token` → (result, header evaluations of its loop) -/
def lastIdxIfNoNextTokenCount (s : S) (lfs : Int) : Option Int × Nat :=
  let nextNl : Int := lfs + countUntilNl (sl s (some lfs) none)
  let nextLine := sl s (some lfs) (some nextNl)
  if !nextLine.isEmpty && allDashes nextLine then
    let start := (nextNl + 1).toNat
    let r := (loopC s).run { lineStart := start, lineEnd := start, prevEnd := start }
    (some ((r.1.prevEnd : Int) + 1), r.2.2)
  else if lstrip (sl s (some lfs) (some nextNl)) == "Raises:".toList then (some (lfs - 1), 0)
  else (none, 0)

structure Counts where
  a : Nat := 0
  b : Nat := 0
  c : Nat := 0
deriving Repr

/-- `_get_token_last_idx` → (result, loop header counts) -/
def tokenLastIdxCount (s : S) : Except String (Int × Counts) := do
  match lastDocStrToken s with
  | none => return (-1, {})
  | some lastFound =>
    let fmt := deriveFormat s
    let lfs ← startOfLastFound s lastFound
    let lfe ← endOfLastFound s lastFound lfs fmt
    let idx0 := findEndOfArgsReturns s lfe
    let ra := (loopA s).run idx0
    if ra.2.1 == .raise then throw "IndexError"
    let idx := ra.1
    let ind := leadingWs (sl s (some (idx + 1)) none)
    let started : Int := ind + idx + 1
    let mut i := started
    let mut cb := 0
    if startsWithAny tokensSet (sl s (some i) none) then
      let rb := (loopB s).run (i + 1)
      if rb.2.1 == .raise then throw "IndexError"
      i := rb.1
      cb := rb.2.2
    if started == i then
      let (r, cc) := lastIdxIfNoNextTokenCount s (lfs.getD 0)
      match r with
      | some v => return (v, { a := ra.2.2, b := cb, c := cc })
      | none => return (i, { a := ra.2.2, b := cb, c := cc })
    return (i, { a := ra.2.2, b := cb, c := 0 })

def tokenLastIdx (s : S) : Except String Int := do return (← tokenLastIdxCount s).1

end DocUtils
