import CddVerif.Model.EmitIface
/-!
# C04 — the executable domain and the *described* interface (specification side)

`DTyp` / `DDefault` / `DParam` / `DIR` are the interface descriptions the property quantifies over: types resolvable
from `typing` + `builtins`, literal defaults.  `describe…` say what the description promises; they are stated on the
description alone (they never call an emitter).  They live in a model file only so that the driver can print them
(`c04.describe`) and the harness can check that its Python oracle computes the same expectations.

Reading of "required flag agrees with the description" (the IR has no such field): an option must be supplied
exactly when the description gives it no value to fall back on — no default, and the type does not admit `None`.
-/
namespace EmitIface
open Py

inductive Scalar | int | float | bool | str
deriving Repr, DecidableEq, Inhabited

def Scalar.id : Scalar → Str
  | .int => sInt | .float => sFloat | .bool => sBool | .str => sStr
def Scalar.conv : Scalar → Conv
  | .int => .int | .float => .float | .bool => .bool | .str => .str

/-- member of a `Literal[...]` -/
inductive LitM | s (v : Str) | i (v : Int)
deriving Repr, DecidableEq, Inhabited
def LitM.const : LitM → Const
  | .s v => .str v | .i v => .int v
def LitM.isStr : LitM → Bool | .s _ => true | .i _ => false

/-- the type grammar of the executable domain -/
inductive DTyp
  | scalar (s : Scalar)                       -- int
  | optional (s : Scalar)                     -- Optional[int]
  | union (a : Scalar) (rest : List Scalar)   -- Union[int, float, …]
  | list (s : Scalar)                         -- List[int]
  | literal (m : LitM) (ms : List LitM)       -- Literal['a', 'b', 1, …]
  | optLiteral (m : LitM) (ms : List LitM)    -- Optional[Literal[…]]
  | annotated (s : Scalar) (note : Str)       -- Annotated[int, 'seconds']
  | tupleEllipsis (s : Scalar)                -- Tuple[int, ...]
  | callableEllipsis (s : Scalar)             -- Callable[..., int]
deriving Repr, DecidableEq, Inhabited

def litSlice (m : LitM) (ms : List LitM) : TExpr :=
  match ms with
  | [] => .const m.const
  | _ => .tuple ((m :: ms).map (fun x => .const x.const))

/-- `ast.parse(typ).body[0].value` of the rendered type (checked against CPython on every case) -/
def DTyp.toExpr : DTyp → TExpr
  | .scalar s => .name s.id
  | .optional s => .sub (.name sOptional) (.name s.id)
  | .union a rest => .sub (.name sUnion) (match rest with
      | [] => .name a.id
      | _ => .tuple ((a :: rest).map (fun x => .name x.id)))
  | .list s => .sub (.name sList) (.name s.id)
  | .literal m ms => .sub (.name sLiteral) (litSlice m ms)
  | .optLiteral m ms => .sub (.name sOptional) (.sub (.name sLiteral) (litSlice m ms))
  | .annotated s note => .sub (.name sAnnotated) (.tuple [.name s.id, .const (.str note)])
  | .tupleEllipsis s => .sub (.name sTuple) (.tuple [.name s.id, .const .ellipsis])
  | .callableEllipsis s => .sub (.name sCallable) (.tuple [.const .ellipsis, .name s.id])

/-- literal defaults; `none` is the described default `None` (`NoneStr` in the IR) -/
inductive DDefault | int (i : Int) | float (r : Str) | bool (b : Bool) | str (s : Str) | none
deriving Repr, DecidableEq, Inhabited

def DDefault.toDefault : DDefault → Default
  | .int i => .int i | .float r => .float r | .bool b => .bool b | .str s => .str s | .none => .none
/-- the value the description promises -/
def DDefault.val : DDefault → Const
  | .int i => .int i | .float r => .float r | .bool b => .bool b | .str s => .str s | .none => .none

structure DParam where
  name : Str
  typ : DTyp
  doc : Str
  default : Option DDefault
deriving Repr, DecidableEq, Inhabited

def DParam.toParam (p : DParam) : Param :=
  { name := p.name, typ := some p.typ.toExpr, doc := p.doc, default := p.default.map DDefault.toDefault }

structure DIR where
  name : Str
  doc : Str
  params : List DParam
  /-- described return: type and prose (no default) -/
  returns : Option (DTyp × Str)
deriving Repr, DecidableEq, Inhabited

def DIR.toIR (ir : DIR) : IR :=
  { name := ir.name, doc := ir.doc, params := ir.params.map DParam.toParam
    returns := ir.returns.map (fun r => { name := sReturnType, typ := some r.1.toExpr, doc := r.2, default := none }) }

/-! ## well-formedness: the domain -/

/-- a string that `set_value` / `code_quoted` leave alone -/
def plainStr (s : Str) : Bool := !codeQuoted s && !quoteWrapped s

def Scalar.admits (s : Scalar) : DDefault → Bool
  | .int _ => s == .int | .float _ => s == .float | .bool _ => s == .bool | .str v => s == .str && plainStr v
  | .none => false

def LitM.admits (m : LitM) (d : DDefault) : Bool :=
  match m, d with
  | .s v, .str w => v == w
  | .i v, .int w => v == w
  | _, _ => false

/-- the default is a legal value of the type -/
def DTyp.admits : DTyp → DDefault → Bool
  | .scalar s, d => s.admits d
  | .optional s, d => d == .none || s.admits d
  | .union a rest, d => (a :: rest).any (·.admits d)
  | .list _, _ => false
  | .literal m ms, d => (m :: ms).any (·.admits d)
  | .optLiteral m ms, d => d == .none || (m :: ms).any (·.admits d)
  | .annotated s _, d => s.admits d
  | .tupleEllipsis _, _ => false
  | .callableEllipsis _, _ => false

def LitM.plain : LitM → Bool | .s v => plainStr v | .i _ => true
def DTyp.plain : DTyp → Bool
  | .literal m ms => (m :: ms).all LitM.plain
  | .optLiteral m ms => (m :: ms).all LitM.plain
  | .union _ rest => !rest.isEmpty
  | _ => true

def DParam.WF (p : DParam) : Bool :=
  !endsWith p.name sKwargs && p.name != sReturnType && triggerFree p.doc && p.typ.plain &&
  (match p.default with | none => true | some d => p.typ.admits d)

def DIR.WF (ir : DIR) : Bool :=
  ir.params.all DParam.WF && (match ir.returns with | none => true | some r => r.1.plain)

/-! ## what the description promises -/

def DTyp.isOptional : DTyp → Bool
  | .optional _ => true | .optLiteral _ _ => true | _ => false
def DTyp.isList : DTyp → Bool
  | .list _ => true | _ => false

/-- class: every parameter (then the return entry, as attribute `return_type`) is annotated with its type and carries
    its default, if it has one, as the class attribute -/
def describeClass (ir : DIR) : ClassSem :=
  { annotations := ir.params.map (fun p => (p.name, p.typ.toExpr)) ++
                   (match ir.returns with | some r => [(sReturnType, r.1.toExpr)] | none => [])
    values := ir.params.filterMap (fun p => p.default.map (fun d => (p.name, Val.c d.val))) }

/-- function: names in order (after the `self`/`cls` receiver, if any), kind as configured, annotation iff configured,
    default iff described -/
def describeSig (cfg : FuncCfg) (ir : DIR) : FuncSem :=
  let first : List SigParam := match cfg.functionType with
    | none => []
    | some ft => if ft == sStatic then [] else [{ name := ft, kind := .positional, ann := none, default := none }]
  { params := first ++ ir.params.map (fun p =>
      { name := p.name, kind := if cfg.kwOnly then .kwOnly else .positional
        ann := if cfg.typeAnnotations then some p.typ.toExpr else none
        default := p.default.map (fun d => Val.c d.val) })
    returns := if cfg.typeAnnotations then ir.returns.map (·.1.toExpr) else none }

/-- must the option be supplied? -/
def describedRequired (p : DParam) : Bool := p.default.isNone && !p.typ.isOptional
/-- `default=` as argparse shows it (`None` and "no default" coincide there) -/
def describedDefault (p : DParam) : Option Const :=
  match p.default with
  | none => none
  | some .none => none
  | some d => some d.val
/-- the members of a `Literal`, otherwise no restriction -/
def describedChoices : DTyp → Option (List Const)
  | .literal m ms => some ((m :: ms).map LitM.const)
  | .optLiteral m ms => some ((m :: ms).map LitM.const)
  | _ => none
def describedHelp (p : DParam) : Option Str := if p.doc.isEmpty then none else some p.doc

/-- types whose values can be written on a command line -/
def DTyp.cli : DTyp → Bool
  | .tupleEllipsis _ => false | .callableEllipsis _ => false | _ => true

def Scalar.legalTok (s : Scalar) (t : Tok) : Bool :=
  match s with
  | .int => t.asInt.isSome | .float => t.asFloat.isSome | .bool => true | .str => true
def LitM.legalTok (m : LitM) (t : Tok) : Bool :=
  match m with
  | .s v => t.text == v
  | .i v => t.asInt == some v
/-- is the command-line string a legal value of the described type (one occurrence, for `List`)? -/
def DTyp.legalTok : DTyp → Tok → Bool
  | .scalar s, t => s.legalTok t
  | .optional s, t => s.legalTok t
  | .union a rest, t => (a :: rest).any (·.legalTok t)
  | .list s, t => s.legalTok t
  | .literal m ms, t => (m :: ms).any (·.legalTok t)
  | .optLiteral m ms, t => (m :: ms).any (·.legalTok t)
  | .annotated s _, t => s.legalTok t
  | .tupleEllipsis _, _ => false
  | .callableEllipsis _, _ => false

/-- `parse_args([])` as described: exits iff some option must be supplied, otherwise yields the described defaults -/
def describedParseEmpty (ir : DIR) : Except String (List (Str × RVal)) :=
  if ir.params.any describedRequired then .error "exit: required"
  else .ok (ir.params.map (fun p => (p.name, RVal.one ((describedDefault p).getD .none))))

end EmitIface
